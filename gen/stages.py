#!/usr/bin/env python
"""gen/stages.py - translator  pdb2pqr/main.py (Python ast)  ->  coq/Generated/Stages.v

Used by C09 and C12.  Fail-closed: any construct the translator does not
understand raises GenError (exit status 2 when run as a script); the checks
report that as a broken proof obligation.

What is generated (see `analyse`):

* the ordered stage list of `main_driver` with `non_trivial` inlined at its call
  site: one stage per driver-level statement (call / assignment / guard / loop),
  named after the principal callee;
* per stage
    reads        options (``args.<attr>``) the stage's effect on the program state
                 or its failure may depend on - directly, through enclosing
                 ``if`` tests (control dependence), through locals assigned from
                 option expressions, and transitively through pdb2pqr callees that
                 receive ``args`` or an option-derived value.  Literal arguments are
                 propagated as constants, so a flag handed to a callee that ignores
                 it on the taken branch (``print_biomolecule_atoms(..., chainflag=
                 args.keep_chain, pdbfile=True)``) is *not* an effective read;
    syn_reads    every ``args.<attr>`` load evaluated on a live path (what a
                 recording proxy around the Namespace can observe);
    writes       option updates ``args.x = e`` with the options ``e`` depends on;
    kind         Compute | Rename | Render | Output | Log | Ctl   (KIND_TABLE below);
    file_writes  file-writing operations reachable from the stage (open(.., 'w'),
                 Path.write_text, ...) with the options the path derives from;
    writes_output  some reachable write site's path derives from ``args.output_pqr``;
    handlers / swallow   enclosing ``try`` handlers; swallow = some handler can
                 complete without re-raising.

Trusted: this analysis (name-based method resolution, heap stores counted as
reads, results of pdb2pqr calls at driver level treated as program state).  It is
cross-checked at run time by the checks (recording proxy, execution trace,
model snapshots around non-compute stages, fault enumeration).
"""

from __future__ import annotations

import ast
import builtins
import importlib.util
import json
import os
import sys
from pathlib import Path

VERIF = Path(__file__).resolve().parent.parent


class GenError(Exception):
    pass


UNKNOWN = object()

DRIVER = "main_driver"
INLINE = {"non_trivial"}

LOG, OUTPUT, RENDER, RENAME, COMPUTE, CTL = "Log", "Output", "Render", "Rename", "Compute", "Ctl"
# classification of driver-level stages by principal callee (trusted meaning:
# only Compute stages change coordinates / charges / radii / atom order; Rename
# changes names only; Render builds strings from the model; Output writes files)
KIND_TABLE = {
    "print_splash_screen": LOG,
    "print_pqr": OUTPUT,
    "print_pdb": OUTPUT,
    "dump_apbs": OUTPUT,
    "print_pqr_header": RENDER,
    "print_pqr_header_cif": RENDER,
    "print_biomolecule_atoms": RENDER,
    "apply_name_scheme": RENAME,
}
LOGGER_NAMES = {"_LOGGER"}

# (.replace / .rename are left out: str.replace is everywhere; os.replace / os.rename are in WRITE_FUNCS)
WRITE_METHODS = {"write_text", "write_bytes", "touch", "unlink", "rmdir", "mkdir", "symlink_to", "hardlink_to", "truncate"}
WRITE_FUNCS = {
    "os.remove", "os.unlink", "os.rename", "os.replace", "os.truncate", "os.rmdir", "os.mkdir", "os.makedirs",
    "shutil.copy", "shutil.copy2", "shutil.copyfile", "shutil.move", "shutil.rmtree", "shutil.copytree",
}
IO_SOURCES = {"open", "read_text", "read_bytes", "readlines", "readline", "read"}


# ----------------------------------------------------------------------------
# package index


class Fn:
    def __init__(self, node, mod, cls=None):
        self.node, self.mod, self.cls = node, mod, cls
        self.qual = f"{mod.short}.{cls.name + '.' if cls else ''}{node.name}"
        decos = [d.id if isinstance(d, ast.Name) else getattr(d, "attr", "") for d in node.decorator_list]
        self.is_static = "staticmethod" in decos
        self.is_classmethod = "classmethod" in decos
        self.is_property = "property" in decos

    def __repr__(self):
        return f"<Fn {self.qual}>"


class Cls:
    def __init__(self, node, mod):
        self.node, self.mod, self.name = node, mod, node.name
        self.bases = [b.id if isinstance(b, ast.Name) else (b.attr if isinstance(b, ast.Attribute) else None) for b in node.bases]
        self.methods = {}
        for st in node.body:
            if isinstance(st, (ast.FunctionDef,)):
                self.methods[st.name] = Fn(st, mod, self)


class Mod:
    def __init__(self, name, path, pkg_root):
        self.name, self.path = name, path
        self.short = name.split(".", 1)[1] if "." in name else name
        self.tree = ast.parse(path.read_text(), filename=str(path))
        self.is_pkg = path.name == "__init__.py"
        self.funcs, self.classes, self.imports, self.consts = {}, {}, {}, {}
        for st in self.tree.body:
            if isinstance(st, ast.FunctionDef):
                self.funcs[st.name] = Fn(st, self)
            elif isinstance(st, ast.ClassDef):
                self.classes[st.name] = Cls(st, self)
            elif isinstance(st, ast.Assign) and len(st.targets) == 1 and isinstance(st.targets[0], ast.Name):
                self.consts[st.targets[0].id] = st.value
        for st in ast.walk(self.tree):
            if isinstance(st, ast.Import):
                for a in st.names:
                    if a.asname:
                        self.imports[a.asname] = ("ext", a.name)
                    else:
                        self.imports[a.name.split(".")[0]] = ("ext", a.name.split(".")[0])
            elif isinstance(st, ast.ImportFrom):
                if st.level == 0:
                    for a in st.names:
                        self.imports[a.asname or a.name] = ("ext", f"{st.module}.{a.name}")
                else:
                    pkg = self.name if self.is_pkg else self.name.rsplit(".", 1)[0]
                    for _ in range(st.level - 1):
                        pkg = pkg.rsplit(".", 1)[0]
                    base = pkg + ("." + st.module if st.module else "")
                    for a in st.names:
                        self.imports[a.asname or a.name] = ("rel", base, a.name)


class Index:
    def __init__(self, repo: Path):
        self.repo = repo
        root = repo / "pdb2pqr"
        if not (root / "main.py").is_file():
            raise GenError(f"{root}/main.py not found")
        self.mods = {}
        for p in sorted(root.rglob("*.py")):
            rel = p.relative_to(repo).with_suffix("")
            parts = list(rel.parts)
            if parts[-1] == "__init__":
                parts = parts[:-1]
            if "tests" in parts:
                continue
            name = ".".join(parts)
            try:
                self.mods[name] = Mod(name, p, root)
            except SyntaxError as e:
                raise GenError(f"cannot parse {p}: {e}")
        self.methods_by_name = {}
        for m in self.mods.values():
            for c in m.classes.values():
                for fn in c.methods.values():
                    self.methods_by_name.setdefault(fn.node.name, []).append(fn)

    # -- symbol resolution ---------------------------------------------------
    def resolve_import(self, mod: Mod, alias: str, depth=0):
        """-> ('mod', Mod) | ('fn', Fn) | ('cls', Cls) | ('const', node, Mod) | ('ext', dotted) | None"""
        if depth > 6:
            return None
        imp = mod.imports.get(alias)
        if imp is None:
            return None
        if imp[0] == "ext":
            return ("ext", imp[1])
        _, base, name = imp
        full = f"{base}.{name}"
        if full in self.mods:
            return ("mod", self.mods[full])
        if base in self.mods:
            return self.lookup_in_module(self.mods[base], name, depth + 1)
        return ("ext", full)

    def lookup_in_module(self, m: Mod, name: str, depth=0):
        if name in m.funcs:
            return ("fn", m.funcs[name])
        if name in m.classes:
            return ("cls", m.classes[name])
        if name in m.imports:
            return self.resolve_import(m, name, depth + 1)
        if name in m.consts:
            return ("const", m.consts[name], m)
        return None

    def find_class(self, mod: Mod, name: str):
        r = self.lookup_in_module(mod, name)
        if r and r[0] == "cls":
            return r[1]
        for m in self.mods.values():  # fall back: unique class name anywhere
            if name in m.classes:
                return m.classes[name]
        return None

    def method_lookup(self, cls: Cls, name: str, seen=None):
        seen = seen or set()
        if cls in seen:
            return None
        seen.add(cls)
        if name in cls.methods:
            return cls.methods[name]
        for b in cls.bases:
            if b is None:
                continue
            bc = self.find_class(cls.mod, b)
            if bc is not None:
                r = self.method_lookup(bc, name, seen)
                if r is not None:
                    return r
        return None


# ----------------------------------------------------------------------------
# option universe


def parser_dests(fn_node) -> list[str]:
    """dest names of every add_argument call in a parser-building function."""
    out = []
    for n in ast.walk(fn_node):
        if isinstance(n, ast.Call) and isinstance(n.func, ast.Attribute) and n.func.attr == "add_argument":
            dest = None
            for kw in n.keywords:
                if kw.arg == "dest" and isinstance(kw.value, ast.Constant):
                    dest = kw.value.value
                if kw.arg == "action" and isinstance(kw.value, ast.Constant) and kw.value.value in ("version", "help"):
                    dest = "-"
            if dest is None:
                flags = [a.value for a in n.args if isinstance(a, ast.Constant) and isinstance(a.value, str)]
                if not flags:
                    raise GenError(f"add_argument without literal flags at line {n.lineno}")
                longs = [f for f in flags if f.startswith("--")]
                if longs:
                    dest = longs[0][2:].replace("-", "_")
                elif flags[0].startswith("-"):
                    dest = flags[0][1:].replace("-", "_")
                else:
                    dest = flags[0]
            if dest != "-" and dest not in out:
                out.append(dest)
    return out


def propka_info():
    """(dests of propka's parser, attribute names used anywhere in propka)."""
    spec = importlib.util.find_spec("propka")
    if spec is None or not spec.submodule_search_locations:
        raise GenError("propka package not found")
    root = Path(list(spec.submodule_search_locations)[0])
    attrs, strs, dests = set(), set(), []
    for p in sorted(root.rglob("*.py")):
        tree = ast.parse(p.read_text())
        for n in ast.walk(tree):
            if isinstance(n, ast.Attribute):
                attrs.add(n.attr)
            elif isinstance(n, ast.Constant) and isinstance(n.value, str) and n.value.isidentifier():
                strs.add(n.value)
            elif isinstance(n, ast.FunctionDef) and n.name == "build_parser" and p.name == "lib.py":
                dests = parser_dests(n)
    if not dests:
        raise GenError("propka.lib.build_parser not found")
    return dests, attrs | strs


# ----------------------------------------------------------------------------
# abstract values


class Val:
    __slots__ = ("taint", "is_args", "const", "cls")

    def __init__(self, taint=frozenset(), is_args=False, const=UNKNOWN, cls=None):
        self.taint, self.is_args, self.const, self.cls = frozenset(taint), is_args, const, cls

    def key(self):
        c = "?" if self.const is UNKNOWN else repr(self.const)
        return (tuple(sorted(self.taint)), self.is_args, c, self.cls.name if self.cls else None)

    def with_taint(self, t):
        if not t or t <= self.taint:
            return self
        return Val(self.taint | t, self.is_args, self.const, self.cls)


def join(a: Val, b: Val) -> Val:
    if a is b:
        return a
    const = a.const if (a.const is not UNKNOWN and b.const is not UNKNOWN and type(a.const) is type(b.const) and a.const == b.const) else UNKNOWN
    return Val(a.taint | b.taint, a.is_args or b.is_args, const, a.cls if a.cls is b.cls else None)


NOVAL = Val()


class Acc:
    """What one stage does with the options."""

    def __init__(self, universe, ctrl=frozenset()):
        self.universe = universe
        self.syn, self.reads = set(), set()
        self.writes = {}  # opt -> set(deps)
        self.sites = []  # (site qualname, path source, frozenset opts)
        self.ctrl = [frozenset(ctrl)] if ctrl else []
        self.quiet = 0
        self.memo = {}
        self.stack = set()
        self.visited = set()
        self.count = 0

    def ctrl_taint(self):
        out = frozenset()
        for c in self.ctrl:
            out |= c
        return out

    def use(self, taint):
        if not self.quiet and taint:
            self.reads |= taint

    def effect(self):
        if not self.quiet:
            self.reads |= self.ctrl_taint()

    def syn_read(self, names):
        self.syn |= set(names)

    def write(self, opt, deps):
        self.writes.setdefault(opt, set()).update(deps | self.ctrl_taint())


# ----------------------------------------------------------------------------
# the abstract interpreter


class Interp:
    MAX_INSTANCES = 60000

    def __init__(self, index: Index, universe, external_reads):
        self.ix = index
        self.universe = frozenset(universe)
        self.external_reads = frozenset(external_reads)

    # -- expressions ---------------------------------------------------------
    def eval(self, node, env, acc: Acc, ctx) -> Val:
        m = getattr(self, "e_" + type(node).__name__, None)
        if m is None:
            raise GenError(f"unsupported expression {type(node).__name__} at {ctx['mod'].short}:{getattr(node, 'lineno', '?')}")
        return m(node, env, acc, ctx)

    def e_Constant(self, n, env, acc, ctx):
        return Val(const=n.value)

    def e_Name(self, n, env, acc, ctx):
        if n.id in env:
            return env[n.id]
        c = ctx["mod"].consts.get(n.id)
        if isinstance(c, ast.Constant):
            return Val(const=c.value)
        return NOVAL

    def e_Attribute(self, n, env, acc, ctx):
        base = self.eval(n.value, env, acc, ctx)
        if base.is_args:
            acc.syn_read([n.attr])
            return Val(taint={n.attr})
        return Val(taint=base.taint)

    def _union(self, nodes, env, acc, ctx):
        t = frozenset()
        for x in nodes:
            if x is None:
                continue
            v = self.eval(x, env, acc, ctx)
            if v.is_args:
                raise GenError(f"args namespace used inside an expression at {ctx['mod'].short}:{x.lineno}")
            t |= v.taint
        return t

    def e_JoinedStr(self, n, env, acc, ctx):
        t = frozenset()
        for x in n.values:
            if isinstance(x, ast.FormattedValue):
                v = self.eval(x.value, env, acc, ctx)
                if v.is_args:  # the whole namespace is formatted
                    acc.syn_read(self.universe)
                    t |= self.universe
                else:
                    t |= v.taint
                if x.format_spec is not None:
                    t |= self.eval(x.format_spec, env, acc, ctx).taint
        return Val(taint=t)

    def e_FormattedValue(self, n, env, acc, ctx):
        return self.eval(n.value, env, acc, ctx)

    def e_BinOp(self, n, env, acc, ctx):
        return Val(taint=self._union([n.left, n.right], env, acc, ctx))

    def e_UnaryOp(self, n, env, acc, ctx):
        v = self.eval(n.operand, env, acc, ctx)
        c = UNKNOWN
        if isinstance(n.op, ast.Not) and v.const is not UNKNOWN:
            c = not v.const
        return Val(taint=v.taint, const=c)

    def e_BoolOp(self, n, env, acc, ctx):
        vals = [self.eval(x, env, acc, ctx) for x in n.values]
        t = frozenset().union(*[v.taint for v in vals])
        c = UNKNOWN
        if all(v.const is not UNKNOWN for v in vals):
            c = all(v.const for v in vals) if isinstance(n.op, ast.And) else any(v.const for v in vals)
        elif isinstance(n.op, ast.And) and any(v.const is not UNKNOWN and not v.const for v in vals):
            c = False
        elif isinstance(n.op, ast.Or) and any(v.const is not UNKNOWN and v.const for v in vals):
            c = True
        return Val(taint=t, const=c)

    def e_Compare(self, n, env, acc, ctx):
        left = self.eval(n.left, env, acc, ctx)
        t = left.taint
        rights = []
        for op, r in zip(n.ops, n.comparators):
            rv = self.eval(r, env, acc, ctx)
            if rv.is_args:  # `key in args`
                if isinstance(op, (ast.In, ast.NotIn)) and left.const is not UNKNOWN and isinstance(left.const, str):
                    acc.syn_read([left.const])
                    t |= {left.const}
                elif isinstance(op, (ast.In, ast.NotIn)):
                    acc.syn_read(self.universe)
                    t |= self.universe
                else:
                    raise GenError(f"args namespace compared at {ctx['mod'].short}:{n.lineno}")
                rights.append(NOVAL)
                continue
            t |= rv.taint
            rights.append(rv)
        if left.is_args:
            raise GenError(f"args namespace compared at {ctx['mod'].short}:{n.lineno}")
        c = UNKNOWN
        if len(n.ops) == 1 and left.const is not UNKNOWN and rights[0].const is not UNKNOWN:
            a, b, op = left.const, rights[0].const, n.ops[0]
            try:
                if isinstance(op, ast.Is):
                    c = (a is b) if (a is None or b is None or isinstance(a, bool) or isinstance(b, bool)) else UNKNOWN
                elif isinstance(op, ast.IsNot):
                    c = (a is not b) if (a is None or b is None or isinstance(a, bool) or isinstance(b, bool)) else UNKNOWN
                elif isinstance(op, ast.Eq):
                    c = a == b
                elif isinstance(op, ast.NotEq):
                    c = a != b
            except Exception:
                c = UNKNOWN
        return Val(taint=t, const=c)

    def e_IfExp(self, n, env, acc, ctx):
        tv = self.eval(n.test, env, acc, ctx)
        if tv.const is not UNKNOWN:
            return self.eval(n.body if tv.const else n.orelse, env, acc, ctx).with_taint(tv.taint)
        a = self.eval(n.body, env, acc, ctx)
        b = self.eval(n.orelse, env, acc, ctx)
        return join(a, b).with_taint(tv.taint)

    def e_Subscript(self, n, env, acc, ctx):
        return Val(taint=self._union([n.value, n.slice], env, acc, ctx))

    def e_Slice(self, n, env, acc, ctx):
        return Val(taint=self._union([n.lower, n.upper, n.step], env, acc, ctx))

    def e_Starred(self, n, env, acc, ctx):
        return self.eval(n.value, env, acc, ctx)

    def e_Tuple(self, n, env, acc, ctx):
        return Val(taint=self._union(n.elts, env, acc, ctx))

    e_List = e_Tuple
    e_Set = e_Tuple

    def e_Dict(self, n, env, acc, ctx):
        return Val(taint=self._union(list(n.keys) + list(n.values), env, acc, ctx))

    def _comp(self, n, elts, env, acc, ctx):
        env = dict(env)
        t = frozenset()
        for g in n.generators:
            it = self.eval(g.iter, env, acc, ctx)
            t |= it.taint
            self.bind_target(g.target, Val(taint=it.taint), env, acc, ctx)
            for cond in g.ifs:
                t |= self.eval(cond, env, acc, ctx).taint
        for e in elts:
            t |= self.eval(e, env, acc, ctx).taint
        return Val(taint=t)

    def e_ListComp(self, n, env, acc, ctx):
        return self._comp(n, [n.elt], env, acc, ctx)

    e_SetComp = e_ListComp
    e_GeneratorExp = e_ListComp

    def e_DictComp(self, n, env, acc, ctx):
        return self._comp(n, [n.key, n.value], env, acc, ctx)

    def e_Lambda(self, n, env, acc, ctx):
        return Val(taint=self.eval(n.body, dict(env), acc, ctx).taint)

    def e_NamedExpr(self, n, env, acc, ctx):
        v = self.eval(n.value, env, acc, ctx)
        env[n.target.id] = v
        return v

    # -- calls ---------------------------------------------------------------
    def dotted(self, node):
        if isinstance(node, ast.Name):
            return node.id
        if isinstance(node, ast.Attribute):
            b = self.dotted(node.value)
            return None if b is None else f"{b}.{node.attr}"
        return None

    def resolve_call(self, func, env, acc, ctx):
        """-> (kind, payload, receiver Val|None)
        kind: 'fns' (payload list of Fn, bound to receiver when methods), 'ext' (payload dotted name)"""
        mod = ctx["mod"]
        if isinstance(func, ast.Name):
            name = func.id
            if name in env:
                return ("ext", f"<local>.{name}", None)
            r = self.ix.lookup_in_module(mod, name)
            if r is None:
                if hasattr(builtins, name):
                    return ("ext", f"builtins.{name}", None)
                return ("ext", f"<unknown>.{name}", None)
            if r[0] == "fn":
                return ("fns", [r[1]], None)
            if r[0] == "cls":
                init = self.ix.method_lookup(r[1], "__init__")
                return ("ctor", (r[1], init), None)
            if r[0] == "ext":
                return ("ext", r[1], None)
            return ("ext", f"<value>.{name}", None)
        if isinstance(func, ast.Attribute):
            attr = func.attr
            base = func.value
            if isinstance(base, ast.Name) and base.id not in env:
                if base.id in LOGGER_NAMES:
                    return ("ext", f"logging.Logger.{attr}", None)
                r = self.ix.lookup_in_module(mod, base.id)
                if r is not None and r[0] == "mod":
                    q = self.ix.lookup_in_module(r[1], attr)
                    if q is None:
                        return ("ext", f"{r[1].name}.{attr}", None)
                    if q[0] == "fn":
                        return ("fns", [q[1]], None)
                    if q[0] == "cls":
                        return ("ctor", (q[1], self.ix.method_lookup(q[1], "__init__")), None)
                    if q[0] == "ext":
                        return ("ext", q[1], None)
                    return ("ext", f"{r[1].name}.{attr}", None)
                if r is not None and r[0] == "ext":
                    return ("ext", f"{r[1]}.{attr}", None)
                if r is not None and r[0] == "cls":
                    fn = self.ix.method_lookup(r[1], attr)
                    if fn is not None:
                        return ("fns", [fn], NOVAL if not (fn.is_static) else None)
                if base.id == "self" and ctx.get("cls") is not None:
                    pass  # handled below (self is normally in env)
            d = self.dotted(func)
            if d is not None:
                root = d.split(".")[0]
                if root not in env:
                    r = self.ix.lookup_in_module(mod, root)
                    if r is not None and r[0] == "ext":
                        return ("ext", r[1] + d[len(root):], None)
            recv = self.eval(base, env, acc, ctx)
            if recv.is_args:
                raise GenError(f"method call on the args namespace at {mod.short}:{func.lineno}")
            if recv.cls is not None:
                fn = self.ix.method_lookup(recv.cls, attr)
                if fn is not None:
                    return ("fns", [fn], recv)
            cands = [f for f in self.ix.methods_by_name.get(attr, []) if not attr.startswith("__")]
            if cands:
                return ("fns", cands, recv)
            return ("ext", f"<method>.{attr}", recv)
        # call of a call result / subscript etc.
        recv = self.eval(func, env, acc, ctx)
        return ("ext", "<expr>", recv)

    def e_Call(self, n, env, acc, ctx):
        mod = ctx["mod"]
        fname = self.dotted(n.func)
        # reflective access to the namespace
        if fname in ("getattr", "setattr", "hasattr", "vars", "delattr") and n.args:
            a0 = self.eval(n.args[0], env, acc, ctx)
            if a0.is_args:
                if fname in ("vars", "delattr"):
                    raise GenError(f"{fname}(args) at {mod.short}:{n.lineno}")
                k = self.eval(n.args[1], env, acc, ctx)
                keys = [k.const] if isinstance(k.const, str) else sorted(self.universe)
                acc.syn_read(keys)
                if fname == "setattr":
                    v = self.eval(n.args[2], env, acc, ctx)
                    for key in keys:
                        acc.write(key, set(v.taint | k.taint))
                    return NOVAL
                t = frozenset(keys) | k.taint
                for extra in n.args[2:]:
                    t |= self.eval(extra, env, acc, ctx).taint
                return Val(taint=t)
        kind, payload, recv = self.resolve_call(n.func, env, acc, ctx)
        # arguments
        pos, kws, star_t = [], {}, frozenset()
        for a in n.args:
            if isinstance(a, ast.Starred):
                star_t |= self.eval(a.value, env, acc, ctx).taint
            else:
                pos.append(self.eval(a, env, acc, ctx))
        for kw in n.keywords:
            v = self.eval(kw.value, env, acc, ctx)
            if kw.arg is None:
                star_t |= v.taint
            else:
                kws[kw.arg] = v
        allv = pos + list(kws.values())
        arg_t = frozenset().union(star_t, *[v.taint for v in allv]) if allv or star_t else frozenset()
        recv_t = recv.taint if recv is not None else frozenset()
        any_args = any(v.is_args for v in allv)
        if kind == "ext":
            return self.call_external(n, payload, pos, kws, arg_t, recv_t, any_args, acc, ctx)
        if kind == "ctor":
            cls, init = payload
            res = Val(cls=cls)
            if init is not None and (arg_t or any_args or self.always_descend(init)):
                self.call_fn(init, n, Val(cls=cls), pos, kws, star_t, acc, ctx)
            elif star_t:
                acc.use(star_t)
            return res
        # internal functions / methods
        fns = payload
        out = None
        descend = bool(arg_t or recv_t or any_args)
        for fn in fns:
            if descend or self.always_descend(fn):
                r = self.call_fn(fn, n, recv, pos, kws, star_t, acc, ctx)
            else:
                r = NOVAL
            out = r if out is None else join(out, r)
        return out if out is not None else NOVAL

    def always_descend(self, fn: Fn):
        return fn.mod.short == "main"

    def call_external(self, n, name, pos, kws, arg_t, recv_t, any_args, acc, ctx):
        mod = ctx["mod"]
        leaf = name.split(".")[-1]
        if any_args:
            if name.startswith("logging.Logger."):
                acc.syn_read(self.universe)
                acc.use(self.universe)
            elif name.split(".")[0] == "propka":
                acc.syn_read(self.external_reads)
                acc.use(self.external_reads)
            else:
                raise GenError(f"args namespace escapes to unknown callee {name} at {mod.short}:{n.lineno}")
        # file-writing operations
        site = None
        if leaf == "open":
            mode = None
            if name in ("builtins.open", "io.open", "open"):
                path_v = pos[0] if pos else kws.get("file", NOVAL)
                mode_n = n.args[1] if len(n.args) > 1 else next((k.value for k in n.keywords if k.arg == "mode"), None)
                path_src = ast.unparse(n.args[0]) if n.args else "?"
            else:  # Path.open / other .open(mode)
                path_v = Val(taint=recv_t)
                mode_n = n.args[0] if n.args else next((k.value for k in n.keywords if k.arg == "mode"), None)
                path_src = ast.unparse(n.func.value) if isinstance(n.func, ast.Attribute) else "?"
            if mode_n is None:
                mode = "r"
            elif isinstance(mode_n, ast.Constant) and isinstance(mode_n.value, str):
                mode = mode_n.value
            else:
                mode = "w?"  # unknown mode: assume writing
            if any(ch in mode for ch in "wax+?"):
                site = (path_src, path_v.taint)
        elif leaf in WRITE_METHODS and name.startswith("<method>"):
            site = (ast.unparse(n.func.value), recv_t)
        elif name in WRITE_FUNCS:
            site = (ast.unparse(n.args[0]) if n.args else "?", arg_t)
        if site is not None:
            acc.sites.append((ctx["qual"], site[0], frozenset(site[1])))
        acc.use(arg_t | recv_t)
        if leaf in IO_SOURCES:
            return NOVAL  # file contents are environment/state, not an option value
        return Val(taint=arg_t | recv_t)

    def call_fn(self, fn: Fn, call, recv, pos, kws, star_t, acc: Acc, ctx) -> Val:
        a = fn.node.args
        params = [p.arg for p in a.posonlyargs + a.args]
        defaults = [None] * (len(params) - len(a.defaults)) + list(a.defaults)
        bind = {}
        is_method = fn.cls is not None and not fn.is_static
        if is_method and params:
            self_name = params[0]
            bind[self_name] = Val(taint=(recv.taint if recv is not None else frozenset()), cls=(recv.cls if recv is not None and recv.cls is not None else fn.cls))
            params, defaults = params[1:], defaults[1:]
        for p, v in zip(params, pos):
            bind[p] = v
        extra_pos = pos[len(params):]
        for k, v in kws.items():
            if k in params or k in [x.arg for x in a.kwonlyargs]:
                bind[k] = v
            elif a.kwarg is not None:
                bind[a.kwarg.arg] = join(bind.get(a.kwarg.arg, NOVAL), Val(taint=v.taint))
            else:
                # keyword not accepted by this candidate (name-based resolution): ignore candidate's binding
                bind.setdefault(k, v)
        for p, d in zip(params, defaults):
            if p not in bind:
                bind[p] = Val(const=d.value) if isinstance(d, ast.Constant) else NOVAL
        for p, d in zip(a.kwonlyargs, a.kw_defaults):
            if p.arg not in bind:
                bind[p.arg] = Val(const=d.value) if isinstance(d, ast.Constant) else NOVAL
        if a.vararg is not None:
            t = star_t.union(*[v.taint for v in extra_pos]) if extra_pos else star_t
            bind[a.vararg.arg] = Val(taint=t)
        elif star_t or extra_pos:
            # starred arguments spread over parameters: taint every unbound parameter
            t = star_t.union(*[v.taint for v in extra_pos]) if extra_pos else star_t
            for p in params:
                bind[p] = bind.get(p, NOVAL).with_taint(t)
        key = (id(fn.node), tuple(sorted((k, v.key()) for k, v in bind.items())), acc.ctrl_taint(), acc.quiet > 0)
        if key in acc.memo:
            return acc.memo[key]
        if key in acc.stack:
            t = frozenset().union(*[v.taint for v in bind.values()]) if bind else frozenset()
            return Val(taint=t)
        acc.count += 1
        if acc.count > self.MAX_INSTANCES:
            raise GenError(f"analysis budget exceeded below {ctx['qual']} (call at line {call.lineno})")
        acc.stack.add(key)
        acc.visited.add(fn.qual)
        sub = {"mod": fn.mod, "cls": fn.cls, "qual": fn.qual, "ret": []}
        saved_ctrl = list(acc.ctrl)
        try:
            self.exec_block(fn.node.body, dict(bind), acc, sub)
        finally:
            acc.ctrl = saved_ctrl
            acc.stack.discard(key)
        out = NOVAL
        first = True
        for r in sub["ret"]:
            out = r if first else join(out, r)
            first = False
        acc.memo[key] = out
        return out

    # -- statements (inside callees) ----------------------------------------
    def bind_target(self, tgt, val: Val, env, acc, ctx):
        if isinstance(tgt, ast.Name):
            env[tgt.id] = val.with_taint(acc.ctrl_taint())
        elif isinstance(tgt, (ast.Tuple, ast.List)):
            for e in tgt.elts:
                self.bind_target(e.value if isinstance(e, ast.Starred) else e, Val(taint=val.taint, is_args=False), env, acc, ctx)
        elif isinstance(tgt, ast.Attribute):
            base = self.eval(tgt.value, env, acc, ctx)
            if base.is_args:
                acc.write(tgt.attr, set(val.taint))
            else:
                acc.effect()
                acc.use(val.taint | base.taint)
        elif isinstance(tgt, ast.Subscript):
            t = self._union([tgt.value, tgt.slice], env, acc, ctx)
            acc.effect()
            acc.use(val.taint | t)
        else:
            raise GenError(f"unsupported assignment target {type(tgt).__name__} at {ctx['mod'].short}:{tgt.lineno}")

    def is_option_write(self, st, env, acc, ctx) -> bool:
        """`args.x = e`, `setattr(args, ..)`, or blocks consisting only of those."""
        if isinstance(st, ast.Pass):
            return True
        if isinstance(st, ast.Assign):
            return all(isinstance(t, ast.Attribute) and isinstance(t.value, ast.Name) and env.get(t.value.id, NOVAL).is_args for t in st.targets)
        if isinstance(st, ast.Expr) and isinstance(st.value, ast.Call) and self.dotted(st.value.func) == "setattr" and st.value.args:
            a0 = st.value.args[0]
            return isinstance(a0, ast.Name) and env.get(a0.id, NOVAL).is_args
        return False

    def exec_block(self, stmts, env, acc: Acc, ctx):
        for st in stmts:
            self.exec_stmt(st, env, acc, ctx)

    def exec_stmt(self, st, env, acc: Acc, ctx):
        mod = ctx["mod"]
        if isinstance(st, ast.Expr):
            if isinstance(st.value, ast.Constant):
                return
            if self.is_option_write(st, env, acc, ctx):
                acc.quiet += 1
                try:
                    self.eval(st.value, env, acc, ctx)
                finally:
                    acc.quiet -= 1
                return
            acc.effect()
            v = self.eval(st.value, env, acc, ctx)
            return
        if isinstance(st, ast.Assign):
            if self.is_option_write(st, env, acc, ctx):
                acc.quiet += 1
                try:
                    v = self.eval(st.value, env, acc, ctx)
                finally:
                    acc.quiet -= 1
                for t in st.targets:
                    acc.write(t.attr, set(v.taint))
                return
            v = self.eval(st.value, env, acc, ctx)
            for t in st.targets:
                self.bind_target(t, v, env, acc, ctx)
            return
        if isinstance(st, ast.AnnAssign):
            if st.value is not None:
                self.bind_target(st.target, self.eval(st.value, env, acc, ctx), env, acc, ctx)
            return
        if isinstance(st, ast.AugAssign):
            v = self.eval(st.value, env, acc, ctx)
            if isinstance(st.target, ast.Name):
                env[st.target.id] = join(env.get(st.target.id, NOVAL), Val(taint=v.taint)).with_taint(acc.ctrl_taint())
                env[st.target.id] = Val(taint=env[st.target.id].taint)
            else:
                self.bind_target(st.target, v, env, acc, ctx)
            return
        if isinstance(st, ast.If):
            acc.quiet += 1
            try:
                tv = self.eval(st.test, env, acc, ctx)
            finally:
                acc.quiet -= 1
            if tv.is_args:
                raise GenError(f"args namespace tested at {mod.short}:{st.lineno}")
            if tv.const is not UNKNOWN:
                self.exec_block(st.body if tv.const else st.orelse, env, acc, ctx)
                return
            acc.ctrl.append(tv.taint)
            e1, e2 = dict(env), dict(env)
            self.exec_block(st.body, e1, acc, ctx)
            self.exec_block(st.orelse, e2, acc, ctx)
            acc.ctrl.pop()
            for k in set(e1) | set(e2):
                if k in e1 and k in e2:
                    env[k] = join(e1[k], e2[k])
                else:
                    v = e1.get(k) or e2.get(k)
                    env[k] = Val(taint=v.taint, is_args=v.is_args, cls=v.cls)
            return
        if isinstance(st, (ast.For, ast.While)):
            if isinstance(st, ast.For):
                unrolled = self.try_unroll(st, env, acc, ctx)
                if unrolled:
                    return
                it = self.eval(st.iter, env, acc, ctx)
                if it.is_args:
                    raise GenError(f"iteration over the args namespace at {mod.short}:{st.lineno}")
                ct = it.taint
            else:
                acc.quiet += 1
                try:
                    ct = self.eval(st.test, env, acc, ctx).taint
                finally:
                    acc.quiet -= 1
            acc.ctrl.append(ct)
            for _ in range(2):  # taints are monotone; two rounds reach the loop-carried ones
                if isinstance(st, ast.For):
                    self.bind_target(st.target, Val(taint=ct), env, acc, ctx)
                self.exec_block(st.body, env, acc, ctx)
            acc.ctrl.pop()
            self.exec_block(st.orelse, env, acc, ctx)
            return
        if isinstance(st, ast.With):
            for item in st.items:
                v = self.eval(item.context_expr, env, acc, ctx)
                if item.optional_vars is not None:
                    self.bind_target(item.optional_vars, Val(taint=v.taint, cls=v.cls), env, acc, ctx)
            self.exec_block(st.body, env, acc, ctx)
            return
        if isinstance(st, ast.Try):
            self.exec_block(st.body, env, acc, ctx)
            for h in st.handlers:
                if h.name:
                    env[h.name] = NOVAL
                self.exec_block(h.body, env, acc, ctx)
            self.exec_block(st.orelse, env, acc, ctx)
            self.exec_block(st.finalbody, env, acc, ctx)
            return
        if isinstance(st, ast.Return):
            if st.value is not None:
                v = self.eval(st.value, env, acc, ctx)
                ctx["ret"].append(v.with_taint(acc.ctrl_taint()) if not v.is_args else v)
            if acc.ctrl_taint():
                acc.effect()
            return
        if isinstance(st, ast.Raise):
            acc.effect()
            t = self._union([st.exc, st.cause], env, acc, ctx)
            acc.use(t)
            return
        if isinstance(st, ast.Assert):
            acc.effect()
            acc.use(self._union([st.test, st.msg], env, acc, ctx))
            return
        if isinstance(st, ast.Delete):
            acc.effect()
            return
        if isinstance(st, (ast.Pass, ast.Break, ast.Continue, ast.Import, ast.ImportFrom, ast.Global, ast.Nonlocal)):
            if isinstance(st, (ast.Break, ast.Continue)) and acc.ctrl_taint():
                acc.effect()
            return
        if isinstance(st, (ast.FunctionDef, ast.ClassDef)):
            return  # nested definitions: analysed only if called by name (not supported) - reach scan covers writes
        raise GenError(f"unsupported statement {type(st).__name__} at {mod.short}:{st.lineno}")

    def try_unroll(self, st: ast.For, env, acc, ctx) -> bool:
        """`for k, v in CONST_DICT.items()` / `for k in CONST_DICT` with literal keys."""
        it = st.iter
        name, items = None, False
        if isinstance(it, ast.Call) and isinstance(it.func, ast.Attribute) and it.func.attr in ("items", "keys") and isinstance(it.func.value, ast.Name) and not it.args:
            name, items = it.func.value.id, it.func.attr == "items"
        elif isinstance(it, ast.Name):
            name = it.id
        if name is None or name in env:
            return False
        r = self.ix.lookup_in_module(ctx["mod"], name)
        if not r or r[0] != "const" or not isinstance(r[1], ast.Dict):
            return False
        d = r[1]
        if not all(isinstance(k, ast.Constant) for k in d.keys):
            return False
        for k, v in zip(d.keys, d.values):
            kv = Val(const=k.value)
            vv = Val(const=v.value) if isinstance(v, ast.Constant) else NOVAL
            if items:
                if not (isinstance(st.target, ast.Tuple) and len(st.target.elts) == 2 and all(isinstance(e, ast.Name) for e in st.target.elts)):
                    return False
                env[st.target.elts[0].id] = kv
                env[st.target.elts[1].id] = vv
            else:
                if not isinstance(st.target, ast.Name):
                    return False
                env[st.target.id] = kv
            self.exec_block(st.body, env, acc, ctx)
        return True


# ----------------------------------------------------------------------------
# reachability scan for file-writing operations (context-insensitive)


class Reach:
    def __init__(self, index: Index, interp: Interp):
        self.ix, self.interp = index, interp
        self.direct = {}  # qual -> list of (path source)
        self.callees = {}  # qual -> set of Fn
        self.fn_by_qual = {}
        for m in index.mods.values():
            for fn in m.funcs.values():
                self.fn_by_qual[fn.qual] = fn
            for c in m.classes.values():
                for fn in c.methods.values():
                    self.fn_by_qual[fn.qual] = fn

    def scan_nodes(self, nodes, mod: Mod, cls):
        sites, callees = [], set()
        for root in nodes:
            for n in ast.walk(root):
                if not isinstance(n, ast.Call):
                    continue
                f = n.func
                d = self.interp.dotted(f)
                leaf = f.attr if isinstance(f, ast.Attribute) else (f.id if isinstance(f, ast.Name) else None)
                # write operations
                if leaf == "open":
                    if isinstance(f, ast.Name) or d in ("io.open", "builtins.open"):
                        mode_n = n.args[1] if len(n.args) > 1 else next((k.value for k in n.keywords if k.arg == "mode"), None)
                        src = ast.unparse(n.args[0]) if n.args else "?"
                    else:
                        mode_n = n.args[0] if n.args else next((k.value for k in n.keywords if k.arg == "mode"), None)
                        src = ast.unparse(f.value)
                    mode = "r" if mode_n is None else (mode_n.value if isinstance(mode_n, ast.Constant) and isinstance(mode_n.value, str) else "w?")
                    if any(ch in mode for ch in "wax+?"):
                        sites.append(src)
                elif isinstance(f, ast.Attribute) and leaf in WRITE_METHODS:
                    base = f.value
                    if not (isinstance(base, ast.Name) and self.ix.lookup_in_module(mod, base.id) and self.ix.lookup_in_module(mod, base.id)[0] == "mod"):
                        sites.append(ast.unparse(base))
                if d is not None:
                    root_name = d.split(".")[0]
                    r = self.ix.lookup_in_module(mod, root_name)
                    if r is not None and r[0] == "ext":
                        full = r[1] + d[len(root_name):]
                        if full in WRITE_FUNCS:
                            sites.append(ast.unparse(n.args[0]) if n.args else "?")
                # callees
                if isinstance(f, ast.Name):
                    r = self.ix.lookup_in_module(mod, f.id)
                    if r and r[0] == "fn":
                        callees.add(r[1])
                    elif r and r[0] == "cls":
                        init = self.ix.method_lookup(r[1], "__init__")
                        if init:
                            callees.add(init)
                elif isinstance(f, ast.Attribute):
                    base = f.value
                    done = False
                    if isinstance(base, ast.Name):
                        r = self.ix.lookup_in_module(mod, base.id)
                        if r and r[0] == "mod":
                            q = self.ix.lookup_in_module(r[1], f.attr)
                            if q and q[0] == "fn":
                                callees.add(q[1])
                            elif q and q[0] == "cls":
                                init = self.ix.method_lookup(q[1], "__init__")
                                if init:
                                    callees.add(init)
                            done = True
                        elif r and r[0] == "ext":
                            done = True
                    if not done and not f.attr.startswith("__"):
                        for fn in self.ix.methods_by_name.get(f.attr, []):
                            callees.add(fn)
        return sites, callees

    def info(self, fn: Fn):
        if fn.qual not in self.direct:
            s, c = self.scan_nodes(fn.node.body, fn.mod, fn.cls)
            self.direct[fn.qual], self.callees[fn.qual] = s, c
        return self.direct[fn.qual], self.callees[fn.qual]

    def reachable_sites(self, nodes, mod: Mod, stop=()):
        """write sites reachable from the given statement nodes (of module `mod`)."""
        sites0, todo = self.scan_nodes(nodes, mod, None)
        out = [(f"{mod.short}.<driver>", s) for s in sites0]
        seen = set()
        todo = list(todo)
        while todo:
            fn = todo.pop()
            if fn.qual in seen or fn.node.name in stop:
                continue
            seen.add(fn.qual)
            s, c = self.info(fn)
            out += [(fn.qual, x) for x in s]
            todo += list(c)
        return out


# ----------------------------------------------------------------------------
# stage extraction


def names_loaded(node):
    return {n.id for n in ast.walk(node) if isinstance(n, ast.Name) and isinstance(n.ctx, ast.Load)}


def principal_call(node):
    """outermost call of a statement's value (first call in pre-order)."""
    if isinstance(node, ast.Call):
        return node
    for ch in ast.iter_child_nodes(node):
        c = principal_call(ch)
        if c is not None:
            return c
    return None


class Extractor:
    def __init__(self, index: Index, interp: Interp, reach: Reach):
        self.ix, self.it, self.reach = index, interp, reach
        self.main = index.mods["pdb2pqr.main"]
        self.stages = []
        self.tests = []

    def callee_name(self, call):
        d = self.it.dotted(call.func)
        if d is None:
            return "call", None
        parts = d.split(".")
        if parts[0] in LOGGER_NAMES:
            return "log", d
        return parts[-1], d

    def kind_of_call(self, name, dotted):
        if name == "log":
            return LOG
        return KIND_TABLE.get(name, COMPUTE)

    def later_uses_kind(self, fn_node, st, targets):
        """If every later use (by line) of the assigned names is a direct argument of a
        Rename / Render call, return that kind; else None."""
        kinds = set()
        found = False
        end = st.end_lineno
        parent_call = {}
        for n in ast.walk(fn_node):
            if isinstance(n, ast.Call):
                for a in list(n.args) + [k.value for k in n.keywords]:
                    if isinstance(a, ast.Name):
                        parent_call[id(a)] = n
        redefined_at = {}
        for n in ast.walk(fn_node):
            if isinstance(n, ast.Name) and isinstance(n.ctx, ast.Store) and n.id in targets and n.lineno > end:
                redefined_at[n.id] = min(redefined_at.get(n.id, 10**9), n.lineno)
        for n in ast.walk(fn_node):
            if isinstance(n, ast.Name) and isinstance(n.ctx, ast.Load) and n.id in targets and n.lineno > end:
                found = True
                c = parent_call.get(id(n))
                if c is None:
                    return None
                nm, d = self.callee_name(c)
                k = self.kind_of_call(nm, d)
                if k not in (RENAME, RENDER):
                    return None
                kinds.add(k)
        if not found or len(kinds) != 1:
            return None
        return kinds.pop()

    def handler_info(self, h: ast.ExceptHandler):
        if h.type is None:
            catches = ["BaseException"]
        elif isinstance(h.type, ast.Tuple):
            catches = [self.it.dotted(e) or "?" for e in h.type.elts]
        else:
            catches = [self.it.dotted(h.type) or "?"]
        last = h.body[-1] if h.body else None
        if isinstance(last, ast.Raise):
            new = None
            if last.exc is not None:
                e = last.exc.func if isinstance(last.exc, ast.Call) else last.exc
                new = self.it.dotted(e)
            return {"catches": catches, "action": "reraise", "as": new}
        return {"catches": catches, "action": "swallow", "as": None}

    def add_stage(self, fn: Fn, st, name, callee, kind, env, ctrl, conds, handlers, nodes, evaluate, line=None, end_line=None):
        acc = Acc(self.it.universe, ctrl)
        ctx = {"mod": fn.mod, "cls": None, "qual": f"{fn.mod.short}.{fn.node.name}", "ret": []}
        result = evaluate(acc, ctx)
        # file write sites: tracked by the taint pass + reachable ones it did not visit
        tracked = {(q, src): opts for (q, src, opts) in acc.sites}
        sites = [{"site": q, "path": src, "opts": sorted(opts)} for (q, src), opts in tracked.items()]
        for q, src in self.reach.reachable_sites(nodes, fn.mod, stop=INLINE):
            if (q, src) not in tracked and not any(s["site"] == q and s["path"] == src for s in sites):
                # driver-level sites are evaluated by the taint pass under the qual of the driver function
                if q.endswith("<driver>") and any(s["path"] == src for s in sites):
                    continue
                sites.append({"site": q, "path": src, "opts": None})
        swallow = any(h["action"] == "swallow" for h in handlers)
        stage = {
            "idx": len(self.stages),
            "func": fn.node.name,
            "line": line or st.lineno,
            "end_line": end_line or st.end_lineno,
            "name": name,
            "callee": callee,
            "kind": kind,
            "cond": list(conds),
            "ctrl": sorted(ctrl),
            "reads": sorted(acc.reads | (set(ctrl) if kind != LOG or True else set())),
            "syn_reads": sorted(acc.syn),
            "writes": sorted((k, sorted(v)) for k, v in acc.writes.items()),
            "file_writes": sorted(sites, key=lambda s: (s["site"], s["path"])),
            "writes_output": any(s["opts"] is not None and "output_pqr" in s["opts"] for s in sites),
            "handlers": list(handlers),
            "swallow": swallow,
        }
        self.stages.append(stage)
        return result

    def walk(self, fn: Fn, stmts, env, ctrl, conds, handlers):
        """driver-level statements -> stages.  `env` is the flow-sensitive map of driver locals."""
        it = self.it
        for st in stmts:
            if isinstance(st, ast.Expr) and isinstance(st.value, ast.Constant):
                continue  # docstring
            if isinstance(st, (ast.Expr, ast.Assign, ast.AugAssign, ast.Return)):
                value = st.value
                if value is None:  # bare return
                    self.add_stage(fn, st, "return", None, CTL, env, ctrl, conds, handlers, [st], lambda acc, ctx: None)
                    continue
                call = principal_call(value)
                targets = []
                if isinstance(st, ast.Assign):
                    for t in st.targets:
                        targets += [n.id for n in ast.walk(t) if isinstance(n, ast.Name)]
                        if any(isinstance(n, ast.Attribute) for n in ast.walk(t)):
                            # attribute store at driver level (args.x = .. or obj.x = ..)
                            targets.append("<attr>")
                elif isinstance(st, ast.AugAssign):
                    targets = [n.id for n in ast.walk(st.target) if isinstance(n, ast.Name)]
                # inlined driver function
                if call is not None and isinstance(call.func, ast.Name) and call.func.id in INLINE and call is value:
                    callee = self.main.funcs.get(call.func.id)
                    if callee is None:
                        raise GenError(f"{call.func.id} not found in main.py")
                    acc = Acc(it.universe, ctrl)
                    ctx = {"mod": fn.mod, "cls": None, "qual": fn.qual, "ret": []}
                    sub_env = {}
                    params = [p.arg for p in callee.node.args.args]
                    for p, a in zip(params, call.args):
                        sub_env[p] = it.eval(a, env, acc, ctx)
                    for kw in call.keywords:
                        if kw.arg is None:
                            raise GenError(f"**kwargs in call of {call.func.id}")
                        sub_env[kw.arg] = it.eval(kw.value, env, acc, ctx)
                    if acc.reads or acc.syn:
                        raise GenError(f"option expression in the argument list of inlined {call.func.id} (line {st.lineno})")
                    missing = [p for p in params if p not in sub_env]
                    if missing:
                        raise GenError(f"inlined {call.func.id}: unbound parameters {missing}")
                    self.walk(callee, callee.node.body, sub_env, ctrl, conds, handlers)
                    for t in targets:
                        env[t] = NOVAL
                    continue
                if isinstance(st, ast.Return):
                    name, callee_txt, kind = "return", None, CTL
                elif call is not None:
                    name, callee_txt = self.callee_name(call)
                    kind = self.kind_of_call(name, callee_txt)
                else:
                    name, callee_txt, kind = "assign_" + "_".join(targets or ["expr"]), None, COMPUTE
                # assignments whose results only feed Rename / Render calls
                if isinstance(st, ast.Assign) and kind == COMPUTE and targets and "<attr>" not in targets:
                    pure = call is None
                    if call is not None and call is value:
                        r = it.resolve_call(call.func, dict(env), Acc(it.universe), {"mod": fn.mod, "cls": None, "qual": fn.qual, "ret": []})
                        pure = r[0] == "ctor"  # constructor of a pdb2pqr class: builds a new object
                    if pure:
                        k2 = self.later_uses_kind(fn.node, st, set(targets))
                        if k2 is not None:
                            kind = k2

                def evaluate(acc, ctx, st=st, value=value, targets=targets, call=call):
                    if isinstance(st, ast.Expr):
                        acc.effect()
                        it.eval(value, env, acc, ctx)
                        return None
                    if isinstance(st, ast.Return):
                        v = it.eval(value, env, acc, ctx)
                        acc.use(v.taint)
                        return None
                    v = it.eval(value, env, acc, ctx)
                    if "<attr>" in targets:
                        for t in st.targets if isinstance(st, ast.Assign) else [st.target]:
                            it.bind_target(t, v, env, acc, ctx)
                        return None
                    internal = call is not None and it.resolve_call(call.func, dict(env), Acc(it.universe), ctx)[0] in ("fns", "ctor")
                    if internal:
                        # result of a pdb2pqr call = program state (the producing stage carries the reads)
                        acc.use(v.taint)
                        res = Val(is_args=v.is_args, cls=v.cls)
                    else:
                        res = v.with_taint(acc.ctrl_taint())
                    if isinstance(st, ast.AugAssign):
                        old = env.get(st.target.id, NOVAL) if isinstance(st.target, ast.Name) else NOVAL
                        res = Val(taint=res.taint | old.taint)
                    for t in st.targets if isinstance(st, ast.Assign) else [st.target]:
                        if isinstance(t, ast.Name):
                            env[t.id] = res
                        else:
                            for n in ast.walk(t):
                                if isinstance(n, ast.Name):
                                    env[n.id] = Val(taint=res.taint, is_args=False)
                    return None

                self.add_stage(fn, st, name, callee_txt, kind, env, ctrl, conds, handlers, [st], evaluate)
                continue
            if isinstance(st, ast.If):
                acc = Acc(it.universe)
                acc.quiet += 1
                ctx = {"mod": fn.mod, "cls": None, "qual": fn.qual, "ret": []}
                call = principal_call(st.test)
                only_raise = len(st.body) == 1 and isinstance(st.body[0], ast.Raise) and not st.orelse
                if call is not None and not self.is_option_only_call(call, env, fn):
                    # the test itself is a stage (it can fail and it reads state)
                    name, callee_txt = self.callee_name(call)

                    def ev(acc2, ctx2, test=st.test):
                        acc2.effect()
                        v = it.eval(test, env, acc2, ctx2)
                        return v

                    self.add_stage(fn, st, name, callee_txt, self.kind_of_call(name, callee_txt), env, ctrl, conds, handlers, [st.test], ev,
                                   line=st.test.lineno, end_line=st.test.end_lineno)
                    test_taint = frozenset()
                    tv = it.eval(st.test, dict(env), acc, ctx)
                    test_taint = tv.taint
                else:
                    tv = it.eval(st.test, env, acc, ctx)
                    test_taint = tv.taint
                    self.tests.append({"func": fn.node.name, "line": st.test.lineno, "end_line": st.test.end_lineno, "syn_reads": sorted(acc.syn), "text": ast.unparse(st.test)})
                    if tv.const is not UNKNOWN:
                        raise GenError(f"constant driver-level test at line {st.lineno}")
                c2 = frozenset(ctrl) | test_taint
                txt = ast.unparse(st.test)
                if only_raise:
                    tn = sorted(names_loaded(st.test) - {"args"})
                    nm = "raise_if_" + "_".join(tn) if tn else "raise_if"

                    def ev_raise(acc2, ctx2, r=st.body[0]):
                        acc2.effect()
                        acc2.use(it._union([r.exc, r.cause], env, acc2, ctx2))

                    self.add_stage(fn, st, nm, None, COMPUTE, env, c2, conds + [txt], handlers, [st.body[0]], ev_raise)
                    continue
                e1, e2 = dict(env), dict(env)
                self.walk(fn, st.body, e1, c2, conds + [txt], handlers)
                self.walk(fn, st.orelse, e2, c2, conds + [f"not ({txt})"], handlers)
                for k in set(e1) | set(e2):
                    if k in e1 and k in e2:
                        env[k] = join(e1[k], e2[k])
                    else:
                        v = e1.get(k) or e2.get(k)
                        env[k] = Val(taint=v.taint, is_args=v.is_args, cls=v.cls)
                continue
            if isinstance(st, ast.Try):
                if st.finalbody or st.orelse:
                    raise GenError(f"try/finally or try/else at driver level (line {st.lineno}) is not modelled")
                hs = [self.handler_info(h) for h in st.handlers]
                for h in st.handlers:
                    for hst in h.body:
                        ok = isinstance(hst, (ast.Raise, ast.Pass)) or (isinstance(hst, ast.Assign) and all(isinstance(t, ast.Name) for t in hst.targets)) or (
                            isinstance(hst, ast.Expr) and isinstance(hst.value, ast.Call) and self.callee_name(hst.value)[0] == "log")
                        if not ok and not any(x["action"] == "swallow" for x in hs):
                            raise GenError(f"handler at line {h.lineno} does more than log and re-raise")
                self.walk(fn, st.body, env, ctrl, conds, hs + list(handlers))
                continue
            if isinstance(st, ast.For):
                first_assigned = None
                for n in ast.walk(st):
                    if isinstance(n, ast.Assign) and isinstance(n.targets[0], ast.Name):
                        first_assigned = n.targets[0].id
                        break
                tgt = "_".join(n.id for n in ast.walk(st.target) if isinstance(n, ast.Name))
                name = f"loop_{tgt}" + (f"_{first_assigned}" if first_assigned else "")
                inner_swallow = []
                for n in ast.walk(st):
                    if isinstance(n, ast.Try):
                        hs = [self.handler_info(h) for h in n.handlers]
                        if any(h["action"] == "swallow" for h in hs):
                            # swallowing inside a loop group matters only if the try body calls pdb2pqr code
                            _, callees = self.reach.scan_nodes(n.body, fn.mod, None)
                            if callees:
                                inner_swallow += [h for h in hs if h["action"] == "swallow"]

                def ev_loop(acc2, ctx2, st=st):
                    acc2.effect()
                    e = dict(env)
                    it.exec_stmt(st, e, acc2, dict(ctx2, ret=[]))
                    for k, v in e.items():
                        if k not in env or env[k] is not v:
                            env[k] = Val(taint=v.taint, is_args=v.is_args, cls=v.cls)

                self.add_stage(fn, st, name, None, COMPUTE, env, ctrl, conds, inner_swallow + list(handlers), [st], ev_loop)
                continue
            if isinstance(st, ast.Raise):
                def ev_r(acc2, ctx2, r=st):
                    acc2.effect()
                    acc2.use(it._union([r.exc, r.cause], env, acc2, ctx2))
                self.add_stage(fn, st, "raise", None, COMPUTE, env, ctrl, conds, handlers, [st], ev_r)
                continue
            if isinstance(st, ast.Pass):
                continue
            raise GenError(f"unsupported driver-level statement {type(st).__name__} at main.py:{st.lineno}")

    def is_option_only_call(self, call, env, fn):
        """calls like args.ff.lower() inside a pure option test do not make the test a stage."""
        for c in [n for n in ast.walk(call) if isinstance(n, ast.Call)]:
            f = c.func
            if not isinstance(f, ast.Attribute):
                return False
            root = f.value
            while isinstance(root, ast.Attribute):
                root = root.value
            if not (isinstance(root, ast.Name) and env.get(root.id, NOVAL).is_args):
                return False
        return True


# ----------------------------------------------------------------------------
# top level


def analyse(repo: Path | str | None = None) -> dict:
    repo = Path(repo or os.environ.get("VERIF_REPO", "/repo"))
    ix = Index(repo)
    main = ix.mods["pdb2pqr.main"]
    for need in (DRIVER, "build_main_parser", *INLINE):
        if need not in main.funcs:
            raise GenError(f"main.py: function {need} not found")
    own = parser_dests(main.funcs["build_main_parser"].node)
    pk_dests, pk_attrs = propka_info()
    universe = sorted(set(own) | set(pk_dests))
    external_reads = sorted(set(universe) & pk_attrs)
    interp = Interp(ix, universe, external_reads)
    reach = Reach(ix, interp)
    ex = Extractor(ix, interp, reach)
    drv = main.funcs[DRIVER]
    params = [p.arg for p in drv.node.args.args]
    if params != ["args"]:
        raise GenError(f"{DRIVER} signature changed: {params}")
    ex.walk(drv, drv.node.body, {"args": Val(is_args=True)}, frozenset(), [], [])
    stages = ex.stages
    if not stages:
        raise GenError("no stages extracted")
    names = [s["name"] for s in stages]
    for need in ("print_pqr",):
        if need not in names:
            raise GenError(f"stage {need} not found in {DRIVER}")
    return {
        "repo": str(repo),
        "universe": universe,
        "own_options": own,
        "external_reads": external_reads,
        "stages": stages,
        "tests": ex.tests,
    }


def cs(s: str) -> str:
    if '"' in s or any(ord(c) < 32 or ord(c) > 126 for c in s):
        raise GenError(f"name not representable as a Coq string: {s!r}")
    return f'"{s}"'


def cl(items) -> str:
    return "[" + "; ".join(items) + "]"


def to_coq(info: dict) -> str:
    out = [
        "(* GENERATED by /verif/gen/stages.py from pdb2pqr/main.py - do not edit. *)",
        "From Coq Require Import String List Bool.",
        "From PV Require Import Model.Pipeline.",
        "Import ListNotations.",
        "Local Open Scope string_scope.",
        "",
        f"Definition universe : list string := {cl(cs(o) for o in info['universe'])}.",
        "",
        "Definition stages : list sdesc := [",
    ]
    rows = []
    for s in info["stages"]:
        writes = cl(f"({cs(w)}, {cl(cs(d) for d in deps)})" for w, deps in s["writes"])
        fws = cl(f"({cs(f['site'])}, {cl(cs(o) for o in (f['opts'] if f['opts'] is not None else ['?']))})" for f in s["file_writes"])
        rows.append(
            f"  (* {s['idx']:2d} {s['func']}:{s['line']} *) mk_sdesc {cs(s['name'])} {cs(s['func'])} {s['kind']} "
            f"{cl(cs(r) for r in s['reads'])} {writes} {fws} {str(s['writes_output']).lower()} {str(s['swallow']).lower()}"
        )
    out.append(";\n".join(rows))
    out.append("].")
    out.append("")
    return "\n".join(out)


def generate(repo=None):
    """-> (info dict, Coq text).  Raises GenError."""
    info = analyse(repo)
    return info, to_coq(info)


def main(argv):
    try:
        info, text = generate()
    except GenError as e:
        print(f"gen/stages.py: FAILED (fail-closed): {e}", file=sys.stderr)
        return 2
    if "--json" in argv:
        print(json.dumps(info, indent=1))
        return 0
    sys.path.insert(0, str(VERIF))
    from harness import core

    changed = core.write_if_changed(core.GEN / "Stages.v", text)
    print(f"Stages.v: {len(info['stages'])} stages, {'written' if changed else 'unchanged'}")
    return 0


if __name__ == "__main__":
    sys.exit(main(sys.argv[1:]))
