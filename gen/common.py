"""Shared helpers of the table generators: repo paths, name interning, Coq emit.

Generators are fail-closed: anything unexpected raises GenError, which the
checks report as a broken proof obligation (generator-broken)."""

from __future__ import annotations

import json
import os
import sys
from decimal import Decimal
from pathlib import Path

VERIF = Path(__file__).resolve().parent.parent
REPO = Path(os.environ.get("VERIF_REPO", "/repo"))
DAT = REPO / "pdb2pqr" / "dat"
GEN = VERIF / "coq" / "Generated"
SCALE = 8  # decimals kept for charges and radii
FFS = ["AMBER", "CHARMM", "PARSE", "PEOEPB", "SWANSON", "TYL06"]

if str(REPO) not in sys.path:
    sys.path.insert(0, str(REPO))


class GenError(Exception):
    pass


def write_if_changed(path: Path, text: str) -> bool:
    path.parent.mkdir(parents=True, exist_ok=True)
    if path.exists() and path.read_text() == text:
        return False
    tmp = path.with_name(f".{path.name}.{os.getpid()}.tmp")  # atomic: concurrent checks share coq/Generated
    tmp.write_text(text)
    os.replace(tmp, path)
    return True


def dec_scaled(text: str) -> int:
    """Exact decimal text -> integer * 10^-SCALE (fails if not representable)."""
    try:
        d = Decimal(text)
    except Exception as e:
        raise GenError(f"not a decimal: {text!r}") from e
    if not d.is_finite():
        raise GenError(f"non-finite value {text!r}")
    s = d.scaleb(SCALE)
    if s != s.to_integral_value():
        raise GenError(f"value {text!r} needs more than {SCALE} decimals")
    return int(s)


def float_scaled(f: float) -> int:
    """A python float that was parsed from a short decimal -> the same scaled int."""
    return dec_scaled(repr(float(f)))


class Interner:
    """name -> positive id, stable for a given set of names (sorted)."""

    def __init__(self):
        self.names: set[str] = set()
        self.ids: dict[str, int] | None = None

    def add(self, name: str):
        if self.ids is not None and name not in self.ids:
            raise GenError(f"name {name!r} interned after freeze")
        self.names.add(name)

    def freeze(self):
        self.ids = {n: i + 1 for i, n in enumerate(sorted(self.names))}

    def __call__(self, name: str) -> int:
        return self.ids[name]


def coq_list(items, per_line=8):
    items = list(items)
    if not items:
        return "[]"
    out = []
    for i in range(0, len(items), per_line):
        out.append("; ".join(items[i : i + per_line]))
    return "[" + ";\n ".join(out) + "]"


def Z(n: int) -> str:
    return f"({n})%Z" if n < 0 else f"{n}%Z"


def P(n: int) -> str:
    return f"{n}%positive"


def load_definition():
    from pdb2pqr import io as pio

    return pio.get_definitions()


def save_json(name: str, obj):
    GEN.mkdir(parents=True, exist_ok=True)
    write_if_changed(GEN / name, json.dumps(obj, indent=0, sort_keys=True))
