"""Titration tables for the Coq model Model/Titration.v (C06).

Writes Generated/Titration.v with
  name_ids      state name (string) -> interned id, for every name the naming
                function can produce: {"", N, C, NEUTRAL-N, NEUTRAL-C} x (20
                residue names + ASH GLH HID HIE HIP CYM TYM LYN AR0). Each must
                be a template of Definition.map (fail closed otherwise); the
                template ATOMS are taken in Coq from Generated/Topology.v.
  placeholders  ids of the link placeholders N+1 / C-1 (template entries that are
                never atoms of a residue)
  never_final   per state name, template atoms that are never left in the finished
                residue: the alternative carboxyl hydrogen of ASH (HD1) and GLH
                (HE1) - hydrogens.structures.Carboxylic.rename keeps/renames to
                the *2 hydrogen ("PATCHES.xml expects *2")
  formal_tbl    formal charge of every state name, from an independent chemistry
                table written here (NOT derived from the force fields)
  setstate_tbl  what the REAL aa.py classes name a residue: for every residue
                type x position (N, middle, C, single-residue) x subset of
                {NEUTRAL-NTERM, NEUTRAL-CTERM, the type's own titration patch},
                the ffname produced by calling set_state() on a residue object
                of a builder peptide whose patch list was extended accordingly
  patch_tbl     for the nine titration patches: PATCHES.xml name exists and what
                it adds/removes (ids), so a patch that does not exist breaks here

Fail-closed: any surprise raises GenError.
"""

from __future__ import annotations

import copy
import sys

from common import FFS, GEN, VERIF, GenError, P, Z, coq_list, write_if_changed

RTYPES = "ALA ARG ASN ASP CYS GLN GLU GLY HIS ILE LEU LYS MET PHE PRO SER THR TRP TYR VAL".split()
STATE_BASES = [r for r in RTYPES if r != "HIS"] + "ASH GLH HID HIE HIP CYM TYM LYN AR0".split()
PREFIXES = ["", "N", "C", "NEUTRAL-N", "NEUTRAL-C"]
PATCHES = ["ASH", "GLH", "HIP", "CYM", "TYM", "LYN", "AR0", "NEUTRAL-NTERM", "NEUTRAL-CTERM"]
OWN_PATCH = {"ASP": "ASH", "GLU": "GLH", "HIS": "HIP", "CYS": "CYM", "TYR": "TYM", "LYS": "LYN", "ARG": "AR0"}
PATCH_APPLIES = {"ASH": "ASP", "GLH": "GLU", "HIP": "HIS", "CYM": "CYS", "TYM": "TYR", "LYN": "LYS", "AR0": "ARG"}
POSITIONS = ["PosN", "PosMid", "PosC", "PosNC"]

# ---- independent chemistry table (textbook formal charges at the given protonation state)
SIDE_CHARGE = {
    "ASP": -1, "ASH": 0,      # aspartate / aspartic acid
    "GLU": -1, "GLH": 0,      # glutamate / glutamic acid
    "HID": 0, "HIE": 0, "HIP": 1,  # neutral tautomers / imidazolium
    "CYS": 0, "CYM": -1,      # thiol / thiolate
    "TYR": 0, "TYM": -1,      # phenol / phenolate
    "LYS": 1, "LYN": 0,       # ammonium / amine
    "ARG": 1, "AR0": 0,       # guanidinium / guanidine
}
TERM_CHARGE = {"": 0, "N": 1, "NEUTRAL-N": 0, "C": -1, "NEUTRAL-C": 0}
NEVER_FINAL = {"ASH": ["HD1"], "GLH": ["HE1"]}


def state_names():
    return [(p, b, p + b) for p in PREFIXES for b in STATE_BASES]


def collect(intern, definition):
    for _, _, n in state_names():
        if n not in definition.map:
            raise GenError(f"titration: state name {n!r} is not a template of Definition.map")
        intern.add(n)
    for a in ("N+1", "C-1", "HD1", "HE1"):
        intern.add(a)
    for p in PATCHES:
        if p not in definition.patches:
            raise GenError(f"titration: patch {p!r} not in Definition.patches (PATCHES.xml)")
        intern.add(p)
        for a in definition.patches[p].map:
            intern.add(a)
        for a in definition.patches[p].remove:
            intern.add(a)


def real_set_state_table(definition):
    """ffname from the real aa.py set_state for every (rtype, position, patch subset)."""
    if str(VERIF) not in sys.path:
        sys.path.insert(0, str(VERIF))
    try:
        from harness import builder as B
    except Exception as e:  # pragma: no cover
        raise GenError(f"titration: structure builder not importable: {e}") from e
    rows = []
    for rt in RTYPES:
        residues = []
        for seq in ([rt, rt, rt], [rt]):
            s = B.setup_biomolecule(B.to_pdb(B.build_peptide(seq)))
            bio = s["biomolecule"]
            if s["missing"] != 0 or len(bio.residues) != len(seq):
                raise GenError(f"titration: builder peptide {seq} not clean for pdb2pqr")
            bio.add_hydrogens()
            residues.extend(bio.residues)
        flags = [(bool(r.is_n_term), bool(r.is_c_term)) for r in residues]
        if flags != [(True, False), (False, False), (False, True), (True, True)]:
            raise GenError(f"titration: unexpected terminus flags {flags} for {rt}")
        opts = ["NEUTRAL-NTERM", "NEUTRAL-CTERM"] + ([OWN_PATCH[rt]] if rt in OWN_PATCH else [])
        for pos, res in zip(POSITIONS, residues):
            if res.name != rt:
                raise GenError(f"titration: residue name {res.name} != {rt}")
            for mask in range(1 << len(opts)):
                ps = [o for k, o in enumerate(opts) if mask >> k & 1]
                rr = copy.deepcopy(res)
                rr.patches = list(res.patches) + ps
                rr.ffname = rr.name
                try:
                    rr.set_state()
                except Exception as e:
                    raise GenError(f"titration: set_state raised {type(e).__name__} for {rt} {pos} {ps}") from e
                rows.append((rt, pos, ps, rr.ffname))
    return rows


def emit(intern, definition):
    I = intern
    names = state_names()
    name_ids = coq_list((f'("{n}", {P(I(n))})' for _, _, n in names), 6)
    never = []
    formal = []
    for p, b, n in names:
        if b in NEVER_FINAL:
            for a in NEVER_FINAL[b]:
                if a not in definition.map[n].map:
                    raise GenError(f"titration: {n} template has no {a}")
            never.append(f"({P(I(n))}, {coq_list((P(I(a)) for a in NEVER_FINAL[b]), 8)})")
        formal.append(f"({P(I(n))}, {Z(TERM_CHARGE[p] + SIDE_CHARGE.get(b, 0))})")
    patch_rows = []
    for p in PATCHES:
        pt = definition.patches[p]
        if p in PATCH_APPLIES and pt.applyto != PATCH_APPLIES[p]:
            raise GenError(f"titration: patch {p} applies to {pt.applyto!r}, expected {PATCH_APPLIES[p]!r}")
        patch_rows.append(
            f'("{p}", {P(I(p))}, {coq_list((P(I(a)) for a in pt.map), 8)}, {coq_list((P(I(a)) for a in pt.remove), 8)})'
        )
    ss = real_set_state_table(definition)
    ss_rows = []
    for rt, pos, ps, ffname in ss:
        if ffname not in I.ids:
            raise GenError(f"titration: set_state produced a name outside the tables: {ffname!r}")
        pl = coq_list(("P_" + x.replace("-", "_") for x in ps), 8)
        ss_rows.append(f'({rt}, {pos}, {pl}, "{ffname}")')
    txt = f"""(* GENERATED by /verif/gen/titration.py from pdb2pqr.io.get_definitions(), the real
   aa.py set_state (run on builder peptides) and an independent formal-charge table - do not edit *)
From Coq Require Import String List ZArith PArith.
From PV Require Import Model.ForceField Model.Titration.
Import ListNotations.
Local Open Scope string_scope.

(* every state name the naming function can produce -> id of names.json *)
Definition name_ids : list (string * id) :=
 {name_ids}.

(* link placeholders of the terminal/peptide templates: never atoms *)
Definition placeholders : list id := [{P(I("N+1"))}; {P(I("C-1"))}].

(* template atoms never left in the finished residue (Carboxylic.rename keeps the *2 hydrogen) *)
Definition never_final : list (id * list id) :=
 {coq_list(never, 3)}.

(* independent chemistry table: formal charge of each state *)
Definition formal_tbl : list (id * Z) :=
 {coq_list(formal, 6)}.

(* the nine titration patches as PATCHES.xml defines them: name, id, atoms added, atoms removed *)
Definition patch_tbl : list (string * id * list id * list id) :=
 {coq_list(patch_rows, 1)}.

(* ffname given by the real set_state() of aa.py: residue type, position, extra patches, name *)
Definition setstate_tbl : list (rtype * position * list patchname * string) :=
 {coq_list(ss_rows, 2)}.
"""
    write_if_changed(GEN / "Titration.v", txt)
    for ff in FFS:
        write_if_changed(GEN / f"Titration_{ff}.v", per_ff_text(ff))


def per_ff_text(ff):
    """Support and charge-sum tables of one force field, COMPUTED IN COQ from the
    model-built map FF_<ff>.built (equal to pdb2pqr's loaded map by FF_<ff>.table_eq)
    and the topology templates; python contributes nothing but the file skeleton."""
    return f"""(* GENERATED by /verif/gen/titration.py - do not edit.
   Per-state tables of force field {ff}, evaluated by vm_compute from FF_{ff}.built,
   Generated/Topology.v and Generated/Titration.v; each table comes with the theorem
   that it IS the tabulated model function. *)
From Coq Require Import String List ZArith PArith.
From PV Require Import Model.ForceField Model.Topology Model.Titration.
From PV Require Generated.Topology Generated.Titration Generated.FF_{ff}.
Import ListNotations.

(* atoms of a state the force field cannot parameterise (None: unknown state) *)
Definition lost_fn : string -> option (list id) :=
  lost Generated.Titration.name_ids Generated.Topology.templates Generated.Titration.placeholders
       Generated.Titration.never_final FF_{ff}.built.

Definition lost_tbl : list (string * option (list id)) :=
  Eval vm_compute in tabulate Generated.Titration.name_ids lost_fn.

Theorem lost_tbl_eq : tabulate Generated.Titration.name_ids lost_fn = lost_tbl.
Proof. vm_compute. reflexivity. Qed.

(* sum of the force field's charges (x 10^8) over the final atoms of a state *)
Definition qsum_fn : string -> option Z :=
  ff_charge_sum Generated.Titration.name_ids Generated.Topology.templates Generated.Titration.placeholders
       Generated.Titration.never_final FF_{ff}.built.

Definition qsum_tbl : list (string * option Z) :=
  Eval vm_compute in tabulate Generated.Titration.name_ids qsum_fn.

Theorem qsum_tbl_eq : tabulate Generated.Titration.name_ids qsum_fn = qsum_tbl.
Proof. vm_compute. reflexivity. Qed.
"""
