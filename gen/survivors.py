#!/usr/bin/env python
"""C11 generator: AST scan of pdb2pqr/** for state that can outlive a run.

Emits /verif/coq/Generated/Survivors.v (tables `survivors`, `entropy_sites`) and
returns the same data as a dict for the harness/evidence.  Fail-closed: a
construct the scan cannot interpret raises GenError (reported by the check as a
broken obligation).  Repo path: env VERIF_REPO (default /repo).

What is listed (see DESIGN 4 C11 and notes/C11.md):
  survivors      module-level containers / instances / loggers, re-bound module
                 globals, class-level attributes, mutable default arguments,
                 cache decorators, logger filter/handler registrations,
                 process-global writes (os.environ, sys.*, random.seed ...)
  entropy sites  iteration over set-typed expressions (and set.pop, repr of a
                 set), random/time/pid/id()/hash()/directory order/env reads
For each survivor: every site that writes it at run time (inside a function
body that is not import-time-only), through the name, a module alias, the class
name, a local alias, an attribute it was stored in, or a callee that mutates
the parameter it is passed as.
"""

from __future__ import annotations

import ast
import json
import os
import sys
from pathlib import Path

HERE = Path(__file__).resolve().parent
REVIEWED = HERE / "survivors_reviewed.json"
INF = 99


class GenError(Exception):
    pass


# ---------------------------------------------------------------------------
# vocabulary

MUTABLE_CTORS = {
    "builtins.list", "builtins.dict", "builtins.set", "builtins.bytearray",
    "collections.OrderedDict", "collections.defaultdict", "collections.Counter",
    "collections.deque", "collections.ChainMap", "array.array",
    "numpy.array", "numpy.zeros", "numpy.ones", "numpy.empty",
}
ITERATOR_CTORS = {
    "builtins.iter", "builtins.zip", "builtins.map", "builtins.filter", "builtins.enumerate",
    "builtins.reversed", "builtins.open", "itertools.count", "itertools.cycle", "itertools.chain",
    "itertools.repeat", "itertools.islice", "itertools.product", "itertools.combinations",
    "itertools.permutations",
}
IMMUTABLE_CTORS = {
    "builtins.int", "builtins.float", "builtins.str", "builtins.bool", "builtins.tuple",
    "builtins.frozenset", "builtins.bytes", "builtins.len", "builtins.round", "builtins.abs",
    "builtins.min", "builtins.max", "builtins.sum", "builtins.range", "builtins.complex",
    "builtins.repr", "builtins.format", "builtins.ord", "builtins.chr", "builtins.divmod", "builtins.pow",
    "re.compile", "pathlib.Path", "pathlib.PurePath", "os.path.join", "os.path.dirname",
    "os.path.abspath", "collections.namedtuple", "typing.TypeVar", "typing.NewType",
    "fractions.Fraction", "decimal.Decimal",
}
MUTATORS = {
    "append", "extend", "insert", "remove", "pop", "clear", "sort", "reverse", "update",
    "setdefault", "popitem", "add", "discard", "difference_update", "intersection_update",
    "symmetric_difference_update", "appendleft", "popleft", "extendleft", "rotate", "subtract",
    "move_to_end", "__setitem__", "__delitem__", "__iadd__", "fill", "resize", "put", "itemset",
    "write", "writelines", "seek", "truncate", "close", "send", "throw", "__next__",
}
DESCENDERS = {"get", "values", "items", "pop", "setdefault", "popitem", "__getitem__", "most_common", "elements"}
SHALLOW_COPIERS = {"copy", "keys", "union", "intersection", "difference", "symmetric_difference"}
SHALLOW_COPY_FUNCS = {
    "builtins.list", "builtins.dict", "builtins.set", "builtins.tuple", "builtins.frozenset",
    "builtins.sorted", "builtins.reversed", "builtins.enumerate", "builtins.zip", "builtins.iter",
    "builtins.filter", "builtins.map", "copy.copy", "collections.OrderedDict", "itertools.chain",
    "itertools.combinations", "itertools.permutations", "itertools.product", "builtins.next",
    "builtins.min", "builtins.max",
}
# external callees that never mutate (or retain) an argument they are given
PURE_FUNCS = {
    "builtins.len", "builtins.str", "builtins.repr", "builtins.print", "builtins.isinstance",
    "builtins.issubclass", "builtins.sum", "builtins.any", "builtins.all", "builtins.abs",
    "builtins.float", "builtins.int", "builtins.bool", "builtins.round", "builtins.range",
    "builtins.format", "builtins.hash", "builtins.id", "builtins.type", "builtins.hasattr",
    "builtins.getattr", "builtins.callable", "builtins.ord", "builtins.chr", "builtins.divmod",
    "builtins.pow", "builtins.bytes", "builtins.frozenset", "builtins.complex", "builtins.vars", "builtins.dir",
    "copy.deepcopy", "json.dumps", "json.dump", "pprint.pformat",
} | SHALLOW_COPY_FUNCS
PURE_MODULE_PREFIXES = ("math.", "numpy.", "logging.", "re.", "os.path.", "pathlib.", "textwrap.", "string.", "operator.", "itertools.", "functools.", "argparse.", "io.", "propka.", "pandas.", "requests.", "pdbx.", "mmcif_pdbx.", "xml.", "docutils.", "datetime.", "collections.", "typing.", "warnings.", "sys.", "os.")
PURE_METHODS = {
    # methods of str / containers / loggers / files that do not mutate or retain an *argument*
    "join", "index", "count", "startswith", "endswith", "format", "split", "strip", "replace", "find",
    "get", "issubset", "issuperset", "isdisjoint", "union", "intersection", "difference",
    "symmetric_difference", "debug", "info", "warning", "error", "critical", "exception", "log",
    "write", "writelines", "__contains__", "most_common", "fromkeys", "encode", "decode", "ljust", "rjust",
    "center", "zfill", "partition", "rpartition", "rsplit", "lstrip", "rstrip", "upper", "lower",
}
# argument is stored (by reference) inside the receiver
STORING_METHODS = {"append", "extend", "insert", "add", "update", "setdefault", "appendleft", "extendleft", "__setitem__"}
LOGGER_READ_METHODS = {
    "debug", "info", "warning", "warn", "error", "critical", "exception", "log", "isEnabledFor",
    "getEffectiveLevel", "getChild", "hasHandlers", "fatal",
}
LOGGER_CONFIG_METHODS = {"addHandler", "addFilter", "removeHandler", "removeFilter", "setLevel"}
LOGGER_CONFIG_ATTRS = {"propagate", "disabled", "handlers", "filters", "level"}
CACHE_DECORATORS = {
    "functools.lru_cache", "functools.cache", "functools.cached_property", "functools.singledispatch",
    "cachetools.cached", "cachetools.cachedmethod", "joblib.Memory",
}
PROCESS_GLOBAL_CALLS = {
    "os.putenv": "os.environ", "os.unsetenv": "os.environ", "os.chdir": "os.cwd", "os.umask": "os.umask",
    "sys.setrecursionlimit": "sys.recursionlimit", "sys.setswitchinterval": "sys.switchinterval",
    "locale.setlocale": "locale", "warnings.filterwarnings": "warnings.filters",
    "warnings.simplefilter": "warnings.filters", "warnings.resetwarnings": "warnings.filters",
    "random.seed": "random.state", "random.setstate": "random.state", "numpy.random.seed": "numpy.random.state",
    "numpy.seterr": "numpy.errstate", "numpy.set_printoptions": "numpy.printoptions",
    "signal.signal": "signal.handlers", "atexit.register": "atexit", "socket.setdefaulttimeout": "socket.timeout",
    "logging.basicConfig": "logging.root", "logging.disable": "logging.root", "logging.captureWarnings": "logging.root",
    "logging.setLoggerClass": "logging.root", "logging.addLevelName": "logging.levels", "sys.setprofile": "sys.profile",
    "sys.settrace": "sys.trace", "gc.disable": "gc", "gc.enable": "gc", "gc.set_threshold": "gc",
    "decimal.setcontext": "decimal.context", "multiprocessing.set_start_method": "multiprocessing",
}
PROCESS_GLOBAL_OBJECTS = {
    "os.environ", "sys.path", "sys.argv", "sys.modules", "sys.stdout", "sys.stderr", "sys.stdin", "sys.meta_path",
    "sys.path_hooks", "sys.flags", "sys.displayhook", "sys.excepthook", "warnings.filters", "logging.root",
}
ENTROPY_CALLS = {
    "time.time": "E_time", "time.time_ns": "E_time", "time.perf_counter": "E_time", "time.monotonic": "E_time",
    "time.process_time": "E_time", "time.ctime": "E_time", "time.localtime": "E_time", "time.gmtime": "E_time",
    "time.strftime": "E_time", "time.asctime": "E_time", "time.clock": "E_time",
    "datetime.datetime.now": "E_time", "datetime.datetime.today": "E_time", "datetime.datetime.utcnow": "E_time",
    "datetime.date.today": "E_time",
    "os.getpid": "E_pid", "os.getppid": "E_pid", "os.urandom": "E_random", "os.getcwd": "E_env_read",
    "os.getenv": "E_env_read", "os.getlogin": "E_env_read", "os.uname": "E_env_read", "os.cpu_count": "E_env_read",
    "socket.gethostname": "E_env_read", "getpass.getuser": "E_env_read", "platform.node": "E_env_read",
    "platform.platform": "E_env_read", "os.times": "E_time", "threading.get_ident": "E_pid",
    "os.listdir": "E_fs_order", "os.scandir": "E_fs_order", "os.walk": "E_fs_order", "glob.glob": "E_fs_order",
    "glob.iglob": "E_fs_order", "builtins.id": "E_id", "builtins.hash": "E_hash",
    "tempfile.mkstemp": "E_random", "tempfile.mkdtemp": "E_random", "tempfile.mktemp": "E_random",
    "tempfile.NamedTemporaryFile": "E_random", "tempfile.TemporaryDirectory": "E_random",
    "tempfile.TemporaryFile": "E_random", "tempfile.gettempdir": "E_env_read",
    "requests.get": "E_network", "urllib.request.urlopen": "E_network", "requests.post": "E_network",
    # environment: working directory, home, variables, terminal, locale, time zone
    "os.getcwdb": "E_env_read", "pathlib.Path.cwd": "E_env_read", "pathlib.Path.home": "E_env_read",
    "os.path.expanduser": "E_env_read", "os.path.expandvars": "E_env_read", "os.getenvb": "E_env_read",
    "os.get_terminal_size": "E_env_read", "shutil.get_terminal_size": "E_env_read", "os.getuid": "E_env_read",
    "os.geteuid": "E_env_read", "os.getgid": "E_env_read", "os.umask": "E_env_read", "sys.getfilesystemencoding": "E_locale",
    "sys.getdefaultencoding": "E_locale", "time.tzset": "E_env_read", "time.mktime": "E_time", "time.strptime": "E_locale",
    "datetime.datetime.fromtimestamp": "E_env_read", "datetime.date.fromtimestamp": "E_env_read",
    "datetime.datetime.astimezone": "E_env_read", "datetime.datetime.strptime": "E_locale", "platform.system": "E_env_read", "platform.machine": "E_env_read",
    "platform.python_version": "E_env_read", "platform.uname": "E_env_read", "sys.getrecursionlimit": "E_env_read",
}
ENTROPY_PREFIXES = {"random.": "E_random", "numpy.random.": "E_random", "uuid.": "E_random", "secrets.": "E_random", "locale.": "E_locale"}
ENTROPY_METHODS = {"iterdir": "E_fs_order", "glob": "E_fs_order", "rglob": "E_fs_order", "expanduser": "E_env_read", "strftime": "E_locale", "astimezone": "E_env_read"}
# attribute reads (no call) that deliver an environment value
ENTROPY_ATTRS = {"time.timezone": "E_env_read", "time.tzname": "E_env_read", "time.altzone": "E_env_read", "time.daylight": "E_env_read", "sys.platform": "E_env_read", "os.name": "E_env_read", "sys.byteorder": "E_env_read", "sys.maxsize": "E_env_read", "sys.executable": "E_env_read", "sys.prefix": "E_env_read", "sys.version": "E_env_read", "sys.version_info": "E_env_read", "sys.argv": "E_env_read"}
SET_RETURNING_METHODS = {"union", "intersection", "difference", "symmetric_difference"}
ORDER_INSENSITIVE_CONSUMERS = {"builtins.len", "builtins.any", "builtins.all", "builtins.set", "builtins.frozenset", "builtins.bool", "builtins.isinstance", "builtins.type"}
ORDER_SENSITIVE_CONSUMERS = {
    "builtins.list", "builtins.tuple", "builtins.enumerate", "builtins.zip", "builtins.map", "builtins.filter",
    "builtins.iter", "builtins.next", "builtins.sum", "builtins.reversed", "builtins.dict", "builtins.str",
    "builtins.repr", "builtins.format", "builtins.print", "collections.OrderedDict", "collections.deque",
    "itertools.combinations", "itertools.permutations", "itertools.product", "itertools.chain",
    "itertools.islice", "itertools.cycle", "itertools.accumulate", "itertools.groupby", "builtins.min", "builtins.max",
    "math.fsum", "numpy.array", "functools.reduce",
}
FORBIDDEN_DYNAMIC = {"builtins.exec", "builtins.eval", "builtins.globals", "builtins.__import__", "importlib.import_module", "importlib.reload", "builtins.compile"}

SURV_KINDS = {
    "module_container", "module_iterator", "module_instance", "module_logger", "module_rebound",
    "class_attr", "mutable_default", "cache", "logger_filter", "logger_config", "process_global",
}
ENTROPY_KINDS = {
    "E_set_iteration", "E_set_pop", "E_set_repr", "E_random", "E_time", "E_pid", "E_id", "E_hash", "E_fs_order",
    "E_env_read", "E_network", "E_fs_cwd", "E_locale",
}


# ---------------------------------------------------------------------------
# module loading and name resolution


class Func:
    def __init__(self, mod, qual, node, cls):
        self.mod, self.qual, self.node, self.cls = mod, qual, node, cls
        self.name = node.name if hasattr(node, "name") else "<lambda>"
        a = node.args
        self.params = [x.arg for x in a.posonlyargs + a.args] + ([a.vararg.arg] if a.vararg else []) + [x.arg for x in a.kwonlyargs] + ([a.kwarg.arg] if a.kwarg else [])
        self.pos = [x.arg for x in a.posonlyargs + a.args]
        self.is_method = cls is not None and not any(isinstance(d, ast.Name) and d.id == "staticmethod" for d in getattr(node, "decorator_list", []))
        self.fid = f"{mod.name}.{qual}"
        # summaries (filled by the fixpoint)
        self.mutates = set()  # params mutated (in place, any depth)
        self.stores = {}  # param -> set of attribute names it is stored under
        self.returns_param = set()  # params aliased by the return value
        self.returns_surv = set()  # survivor targets aliased by the return value
        self.globals_decl = set()
        self.locals = set()


class Cls:
    def __init__(self, mod, qual, node):
        self.mod, self.qual, self.node = mod, qual, node
        self.cid = f"{mod.name}.{qual}"
        self.attrs = {}  # class-level name -> [value exprs]
        self.methods = {}
        self.instance_attrs = set()  # names stored through self.<name> = ... in any method
        self.bases = []


class Mod:
    def __init__(self, name, path, tree, is_pkg):
        self.name, self.path, self.tree, self.is_pkg = name, path, tree, is_pkg
        self.imports = {}
        self.top = {}  # module-level bound name -> [("assign"|"for"|"aug"|..., value expr or None, lineno)]
        self.classes = {}
        self.funcs = []


def load(repo: Path):
    root = repo / "pdb2pqr"
    if not root.is_dir():
        raise GenError(f"{root} is not a directory")
    mods = {}
    for p in sorted(root.rglob("*.py")):
        rel = p.relative_to(repo).with_suffix("")
        parts = list(rel.parts)
        is_pkg = parts[-1] == "__init__"
        if is_pkg:
            parts = parts[:-1]
        name = ".".join(parts)
        try:
            tree = ast.parse(p.read_text(), filename=str(p))
        except SyntaxError as e:
            raise GenError(f"cannot parse {p}: {e}")
        mods[name] = Mod(name, p, tree, is_pkg)
    if not mods:
        raise GenError("no modules found")
    return mods


def rel_import_base(mod: Mod, level: int) -> str:
    parts = mod.name.split(".")
    if not mod.is_pkg:
        parts = parts[:-1]
    if level > 1:
        parts = parts[: len(parts) - (level - 1)]
    return ".".join(parts)


def collect_imports(mod: Mod, mods):
    for node in ast.walk(mod.tree):
        if isinstance(node, ast.Import):
            for a in node.names:
                if a.asname:
                    mod.imports[a.asname] = a.name
                else:
                    mod.imports[a.name.split(".")[0]] = a.name.split(".")[0]
        elif isinstance(node, ast.ImportFrom):
            base = node.module or ""
            if node.level:
                pb = rel_import_base(mod, node.level)
                base = f"{pb}.{base}" if base else pb
            for a in node.names:
                if a.name == "*":
                    raise GenError(f"{mod.path}:{node.lineno}: star import defeats the scan")
                mod.imports[a.asname or a.name] = f"{base}.{a.name}"


def bind_targets(t):
    """Names bound by an assignment target."""
    if isinstance(t, ast.Name):
        return [t.id]
    if isinstance(t, (ast.Tuple, ast.List)):
        return [n for e in t.elts for n in bind_targets(e)]
    if isinstance(t, ast.Starred):
        return bind_targets(t.value)
    return []


def walk_module_level(stmts):
    """Statements executed at import time (not inside def/class bodies)."""
    for s in stmts:
        yield s
        for fld in ("body", "orelse", "finalbody", "handlers"):
            sub = getattr(s, fld, None)
            if sub and not isinstance(s, (ast.FunctionDef, ast.AsyncFunctionDef, ast.ClassDef)):
                for h in sub:
                    if isinstance(h, ast.ExceptHandler):
                        yield from walk_module_level(h.body)
                    else:
                        yield from walk_module_level([h])


def collect_defs(mod: Mod):
    def visit_class(node, prefix):
        c = Cls(mod, prefix + node.name, node)
        mod.classes[c.qual] = c
        for s in walk_module_level(node.body):
            if isinstance(s, ast.Assign):
                for t in s.targets:
                    for n in bind_targets(t):
                        c.attrs.setdefault(n, []).append((s.value if isinstance(t, ast.Name) else None, s.lineno))
            elif isinstance(s, ast.AnnAssign) and s.value is not None:
                for n in bind_targets(s.target):
                    c.attrs.setdefault(n, []).append((s.value, s.lineno))
            elif isinstance(s, ast.AugAssign):
                for n in bind_targets(s.target):
                    c.attrs.setdefault(n, []).append((None, s.lineno))
            elif isinstance(s, (ast.FunctionDef, ast.AsyncFunctionDef)):
                f = Func(mod, f"{c.qual}.{s.name}", s, c)
                c.methods[s.name] = f
                mod.funcs.append(f)
                visit_nested(s, f"{c.qual}.{s.name}.", c)
            elif isinstance(s, ast.ClassDef):
                visit_class(s, c.qual + ".")
        c.bases = node.bases

    def visit_nested(fnode, prefix, cls):
        for n in ast.walk(fnode):
            if n is fnode:
                continue
            if isinstance(n, (ast.FunctionDef, ast.AsyncFunctionDef)):
                mod.funcs.append(Func(mod, prefix + n.name, n, None))
            elif isinstance(n, ast.ClassDef):
                visit_class(n, prefix)

    for s in walk_module_level(mod.tree.body):
        if isinstance(s, ast.Assign):
            for t in s.targets:
                for n in bind_targets(t):
                    mod.top.setdefault(n, []).append(("assign", s.value if isinstance(t, ast.Name) else None, s.lineno))
        elif isinstance(s, ast.AnnAssign):
            for n in bind_targets(s.target):
                mod.top.setdefault(n, []).append(("assign", s.value, s.lineno))
        elif isinstance(s, ast.AugAssign):
            for n in bind_targets(s.target):
                mod.top.setdefault(n, []).append(("aug", None, s.lineno))
        elif isinstance(s, (ast.For, ast.AsyncFor)):
            for n in bind_targets(s.target):
                mod.top.setdefault(n, []).append(("for", s.iter, s.lineno))
        elif isinstance(s, (ast.With, ast.AsyncWith)):
            for it in s.items:
                if it.optional_vars is not None:
                    for n in bind_targets(it.optional_vars):
                        mod.top.setdefault(n, []).append(("with", it.context_expr, s.lineno))
        elif isinstance(s, (ast.FunctionDef, ast.AsyncFunctionDef)):
            mod.top.setdefault(s.name, []).append(("func", None, s.lineno))
            mod.funcs.append(Func(mod, s.name, s, None))
            visit_nested(s, s.name + ".", None)
        elif isinstance(s, ast.ClassDef):
            mod.top.setdefault(s.name, []).append(("class", None, s.lineno))
            visit_class(s, "")
    # lambdas anywhere: analysed as part of their enclosing function body


class World:
    """All modules + resolution helpers."""

    def __init__(self, repo: Path):
        self.repo = repo
        self.mods = load(repo)
        for m in self.mods.values():
            collect_imports(m, self.mods)
            collect_defs(m)
        self.funcs = [f for m in self.mods.values() for f in m.funcs]
        self.by_name = {}
        for f in self.funcs:
            self.by_name.setdefault(f.name, []).append(f)
        self.classes = {c.cid: c for m in self.mods.values() for c in m.classes.values()}
        self.func_by_id = {f.fid: f for f in self.funcs}

    def canon(self, ref: str | None) -> str | None:
        """Follow re-exports: pdb2pqr.main.io -> pdb2pqr.io."""
        if ref is None:
            return None
        for _ in range(10):
            parts = ref.split(".")
            changed = False
            for k in range(len(parts) - 1, 0, -1):
                mname = ".".join(parts[:k])
                if mname in self.mods:
                    m = self.mods[mname]
                    head = parts[k]
                    if head not in m.top and head in m.imports and f"{mname}.{head}" not in self.mods:
                        ref = ".".join([m.imports[head]] + parts[k + 1 :])
                        changed = True
                    break
            if not changed:
                return ref
        raise GenError(f"import cycle while resolving {ref}")

    def resolve(self, expr, mod: Mod, local_names=frozenset()) -> str | None:
        if isinstance(expr, ast.Name):
            n = expr.id
            if n in local_names:
                return None
            if n in mod.top:
                return f"{mod.name}.{n}"
            if n in mod.imports:
                return self.canon(mod.imports[n])
            if n in BUILTIN_NAMES:
                return f"builtins.{n}"
            return None
        if isinstance(expr, ast.Attribute):
            b = self.resolve(expr.value, mod, local_names)
            if b is not None:
                return self.canon(f"{b}.{expr.attr}")
        return None


BUILTIN_NAMES = set(dir(__import__("builtins")))


# ---------------------------------------------------------------------------
# value classification


def literal_depth(expr) -> int:
    """Container nesting depth of a display (how many levels hold mutable
    objects): flat list of constants = 1; dict of dicts = 2; unknown = INF."""
    if isinstance(expr, (ast.List, ast.Set, ast.Dict)) and not (expr.keys if isinstance(expr, ast.Dict) else expr.elts):
        return INF  # empty display: whatever is put in later is unknown
    if isinstance(expr, (ast.List, ast.Set, ast.Tuple)):
        ds = [literal_depth(e) for e in expr.elts]
        base = 0 if isinstance(expr, ast.Tuple) else 1
        return base + (max(ds) if ds else 0) if all(d < INF for d in ds) else INF
    if isinstance(expr, ast.Dict):
        ds = [literal_depth(v) for v in expr.values if v is not None]
        if any(k is None for k in expr.keys):
            return INF
        return 1 + (max(ds) if ds else 0) if all(d < INF for d in ds) else INF
    if is_immutable_expr(expr):
        return 0
    return INF


def is_immutable_expr(expr) -> bool:
    if isinstance(expr, (ast.Constant, ast.JoinedStr, ast.FormattedValue)):
        return True
    if isinstance(expr, ast.UnaryOp):
        return is_immutable_expr(expr.operand)
    if isinstance(expr, ast.Tuple):
        return all(is_immutable_expr(e) for e in expr.elts)
    if isinstance(expr, (ast.BinOp, ast.BoolOp, ast.Compare)):
        return all(is_immutable_expr(e) for e in ast.iter_child_nodes(expr) if isinstance(e, ast.expr))
    return False


def classify_value(w: World, mod: Mod, expr, local_names=frozenset()):
    """-> (class, detail, depth). class in immutable|container|iterator|instance|logger|opaque|alias|unknown-immutable"""
    if expr is None:
        return ("opaque", "tuple-unpacked or augmented binding", INF)
    if is_immutable_expr(expr):
        return ("immutable", "", 0)
    if isinstance(expr, (ast.List, ast.Dict, ast.Set)):
        return ("container", type(expr).__name__.lower() + " display", literal_depth(expr))
    if isinstance(expr, (ast.ListComp, ast.DictComp, ast.SetComp)):
        return ("container", "comprehension", INF)
    if isinstance(expr, ast.GeneratorExp):
        return ("iterator", "generator expression", INF)
    if isinstance(expr, ast.Lambda):
        return ("immutable", "lambda", 0)
    if isinstance(expr, (ast.BinOp, ast.BoolOp, ast.Compare, ast.IfExp)):
        subs = [x for x in ast.iter_child_nodes(expr) if isinstance(x, ast.expr)]
        cls = [classify_value(w, mod, s, local_names) for s in subs]
        if all(c[0] == "immutable" for c in cls):
            return ("immutable", "", 0)
        # arithmetic on names of numbers/strings: decided by the operands being immutable globals
        if all(c[0] in ("immutable", "alias-immutable") for c in cls):
            return ("immutable", "", 0)
        return ("opaque", "expression over non-constant operands", INF)
    if isinstance(expr, (ast.Name, ast.Attribute)):
        ref = w.resolve(expr, mod, local_names)
        if ref is None:
            return ("opaque", f"unresolved name {ast.unparse(expr)}", INF)
        return ("alias", ref, INF)
    if isinstance(expr, ast.Subscript):
        ref = w.resolve(expr.value, mod, local_names)
        if ref is not None:
            return ("alias-sub", ref, INF)
        return ("opaque", "subscript of unresolved", INF)
    if isinstance(expr, ast.Call):
        ref = w.resolve(expr.func, mod, local_names)
        if ref in FORBIDDEN_DYNAMIC:
            raise GenError(f"{mod.path}:{expr.lineno}: dynamic construct {ref} defeats the scan")
        if ref is None:
            # method call on something, e.g. "a b".split()
            if isinstance(expr.func, ast.Attribute) and is_immutable_expr(expr.func.value):
                if expr.func.attr in ("split", "splitlines", "rsplit"):
                    return ("container", "str.split()", 1)
                return ("immutable", "method of a constant", 0)
            return ("opaque", f"call of unresolved {ast.unparse(expr.func)[:60]}", INF)
        if ref == "logging.getLogger":
            return ("logger", ast.unparse(expr.args[0]) if expr.args else "root", INF)
        if ref in MUTABLE_CTORS:
            return ("container", ref, INF)
        if ref in ITERATOR_CTORS:
            return ("iterator", ref, INF)
        if ref in IMMUTABLE_CTORS or ref.startswith("math."):
            return ("immutable", ref, 0)
        if ref in w.classes:
            return ("instance", ref, INF)
        return ("opaque", f"call of {ref}", INF)
    raise GenError(f"{mod.path}:{getattr(expr, 'lineno', '?')}: value expression {type(expr).__name__} not understood")


class Survivor:
    def __init__(self, sid, kind, where, detail="", depth=INF):
        self.sid, self.kind, self.where, self.detail, self.depth = sid, kind, where, detail, depth
        self.writers = []  # run-time write sites
        self.import_writers = []  # import-time write sites
        self.flows = True
        self.reason = ""
        self.instance_of = None

    @property
    def written(self):
        return bool(self.writers)


class Entropy:
    def __init__(self, eid, kind, where, detail, neutral):
        self.eid, self.kind, self.where, self.detail, self.neutral = eid, kind, where, detail, neutral
        self.flows = True
        self.reason = ""


def rel(w: World, mod: Mod, lineno) -> str:
    return f"{mod.path.relative_to(w.repo)}:{lineno}"


def enumerate_survivors(w: World):
    S: dict[str, Survivor] = {}

    def add(sid, kind, where, detail="", depth=INF):
        if sid in S:
            # a second binding of the same name: keep the most dangerous view
            s = S[sid]
            s.depth = max(s.depth, depth)
            if kind != s.kind and s.kind == "module_rebound":
                s.kind = kind
            s.detail += f"; also {detail} at {where}"
            return s
        S[sid] = Survivor(sid, kind, where, detail, depth)
        return S[sid]

    for m in w.mods.values():
        # (a) module-level bindings
        for name, binds in m.top.items():
            for how, val, ln in binds:
                if how in ("func", "class"):
                    continue
                if how == "for":
                    # loop variable left over at module level: alias into what was iterated
                    add(f"{m.name}.{name}", "module_container", rel(w, m, ln), f"module-level loop variable over {ast.unparse(val)[:50]}", INF)
                    continue
                if how == "with":
                    add(f"{m.name}.{name}", "module_instance", rel(w, m, ln), "module-level with-target", INF)
                    continue
                c, detail, depth = classify_value(w, m, val)
                if c == "immutable":
                    continue
                if c in ("alias", "alias-sub"):
                    tgt = detail
                    # alias of an immutable constant / function / class / module: not a container
                    if alias_is_harmless(w, tgt, c):
                        continue
                    add(f"{m.name}.{name}", "module_container", rel(w, m, ln), f"alias of {tgt}", INF)
                    continue
                kind = {"container": "module_container", "iterator": "module_iterator", "instance": "module_instance", "logger": "module_logger", "opaque": "module_instance"}[c]
                s = add(f"{m.name}.{name}", kind, rel(w, m, ln), detail, depth)
                if c == "instance":
                    s.instance_of = detail
        # (b) class-level attributes
        for c in m.classes.values():
            for name, binds in c.attrs.items():
                for val, ln in binds:
                    k, detail, depth = classify_value(w, m, val, frozenset())
                    if k == "immutable":
                        continue
                    if k in ("alias", "alias-sub") and alias_is_harmless(w, detail, k):
                        continue
                    if isinstance(val, ast.Call) and isinstance(val.func, ast.Name) and val.func.id in ("property", "staticmethod", "classmethod"):
                        continue
                    s = add(f"{c.cid}.{name}", "class_attr", rel(w, m, ln), detail, depth)
                    if k == "iterator":
                        s.detail = "iterator: " + s.detail
                    if k == "instance":
                        s.instance_of = detail
        # (c) defaults, (d) cache decorators
        for f in m.funcs:
            a = f.node.args
            pos = a.posonlyargs + a.args
            pairs = list(zip(pos[len(pos) - len(a.defaults) :], a.defaults)) + [(p, d) for p, d in zip(a.kwonlyargs, a.kw_defaults) if d is not None]
            for p, d in pairs:
                k, detail, depth = classify_value(w, m, d)
                if k == "immutable":
                    continue
                if k in ("alias", "alias-sub") and alias_is_harmless(w, detail, k):
                    continue
                add(f"{f.fid}({p.arg})", "mutable_default", rel(w, m, d.lineno), f"default {ast.unparse(d)[:50]} ({k} {detail})", depth)
            for d in getattr(f.node, "decorator_list", []):
                target = d.func if isinstance(d, ast.Call) else d
                ref = w.resolve(target, m)
                if ref in CACHE_DECORATORS:
                    s = add(f"{f.fid}@{ref}", "cache", rel(w, m, d.lineno), f"decorator {ref}")
                    s.writers.append({"site": rel(w, m, d.lineno), "func": f.fid, "op": f"every call fills the {ref} cache"})
        for c in m.classes.values():
            for d in c.node.decorator_list:
                target = d.func if isinstance(d, ast.Call) else d
                ref = w.resolve(target, m)
                if ref in CACHE_DECORATORS:
                    s = add(f"{c.cid}@{ref}", "cache", rel(w, m, d.lineno), f"decorator {ref}")
                    s.writers.append({"site": rel(w, m, d.lineno), "func": c.cid, "op": "cache decorator"})
    return S


def alias_is_harmless(w: World, tgt: str, how: str) -> bool:
    """`X = Y` where Y is an immutable constant, a function, a class or a module."""
    if tgt in w.mods or tgt in w.classes or tgt in w.func_by_id:
        return how == "alias"
    parts = tgt.rsplit(".", 1)
    if len(parts) == 2 and parts[0] in w.mods:
        m = w.mods[parts[0]]
        binds = m.top.get(parts[1])
        if binds and how == "alias":
            return all(b[0] == "assign" and b[1] is not None and classify_value(w, m, b[1])[0] == "immutable" for b in binds)
        if binds and how == "alias-sub":
            # subscript of a container: harmless iff the container is flat (elements immutable)
            return all(b[0] == "assign" and b[1] is not None and classify_value(w, m, b[1])[2] <= 1 for b in binds)
        return False
    if not tgt.startswith("pdb2pqr"):
        # external constant such as logging.INFO, os.sep, math.pi, __version__ of another package
        head = tgt.split(".")[0]
        return how == "alias" and head in ("logging", "math", "os", "sys", "string", "builtins", "propka", "numpy") and tgt not in PROCESS_GLOBAL_OBJECTS
    return False


# ---------------------------------------------------------------------------
# alias / mutation analysis of function bodies
#
# A *target* is (tid, level, own): `tid` a survivor id or "P:<param>"; `level`
# how many container levels below the survivor object; own=True: the
# expression IS that object, own=False: a fresh container whose elements are
# the objects at `level`.  Only own targets can be mutated.


def link_outer(w: World):
    node2f = {id(f.node): f for f in w.funcs}
    for f in w.funcs:
        f.outer = None
    for f in w.funcs:
        stack = list(ast.iter_child_nodes(f.node))
        while stack:
            n = stack.pop()
            if isinstance(n, (ast.FunctionDef, ast.AsyncFunctionDef)):
                g = node2f.get(id(n))
                if g is not None:
                    g.outer = f
                continue
            if isinstance(n, ast.ClassDef):
                for s in ast.walk(n):
                    g = node2f.get(id(s))
                    if g is not None and g.outer is None:
                        g.outer = f
                continue
            stack.extend(ast.iter_child_nodes(n))


def own_body_nodes(fnode):
    """All nodes of a function body excluding nested def/class bodies (lambdas included)."""
    stack = list(fnode.body) if isinstance(fnode.body, list) else [fnode.body]
    while stack:
        n = stack.pop()
        yield n
        for c in ast.iter_child_nodes(n):
            if isinstance(c, (ast.FunctionDef, ast.AsyncFunctionDef, ast.ClassDef)):
                continue
            stack.append(c)


def compute_locals(w: World):
    for f in w.funcs:
        loc = set(f.params)
        glob = set()
        for n in own_body_nodes(f.node):
            if isinstance(n, ast.Global):
                glob.update(n.names)
            elif isinstance(n, ast.Nonlocal):
                pass
            elif isinstance(n, ast.Name) and isinstance(n.ctx, (ast.Store, ast.Del)):
                loc.add(n.id)
            elif isinstance(n, ast.arg):
                loc.add(n.arg)  # lambda parameters
            elif isinstance(n, ast.ExceptHandler) and n.name:
                loc.add(n.name)
        for n in f.node.body if isinstance(f.node.body, list) else []:
            pass
        for n in ast.iter_child_nodes(f.node):
            pass
        # nested defs bind their name locally
        for n in own_body_nodes(f.node):
            for c in ast.iter_child_nodes(n):
                if isinstance(c, (ast.FunctionDef, ast.AsyncFunctionDef, ast.ClassDef)):
                    loc.add(c.name)
        for c in f.node.body if isinstance(f.node.body, list) else []:
            if isinstance(c, (ast.FunctionDef, ast.AsyncFunctionDef, ast.ClassDef)):
                loc.add(c.name)
        f.globals_decl = glob
        f.locals = loc - glob
    for f in w.funcs:
        o, acc = f.outer, set()
        while o is not None:
            acc |= o.locals
            o = o.outer
        f.outer_locals = acc - f.globals_decl


class Analysis:
    def __init__(self, w: World, S: dict):
        self.w, self.S = w, S
        self.attr_store = {}  # attribute name -> set of survivor targets stored under it
        self.class_attr_names = {}
        for s in S.values():
            if s.kind == "class_attr":
                cid, a = s.sid.rsplit(".", 1)
                self.class_attr_names.setdefault(a, []).append(s.sid)
        for c in w.classes.values():
            for f in c.methods.values():
                for n in own_body_nodes(f.node):
                    if isinstance(n, ast.Attribute) and isinstance(n.ctx, ast.Store) and isinstance(n.value, ast.Name) and f.pos and n.value.id == f.pos[0]:
                        c.instance_attrs.add(n.attr)
        self.rebinds = []  # (sid, site dict, kind)
        self.import_only = set()

    # -- helpers
    def depth(self, tid):
        return self.S[tid].depth if tid in self.S else INF

    def norm(self, ts):
        out = set()
        for tid, lvl, own in ts:
            if lvl >= self.depth(tid):
                continue  # immutable leaves
            out.add((tid, min(lvl, 6), own))
        return out

    def descend(self, ts):
        return self.norm({(t, l + 1, True) if own else (t, l, True) for t, l, own in ts})

    def shallow(self, ts):
        return self.norm({(t, l + 1, False) if own else (t, l, False) for t, l, own in ts})

    def wrap(self, ts):
        return self.norm({(t, l, False) for t, l, own in ts})

    def instance_shadowed(self, attr, cid_list):
        """`x.attr` can be the class-level object unless every class defining it re-binds it per instance."""
        res = []
        for sid in cid_list:
            cid = sid.rsplit(".", 1)[0]
            c = self.w.classes.get(cid)
            if c is not None and attr in c.instance_attrs:
                continue
            res.append(sid)
        return res


class FuncWalk:
    def __init__(self, an: Analysis, f: Func | None, mod: Mod, record: bool):
        self.an, self.f, self.mod, self.w = an, f, mod, an.w
        self.env = {}
        self.record = record
        self.events = []  # (kind, target, info, lineno)
        if f is not None:
            self.local_names = frozenset(f.locals | f.outer_locals)
            for p in f.params:
                self.env[p] = {(f"P:{p}", 0, True)}
            # a parameter with a survivor default may BE that survivor
            for s in an.S.values():
                if s.kind == "mutable_default" and s.sid.startswith(f.fid + "("):
                    p = s.sid[len(f.fid) + 1 : -1]
                    self.env.setdefault(p, set()).add((s.sid, 0, True))
        else:
            self.local_names = frozenset()

    def ev(self, kind, targets, info, node):
        for t in targets:
            self.events.append((kind, t, info, getattr(node, "lineno", 0)))

    # ---- expression -> targets
    def T(self, e):
        an = self.an
        if e is None:
            return set()
        if isinstance(e, ast.Name):
            if e.id in self.env:
                return set(self.env[e.id])
            if e.id in self.local_names:
                return set()
            ref = self.w.resolve(e, self.mod, self.local_names)
            return an.norm({(ref, 0, True)}) if ref in an.S else set()
        if isinstance(e, ast.Attribute):
            ref = self.w.resolve(e, self.mod, self.local_names)
            if ref in an.S:
                return an.norm({(ref, 0, True)})
            out = set()
            base = self.T(e.value)
            # attribute of an object held by a survivor: part of its content
            out |= an.descend({t for t in base if t[2]}) | {t for t in base if not t[2] and False}
            if e.attr in an.class_attr_names and ref is None:
                for sid in an.instance_shadowed(e.attr, an.class_attr_names[e.attr]):
                    out |= an.norm({(sid, 0, True)})
            out |= an.attr_store.get(e.attr, set())
            if self.f is not None:
                # parameter stored under this attribute earlier in the same function
                pass
            return an.norm(out)
        if isinstance(e, ast.Subscript):
            self.T(e.slice)
            return an.descend(self.T(e.value))
        if isinstance(e, ast.Starred):
            return an.descend(self.T(e.value)) if False else self.T(e.value)
        if isinstance(e, (ast.List, ast.Tuple, ast.Set)):
            out = set()
            for x in e.elts:
                tx = self.T(x)
                out |= an.shallow(tx) if isinstance(x, ast.Starred) else an.wrap(tx)
            return out
        if isinstance(e, ast.Dict):
            out = set()
            for k, v in zip(e.keys, e.values):
                tv = self.T(v)
                out |= an.shallow(tv) if k is None else an.wrap(tv)
                if k is not None:
                    self.T(k)
            return out
        if isinstance(e, (ast.IfExp,)):
            self.T(e.test)
            return self.T(e.body) | self.T(e.orelse)
        if isinstance(e, ast.BoolOp):
            out = set()
            for v in e.values:
                out |= self.T(v)
            return out
        if isinstance(e, ast.NamedExpr):
            t = self.T(e.value)
            self.bind(e.target, t)
            return t
        if isinstance(e, ast.BinOp):
            l, r = self.T(e.left), self.T(e.right)
            # a + b / a | b build a fresh container with the same elements
            return an.shallow(l) | an.shallow(r)
        if isinstance(e, (ast.ListComp, ast.SetComp, ast.GeneratorExp, ast.DictComp)):
            for g in e.generators:
                self.bind(g.target, an.descend(self.T(g.iter)))
                for c in g.ifs:
                    self.T(c)
            if isinstance(e, ast.DictComp):
                self.T(e.key)
                return an.wrap(self.T(e.value))
            return an.wrap(self.T(e.elt))
        if isinstance(e, ast.Lambda):
            self.T(e.body)
            return set()
        if isinstance(e, ast.Call):
            return self.call(e)
        if isinstance(e, (ast.Await, ast.Yield, ast.YieldFrom)):
            t = self.T(e.value) if e.value is not None else set()
            if isinstance(e, (ast.Yield, ast.YieldFrom)):
                self.ev("return", t, "yield", e)
            return t
        for c in ast.iter_child_nodes(e):
            if isinstance(c, ast.expr):
                self.T(c)
        return set()

    def bind(self, target, ts):
        if isinstance(target, ast.Name):
            if ts:
                self.env.setdefault(target.id, set()).update(ts)
        elif isinstance(target, (ast.Tuple, ast.List)):
            d = self.an.descend(ts)
            for x in target.elts:
                self.bind(x.value if isinstance(x, ast.Starred) else x, d | {t for t in ts if t[2] is False and False})
        elif isinstance(target, ast.Starred):
            self.bind(target.value, ts)

    # ---- calls
    def candidates(self, call):
        """[(Func, offset)] the call may reach + external ref."""
        ref = self.w.resolve(call.func, self.mod, self.local_names)
        if ref in self.w.func_by_id:
            return [(self.w.func_by_id[ref], 0)], ref
        if ref in self.w.classes:
            c = self.w.classes[ref]
            seen, out = set(), []
            stack = [c]
            while stack:
                k = stack.pop()
                if k.cid in seen:
                    continue
                seen.add(k.cid)
                if "__init__" in k.methods:
                    out.append((k.methods["__init__"], 1))
                    break
                for b in k.bases:
                    br = self.w.resolve(b, k.mod)
                    if br in self.w.classes:
                        stack.append(self.w.classes[br])
            return out, ref
        if isinstance(call.func, ast.Attribute) and (ref is None or ref.startswith("pdb2pqr")):
            cands = [(g, 1 if g.is_method else 0) for g in self.w.by_name.get(call.func.attr, []) if g.cls is not None]
            return cands, ref
        if isinstance(call.func, ast.Name) and ref is None:
            # call of a local (callable parameter, nested def)
            cands = [(g, 0) for g in self.w.by_name.get(call.func.id, []) if g.outer is not None or g.cls is None]
            return cands, ref
        return [], ref

    def call(self, call):
        an = self.an
        cands, ref = self.candidates(call)
        if ref in FORBIDDEN_DYNAMIC:
            raise GenError(f"{self.mod.path}:{call.lineno}: dynamic construct {ref} defeats the scan")
        result = set()
        recv = set()
        meth = None
        if isinstance(call.func, ast.Attribute):
            meth = call.func.attr
            recv = self.T(call.func.value)
            own = {t for t in recv if t[2]}
            if meth in MUTATORS and ref not in self.w.func_by_id:
                self.ev("mutate", own, f".{meth}()", call)
            if meth in DESCENDERS:
                result |= an.descend(recv)
            if meth in SHALLOW_COPIERS:
                result |= an.shallow(recv)
            for g, off in cands:
                if off == 1 and g.pos:
                    selfp = g.pos[0]
                    if selfp in g.mutates:
                        self.ev("mutate", own, f".{meth}() -> {g.fid} mutates self", call)
                    for a in g.stores.get(selfp, ()):
                        self.ev("store", own, a, call)
                    if selfp in g.returns_param:
                        result |= recv
        else:
            self.T(call.func)
        # setattr/delattr/next
        if ref in ("builtins.setattr", "builtins.delattr") and call.args:
            tgt = self.w.resolve(call.args[0], self.mod, self.local_names)
            if tgt in self.w.classes or tgt in self.w.mods:
                if len(call.args) > 1 and isinstance(call.args[1], ast.Constant):
                    an.rebinds.append((f"{tgt}.{call.args[1].value}", self.site(call, f"{ref.split('.')[1]}()"), self.f))
                else:
                    raise GenError(f"{self.mod.path}:{call.lineno}: setattr on a module/class with a computed name")
            self.ev("mutate", {t for t in self.T(call.args[0]) if t[2]}, "setattr()", call)
            if len(call.args) > 2:
                self.ev("store", self.T(call.args[2]), "*", call)
            return set()
        if ref == "builtins.next" and call.args:
            self.ev("mutate", {t for t in self.T(call.args[0]) if t[2] and an.S.get(t[0]) and (an.S[t[0]].kind == "module_iterator" or an.S[t[0]].detail.startswith("iterator"))}, "next()", call)
        # arguments
        bound = []
        for i, a in enumerate(call.args):
            bound.append((i, None, a))
        for k in call.keywords:
            bound.append((None, k.arg, k.value))
        for i, kw, a in bound:
            ta = self.T(a.value if isinstance(a, ast.Starred) else a)
            if isinstance(a, ast.Starred):
                ta = an.descend(ta)
            if not ta:
                continue
            handled = False
            for g, off in cands:
                if kw is not None:
                    q = kw if kw in g.params else (g.node.args.kwarg.arg if g.node.args.kwarg else None)
                elif i is not None and i + off < len(g.pos):
                    q = g.pos[i + off]
                elif g.node.args.vararg is not None:
                    q = g.node.args.vararg.arg
                else:
                    q = None
                if q is None:
                    continue
                handled = True
                if q in g.mutates:
                    self.ev("mutate", {t for t in ta if t[2]}, f"passed to {g.fid}({q}) which mutates it", call)
                for attr in g.stores.get(q, ()):
                    self.ev("store", ta, attr, call)
                if q in g.returns_param:
                    result |= ta
            if handled or cands:
                continue
            if ref is not None and (ref in PURE_FUNCS or ref.startswith(PURE_MODULE_PREFIXES)):
                if ref in SHALLOW_COPY_FUNCS:
                    result |= an.shallow(ta)
                continue
            if ref is not None and ref in MUTABLE_CTORS | ITERATOR_CTORS | IMMUTABLE_CTORS:
                result |= an.shallow(ta)
                continue
            if meth is not None and meth in STORING_METHODS:
                base = call.func.value
                if isinstance(base, ast.Name) and (base.id in self.local_names or base.id in self.env):
                    self.env.setdefault(base.id, set()).update(an.shallow(ta) if meth in ("extend", "update", "extendleft") else an.wrap(ta))
                elif isinstance(base, ast.Attribute):
                    self.ev("store", an.shallow(ta) if meth in ("extend", "update") else an.wrap(ta), base.attr, call)
                else:
                    self.ev("mutate", {t for t in ta if t[2]}, f"stored via .{meth}() into an untracked container", call)
                continue
            if meth is not None and meth in PURE_METHODS:
                continue
            self.ev("mutate", {t for t in ta if t[2]}, f"passed to unknown callee {ref or ast.unparse(call.func)[:40]}", call)
        for g, off in cands:
            result |= an.norm(g.returns_surv)
        return an.norm(result)

    def site(self, node, op):
        return {"site": rel(self.w, self.mod, getattr(node, "lineno", 0)), "func": self.f.fid if self.f else f"{self.mod.name}:<module>", "op": op}

    # ---- statements
    def store_target(self, t, value_targets, node, aug=False):
        an = self.an
        if isinstance(t, ast.Name):
            if self.f is not None and t.id in self.f.globals_decl:
                an.rebinds.append((f"{self.mod.name}.{t.id}", self.site(node, "global re-binding"), self.f))
            elif self.f is None:
                pass  # module-level binding: import time
            if aug:
                self.ev("mutate", {x for x in self.T(ast.Name(id=t.id, ctx=ast.Load())) if x[2]}, "augmented assignment (in place for containers)", node)
            self.bind(t, value_targets)
        elif isinstance(t, (ast.Tuple, ast.List)):
            d = an.descend(value_targets)
            for x in t.elts:
                self.store_target(x.value if isinstance(x, ast.Starred) else x, d, node)
        elif isinstance(t, ast.Subscript):
            self.T(t.slice)
            base = self.T(t.value)
            self.ev("mutate", {x for x in base if x[2]}, "item assignment", node)
            if value_targets:
                if isinstance(t.value, ast.Name) and (t.value.id in self.local_names or t.value.id in self.env):
                    self.env.setdefault(t.value.id, set()).update(an.wrap(value_targets))
                elif isinstance(t.value, ast.Attribute):
                    self.ev("store", an.wrap(value_targets), t.value.attr, node)
                elif not base:
                    self.ev("mutate", {x for x in value_targets if x[2]}, "stored into an untracked container", node)
        elif isinstance(t, ast.Attribute):
            ref = self.w.resolve(t, self.mod, self.local_names)
            bref = self.w.resolve(t.value, self.mod, self.local_names)
            if bref is not None and (bref in self.w.classes or bref in self.w.mods):
                an.rebinds.append((ref, self.site(node, "attribute assignment through the module/class name"), self.f))
            elif self.is_class_of_self(t.value):
                for cid in self.is_class_of_self(t.value):
                    an.rebinds.append((f"{cid}.{t.attr}", self.site(node, "attribute assignment through cls / type(self)"), self.f))
            else:
                base = self.T(t.value)
                self.ev("mutate", {x for x in base if x[2]}, f"attribute assignment .{t.attr}", node)
            if value_targets:
                self.ev("store", value_targets, t.attr, node)

    def is_class_of_self(self, e):
        """cls / type(self) / self.__class__ inside a method -> [class ids]"""
        f = self.f
        while f is not None and f.cls is None:
            f = f.outer
        if f is None:
            return []
        is_cm = any(isinstance(d, ast.Name) and d.id == "classmethod" for d in f.node.decorator_list)
        first = f.pos[0] if f.pos else None
        if isinstance(e, ast.Name) and is_cm and e.id == first:
            return [f.cls.cid]
        if isinstance(e, ast.Attribute) and e.attr == "__class__":
            return [f.cls.cid]
        if isinstance(e, ast.Call) and isinstance(e.func, ast.Name) and e.func.id == "type" and len(e.args) == 1:
            return [f.cls.cid]
        return []

    def stmts(self, body):
        for s in body:
            self.stmt(s)

    def stmt(self, s):
        an = self.an
        if isinstance(s, (ast.FunctionDef, ast.AsyncFunctionDef, ast.ClassDef)):
            for d in s.decorator_list:
                self.T(d)
            return
        if isinstance(s, ast.Assign):
            v = self.T(s.value)
            for t in s.targets:
                self.store_target(t, v, s)
        elif isinstance(s, ast.AnnAssign):
            if s.value is not None:
                self.store_target(s.target, self.T(s.value), s)
        elif isinstance(s, ast.AugAssign):
            v = self.T(s.value)
            t = s.target
            if isinstance(t, ast.Name):
                self.store_target(t, an.shallow(v), s, aug=True)
            else:
                self.store_target(t, v, s)
        elif isinstance(s, ast.Delete):
            for t in s.targets:
                if isinstance(t, ast.Subscript):
                    self.ev("mutate", {x for x in self.T(t.value) if x[2]}, "del item", s)
                elif isinstance(t, ast.Attribute):
                    bref = self.w.resolve(t.value, self.mod, self.local_names)
                    if bref is not None and (bref in self.w.classes or bref in self.w.mods):
                        an.rebinds.append((f"{bref}.{t.attr}", self.site(s, "del through the module/class name"), self.f))
                    self.ev("mutate", {x for x in self.T(t.value) if x[2]}, "del attribute", s)
                elif isinstance(t, ast.Name) and self.f is not None and t.id in self.f.globals_decl:
                    an.rebinds.append((f"{self.mod.name}.{t.id}", self.site(s, "del of a global"), self.f))
        elif isinstance(s, (ast.For, ast.AsyncFor)):
            it = self.T(s.iter)
            self.ev("mutate", {x for x in it if x[2] and x[0] in an.S and (an.S[x[0]].kind == "module_iterator" or an.S[x[0]].detail.startswith("iterator"))}, "iteration consumes the iterator", s)
            self.store_target(s.target, set(), s)
            self.bind(s.target, an.descend(it))
            self.stmts(s.body)
            self.stmts(s.orelse)
        elif isinstance(s, (ast.While, ast.If)):
            self.T(s.test)
            self.stmts(s.body)
            self.stmts(s.orelse)
        elif isinstance(s, (ast.With, ast.AsyncWith)):
            for it in s.items:
                t = self.T(it.context_expr)
                if it.optional_vars is not None:
                    self.store_target(it.optional_vars, t, s)
            self.stmts(s.body)
        elif isinstance(s, ast.Try) or type(s).__name__ == "TryStar":
            self.stmts(s.body)
            for h in s.handlers:
                self.stmts(h.body)
            self.stmts(s.orelse)
            self.stmts(s.finalbody)
        elif isinstance(s, ast.Return):
            if s.value is not None:
                self.ev("return", self.T(s.value), "return", s)
        elif isinstance(s, ast.Expr):
            self.T(s.value)
        elif isinstance(s, (ast.Raise, ast.Assert)):
            for c in ast.iter_child_nodes(s):
                if isinstance(c, ast.expr):
                    self.T(c)
        elif isinstance(s, ast.Match):
            self.T(s.subject)
            for c in s.cases:
                self.stmts(c.body)
        elif isinstance(s, (ast.Global, ast.Nonlocal, ast.Pass, ast.Break, ast.Continue, ast.Import, ast.ImportFrom)):
            pass
        else:
            raise GenError(f"{self.mod.path}:{getattr(s, 'lineno', '?')}: statement {type(s).__name__} not understood")


# ---------------------------------------------------------------------------
# whole-package fixpoint


def func_body_ids(w: World):
    """ids of AST nodes that execute at run time (inside some def body)."""
    inside = set()
    for f in w.funcs:
        for s in f.node.body if isinstance(f.node.body, list) else [f.node.body]:
            for n in ast.walk(s):
                inside.add(id(n))
    return inside


def import_only_functions(w: World, inside):
    """Module-level functions only ever referenced from import-time code
    (decorators / top-level statements), e.g. pdb.register_line_parser."""
    refs = {}  # fid -> [bool inside-function]
    deco = set()  # functions used as decorators of module-level classes/functions
    for m in w.mods.values():
        for s in walk_module_level(m.tree.body):
            if isinstance(s, (ast.ClassDef, ast.FunctionDef, ast.AsyncFunctionDef)):
                for d in s.decorator_list:
                    r = w.resolve(d.func if isinstance(d, ast.Call) else d, m)
                    if r in w.func_by_id:
                        deco.add(r)
    for m in w.mods.values():
        for n in ast.walk(m.tree):
            if isinstance(n, (ast.Name, ast.Attribute)) and isinstance(n.ctx, ast.Load):
                r = w.resolve(n, m)
                if r in w.func_by_id:
                    refs.setdefault(r, []).append(id(n) in inside)
    out = set()
    for fid, uses in refs.items():
        f = w.func_by_id[fid]
        if f.cls is None and f.outer is None and uses and not any(uses) and fid in deco:
            out.add(fid)
    return out


def summary_sig(w, an):
    return (
        tuple((f.fid, tuple(sorted(f.mutates)), tuple(sorted((k, tuple(sorted(v))) for k, v in f.stores.items())), tuple(sorted(f.returns_param)), tuple(sorted(f.returns_surv))) for f in w.funcs),
        tuple(sorted((k, tuple(sorted(v))) for k, v in an.attr_store.items())),
    )


def analyse(w: World, S: dict):
    link_outer(w)
    compute_locals(w)
    inside = func_body_ids(w)
    an = Analysis(w, S)
    an.import_only = import_only_functions(w, inside)
    final = None
    for rnd in range(12):
        before = summary_sig(w, an)
        an.rebinds = []
        muts = []  # (sid, site, runtime?)
        new_store = {}
        walks = []
        for f in w.funcs:
            fw = FuncWalk(an, f, f.mod, True)
            body = f.node.body if isinstance(f.node.body, list) else [ast.Expr(value=f.node.body)]
            nreb = len(an.rebinds)
            fw.stmts(body)
            fw.events = []
            del an.rebinds[nreb:]
            fw.stmts(body)  # second pass: aliases bound late (loops) are now known
            walks.append((f, fw))
        for m in w.mods.values():
            fw = FuncWalk(an, None, m, True)
            fw.stmts(m.tree.body)
            for c in m.classes.values():
                fw.stmts([s for s in c.node.body if not isinstance(s, (ast.FunctionDef, ast.AsyncFunctionDef, ast.ClassDef))])
            walks.append((None, fw))
        for f, fw in walks:
            runtime = f is not None and f.fid not in an.import_only
            for kind, (tid, lvl, own), info, ln in fw.events:
                if tid.startswith("P:"):
                    p = tid[2:]
                    if kind == "mutate" and own:
                        f.mutates.add(p)
                    elif kind == "store":
                        f.stores.setdefault(p, set()).add(info)
                    elif kind == "return":
                        f.returns_param.add(p)
                else:
                    if kind == "mutate" and own:
                        muts.append((tid, {"site": rel(w, fw.mod, ln), "func": f.fid if f else f"{fw.mod.name}:<module>", "op": info}, runtime))
                    elif kind == "store":
                        new_store.setdefault(info, set()).add((tid, lvl, own))
                    elif kind == "return" and f is not None:
                        f.returns_surv.add((tid, lvl, own))
        for a, ts in new_store.items():
            an.attr_store.setdefault(a, set()).update(ts)
        final = muts
        if summary_sig(w, an) == before and rnd > 0:
            break
    else:
        raise GenError("alias analysis did not reach a fixpoint in 12 rounds")
    # record
    for s in S.values():
        if s.kind != "cache":
            s.writers, s.import_writers = [], []
    seen = set()
    for sid, site, runtime in final:
        key = (sid, site["site"], site["op"], runtime)
        if key in seen:
            continue
        seen.add(key)
        (S[sid].writers if runtime else S[sid].import_writers).append(site)
    for sid, site, f in an.rebinds:
        if sid is None:
            continue
        runtime = f is not None and f.fid not in an.import_only
        if sid not in S:
            prefix = sid.rsplit(".", 1)[0]
            if not runtime:
                continue
            kind = "class_attr" if prefix in w.classes else "module_rebound"
            if not (prefix in w.classes or prefix in w.mods):
                # attribute of an external module/class: a process-wide write
                kind = "process_global"
            S[sid] = Survivor(sid, kind, site["site"], "re-bound at run time", INF)
        key = (sid, site["site"], site["op"], runtime)
        if key in seen:
            continue
        seen.add(key)
        (S[sid].writers if runtime else S[sid].import_writers).append(site)
    return an, inside


# ---------------------------------------------------------------------------
# loggers, process globals, entropy, set iteration


def enclosing_map(w: World):
    """id(node) -> Func for every node inside a function (innermost)."""
    enc = {}
    for f in sorted(w.funcs, key=lambda g: g.fid.count(".")):
        for n in ast.walk(f.node):
            enc[id(n)] = f
    return enc


def class_mutating_methods(w: World, cref: str):
    c = w.classes.get(cref)
    out = []
    seen = set()
    stack = [c] if c else []
    while stack:
        k = stack.pop()
        if k.cid in seen:
            continue
        seen.add(k.cid)
        for name, f in k.methods.items():
            if name != "__init__" and f.pos and f.pos[0] in f.mutates:
                out.append(f)
        for b in k.bases:
            br = w.resolve(b, k.mod)
            if br in w.classes:
                stack.append(w.classes[br])
    return out


def scan_process_and_entropy(w: World, S: dict, an: Analysis, inside):
    E: dict[str, Entropy] = {}
    enc = enclosing_map(w)
    counters = {}

    def uniq(base):
        counters[base] = counters.get(base, 0) + 1
        return f"{base}#{counters[base]}"

    def surv(sid, kind, where, detail):
        if sid not in S:
            S[sid] = Survivor(sid, kind, where, detail)
        return S[sid]

    for m in w.mods.values():
        for n in ast.walk(m.tree):
            f = enc.get(id(n))
            runtime = id(n) in inside and not (f is not None and f.fid in an.import_only)
            loc = frozenset(f.locals | f.outer_locals) if f is not None else frozenset()
            ctx = f.fid if f is not None else f"{m.name}:<module>"

            def site(op):
                return {"site": rel(w, m, n.lineno), "func": ctx, "op": op}

            def write(s, op):
                (s.writers if runtime else s.import_writers).append(site(op))

            if isinstance(n, ast.Call):
                ref = w.resolve(n.func, m, loc)
                if ref in FORBIDDEN_DYNAMIC:
                    raise GenError(f"{m.path}:{n.lineno}: dynamic construct {ref} defeats the scan")
                if ref in PROCESS_GLOBAL_CALLS:
                    obj = PROCESS_GLOBAL_CALLS[ref]
                    kind = "logger_config" if obj.startswith("logging") else "process_global"
                    write(surv(f"process:{obj}", kind, rel(w, m, n.lineno), f"written by {ref}"), f"{ref}()")
                ek = ENTROPY_CALLS.get(ref) if ref else None
                if ref and ek is None:
                    for pre, k in ENTROPY_PREFIXES.items():
                        if ref.startswith(pre) and ref not in PROCESS_GLOBAL_CALLS:
                            ek = k
                if isinstance(n.func, ast.Attribute) and ref is None and n.func.attr in ENTROPY_METHODS:
                    ek = ENTROPY_METHODS[n.func.attr]
                if ek is not None:
                    eid = uniq(f"{ctx}:{ek}:{ref or n.func.attr}")
                    E[eid] = Entropy(eid, ek, rel(w, m, n.lineno), ast.unparse(n)[:80], False)
                # text-mode open()/read_text()/write_text() without encoding=: bytes <-> str through the LOCALE's encoding
                is_open = ref in ("builtins.open", "io.open", "codecs.open") or (isinstance(n.func, ast.Attribute) and (ref is None or ref.startswith("pathlib.")) and n.func.attr in ("open", "read_text", "write_text"))
                if is_open and not any(k.arg == "encoding" for k in n.keywords) and not any(k.arg is None for k in n.keywords):
                    named = ref in ("builtins.open", "io.open", "codecs.open")
                    mode_pos = 1 if named else 0
                    mode = None
                    if n.func.attr in ("read_text", "write_text") if isinstance(n.func, ast.Attribute) and not named else False:
                        mode = "t"
                        enc_pos = 0 if n.func.attr == "read_text" else 1
                    else:
                        enc_pos = 3 if named else 2
                        mexpr = n.args[mode_pos] if len(n.args) > mode_pos else next((k.value for k in n.keywords if k.arg == "mode"), None)
                        if mexpr is None:
                            mode = "r"
                        elif isinstance(mexpr, ast.Constant) and isinstance(mexpr.value, str):
                            mode = mexpr.value
                        else:
                            mode = "?"
                    if "b" not in mode and len(n.args) <= enc_pos and (named or n.func.attr != "open" or not n.args or isinstance(n.args[0], ast.Constant)):
                        rw = "w" if any(c in mode for c in "wax+") else ("?" if mode == "?" else "r")
                        eid = uniq(f"{ctx}:E_locale:open-without-encoding[{rw}]")
                        E[eid] = Entropy(eid, "E_locale", rel(w, m, n.lineno), "text-mode file opened without encoding=: " + ast.unparse(n)[:70], False)
                if isinstance(n.func, ast.Attribute):
                    meth = n.func.attr
                    bref = w.resolve(n.func.value, m, loc)
                    if bref in PROCESS_GLOBAL_OBJECTS:
                        if meth in MUTATORS:
                            write(surv(f"process:{bref}", "process_global", rel(w, m, n.lineno), "interpreter-wide object"), f".{meth}()")
                        elif bref == "os.environ":
                            eid = uniq(f"{ctx}:E_env_read:os.environ.{meth}")
                            E[eid] = Entropy(eid, "E_env_read", rel(w, m, n.lineno), ast.unparse(n)[:80], False)
                    # logger configuration
                    is_getlogger = isinstance(n.func.value, ast.Call) and w.resolve(n.func.value.func, m, loc) == "logging.getLogger"
                    is_logger = (bref in S and S[bref].kind == "module_logger") or is_getlogger
                    if meth in ("addHandler", "addFilter", "removeHandler", "removeFilter") or (meth == "setLevel" and is_logger):
                        if is_getlogger:
                            a = n.func.value.args
                            nm = a[0].value if a and isinstance(a[0], ast.Constant) else (ast.unparse(a[0]) if a else "")
                            lid = f"logger:{nm or 'root'}"
                        elif bref is not None:
                            lid = f"logger:{bref}"
                        else:
                            lid = f"logger:{ctx}:{ast.unparse(n.func.value)[:30]}"
                        ls = surv(lid, "logger_config", rel(w, m, n.lineno), "handler/filter/level configuration of a logger")
                        write(ls, f".{meth}()")
                        if meth in ("addHandler", "addFilter") and n.args:
                            a0 = n.args[0]
                            kref = w.resolve(a0.func, m, loc) if isinstance(a0, ast.Call) else None
                            if kref is None and isinstance(a0, ast.Name) and f is not None:
                                # local variable bound to a constructor call earlier in the function
                                for q in own_body_nodes(f.node):
                                    if isinstance(q, ast.Assign) and any(isinstance(t, ast.Name) and t.id == a0.id for t in q.targets) and isinstance(q.value, ast.Call):
                                        kref = w.resolve(q.value.func, m, loc)
                            fid_ = uniq(f"{lid}.{meth}[{kref or ast.unparse(a0)[:30]}]@{'run' if runtime else 'import'}")
                            fs = surv(fid_, "logger_filter", rel(w, m, n.lineno), f"object registered on {lid}")
                            fs.instance_of = kref
                            if kref in w.classes:
                                for g in class_mutating_methods(w, kref):
                                    fs.writers.append({"site": rel(w, g.mod, g.node.lineno), "func": g.fid, "op": "method mutates the registered object (called by logging on every record)"})
                            else:
                                fs.writers.append({"site": rel(w, m, n.lineno), "func": ctx, "op": f"external handler/filter object {kref}: internal state assumed written"})
            elif isinstance(n, (ast.Assign, ast.AugAssign, ast.Delete, ast.AnnAssign)):
                tg = n.targets if isinstance(n, (ast.Assign, ast.Delete)) else [n.target]
                for t in tg:
                    b = t.value if isinstance(t, ast.Subscript) else t
                    r = w.resolve(b, m, loc) if isinstance(b, (ast.Name, ast.Attribute)) else None
                    if r in PROCESS_GLOBAL_OBJECTS and (isinstance(t, ast.Subscript) or isinstance(t, ast.Attribute)):
                        write(surv(f"process:{r}", "process_global", rel(w, m, n.lineno), "interpreter-wide object"), "assignment")
            elif isinstance(n, ast.Attribute) and isinstance(n.ctx, ast.Load) and w.resolve(n, m, loc) in ENTROPY_ATTRS:
                r = w.resolve(n, m, loc)
                eid = uniq(f"{ctx}:{ENTROPY_ATTRS[r]}:{r}")
                E[eid] = Entropy(eid, ENTROPY_ATTRS[r], rel(w, m, n.lineno), f"reads {r}", False)
            elif isinstance(n, ast.Subscript) and isinstance(n.ctx, ast.Load):
                if w.resolve(n.value, m, loc) == "os.environ":
                    eid = uniq(f"{ctx}:E_env_read:os.environ[]")
                    E[eid] = Entropy(eid, "E_env_read", rel(w, m, n.lineno), ast.unparse(n)[:80], False)
    return E


class SetTyper:
    def __init__(self, w: World):
        self.w = w
        self.set_attrs = set()
        self.set_globals = set()
        self.set_funcs = set()  # function names returning a set
        self.set_params = set()  # (fid, param)
        self.local_sets = {}  # fid -> names

    def is_set(self, e, m, f):
        if isinstance(e, (ast.Set, ast.SetComp)):
            return True
        if isinstance(e, ast.Call):
            ref = self.w.resolve(e.func, m, frozenset(f.locals | f.outer_locals) if f else frozenset())
            if ref in ("builtins.set", "builtins.frozenset"):
                return True
            if isinstance(e.func, ast.Attribute):
                if e.func.attr in SET_RETURNING_METHODS | {"copy"} and self.is_set(e.func.value, m, f):
                    return True
                if ref is None and e.func.attr in self.set_funcs:
                    return True
            if ref in self.w.func_by_id and self.w.func_by_id[ref].name in self.set_funcs:
                return True
            if isinstance(e.func, ast.Name) and ref is None and e.func.id in self.set_funcs:
                return True
            return False
        if isinstance(e, ast.BinOp) and isinstance(e.op, (ast.BitOr, ast.BitAnd, ast.Sub, ast.BitXor)):
            return self.is_set(e.left, m, f) or self.is_set(e.right, m, f)
        if isinstance(e, ast.IfExp):
            return self.is_set(e.body, m, f) or self.is_set(e.orelse, m, f)
        if isinstance(e, ast.Name):
            if f is not None and e.id in self.local_sets.get(f.fid, ()):
                return True
            if f is not None and (f.fid, e.id) in self.set_params:
                return True
            if f is None or e.id not in (f.locals | f.outer_locals):
                r = self.w.resolve(e, m)
                return r in self.set_globals
            return False
        if isinstance(e, ast.Attribute):
            r = self.w.resolve(e, m, frozenset(f.locals | f.outer_locals) if f else frozenset())
            if r is not None:
                return r in self.set_globals
            return e.attr in self.set_attrs
        return False

    def infer(self):
        w = self.w
        enc = enclosing_map(w)
        for rnd in range(5):
            n0 = (len(self.set_attrs), len(self.set_globals), len(self.set_funcs), len(self.set_params), sum(len(v) for v in self.local_sets.values()))
            for m in w.mods.values():
                for n in ast.walk(m.tree):
                    f = enc.get(id(n))
                    if isinstance(n, (ast.Assign, ast.AnnAssign, ast.AugAssign)) and getattr(n, "value", None) is not None:
                        tg = n.targets if isinstance(n, ast.Assign) else [n.target]
                        if self.is_set(n.value, m, f):
                            for t in tg:
                                if isinstance(t, ast.Name):
                                    if f is None:
                                        self.set_globals.add(f"{m.name}.{t.id}")
                                        # class-level? approximated by module scope name; class attrs handled below
                                    else:
                                        self.local_sets.setdefault(f.fid, set()).add(t.id)
                                elif isinstance(t, ast.Attribute):
                                    self.set_attrs.add(t.attr)
                    elif isinstance(n, ast.Return) and n.value is not None and f is not None and self.is_set(n.value, m, f):
                        self.set_funcs.add(f.name)
                    elif isinstance(n, ast.Call):
                        fw = FuncWalk.__new__(FuncWalk)
                        fw.w, fw.mod, fw.local_names = w, m, frozenset(f.locals | f.outer_locals) if f else frozenset()
                        cands, ref = FuncWalk.candidates(fw, n)
                        for i, a in enumerate(n.args):
                            if self.is_set(a, m, f):
                                for g, off in cands:
                                    if i + off < len(g.pos):
                                        self.set_params.add((g.fid, g.pos[i + off]))
                        for k in n.keywords:
                            if k.arg and self.is_set(k.value, m, f):
                                for g, off in cands:
                                    if k.arg in g.params:
                                        self.set_params.add((g.fid, k.arg))
                for c in m.classes.values():
                    for name, binds in c.attrs.items():
                        if any(v is not None and self.is_set(v, m, None) for v, _ in binds):
                            self.set_globals.add(f"{c.cid}.{name}")
                            self.set_attrs.add(name)
                for f in m.funcs:
                    a = f.node.args
                    for p in a.posonlyargs + a.args + a.kwonlyargs:
                        if p.annotation is not None and ast.unparse(p.annotation).split("[")[0].split(".")[-1].lower() in ("set", "frozenset", "abstractset", "mutableset"):
                            self.set_params.add((f.fid, p.arg))
            n1 = (len(self.set_attrs), len(self.set_globals), len(self.set_funcs), len(self.set_params), sum(len(v) for v in self.local_sets.values()))
            if n1 == n0:
                break


def scan_set_iteration(w: World, E: dict):
    st = SetTyper(w)
    st.infer()
    enc = enclosing_map(w)
    counters = {}

    def add(kind, m, f, node, expr, neutral, how):
        ctx = f.fid if f is not None else f"{m.name}:<module>"
        base = f"{ctx}:{kind}:{ast.unparse(expr)[:40]}"
        counters[base] = counters.get(base, 0) + 1
        eid = f"{base}#{counters[base]}"
        E[eid] = Entropy(eid, kind, rel(w, m, node.lineno), how, neutral)

    for m in w.mods.values():
        parents = {}
        for n in ast.walk(m.tree):
            for c in ast.iter_child_nodes(n):
                parents[id(c)] = n
        for n in ast.walk(m.tree):
            f = enc.get(id(n))
            loc = frozenset(f.locals | f.outer_locals) if f else frozenset()
            if isinstance(n, (ast.For, ast.AsyncFor)) and st.is_set(n.iter, m, f):
                add("E_set_iteration", m, f, n, n.iter, False, "for loop over a set-typed expression")
            elif isinstance(n, (ast.ListComp, ast.GeneratorExp, ast.DictComp, ast.SetComp)):
                for g in n.generators:
                    if st.is_set(g.iter, m, f):
                        neutral = isinstance(n, ast.SetComp)
                        how = f"{type(n).__name__} over a set-typed expression"
                        par = parents.get(id(n))
                        if isinstance(par, ast.Call) and par.args and par.args[0] is n:
                            pref = w.resolve(par.func, m, loc)
                            if pref in ORDER_INSENSITIVE_CONSUMERS or (pref == "builtins.sorted" and not any(k.arg == "key" for k in par.keywords)) or (pref in ("builtins.min", "builtins.max") and not par.keywords):
                                neutral = True
                                how += f" consumed by {pref}"
                        add("E_set_iteration", m, f, n, g.iter, neutral, how)
            elif isinstance(n, ast.Call):
                ref = w.resolve(n.func, m, loc)
                args_set = [a for a in n.args if st.is_set(a.value if isinstance(a, ast.Starred) else a, m, f)]
                if ref == "builtins.sorted" and args_set:
                    haskey = any(k.arg == "key" for k in n.keywords)
                    add("E_set_iteration", m, f, n, args_set[0], not haskey, "sorted(set)" + (" with key= (ties keep the set's order)" if haskey else ""))
                elif ref in ORDER_SENSITIVE_CONSUMERS and args_set:
                    if ref in ("builtins.min", "builtins.max") and not n.keywords:
                        continue
                    kind = "E_set_repr" if ref in ("builtins.str", "builtins.repr", "builtins.format", "builtins.print") else "E_set_iteration"
                    add(kind, m, f, n, args_set[0], False, f"{ref}(set)")
                elif isinstance(n.func, ast.Attribute) and ref is None:
                    if n.func.attr == "pop" and not n.args and st.is_set(n.func.value, m, f):
                        add("E_set_pop", m, f, n, n.func.value, False, "set.pop() returns an arbitrary element")
                    elif n.func.attr == "join" and args_set:
                        add("E_set_iteration", m, f, n, args_set[0], False, "str.join(set)")
                    elif n.func.attr in ("extend", "update", "writelines") and args_set and not st.is_set(n.func.value, m, f):
                        add("E_set_iteration", m, f, n, args_set[0], False, f".{n.func.attr}(set) copies in the set's order")
                elif any(isinstance(a, ast.Starred) and st.is_set(a.value, m, f) for a in n.args):
                    a = [a for a in n.args if isinstance(a, ast.Starred) and st.is_set(a.value, m, f)][0]
                    if not (isinstance(n.func, ast.Attribute) and n.func.attr in SET_RETURNING_METHODS):
                        add("E_set_iteration", m, f, n, a.value, False, "*set argument unpacking")
            elif isinstance(n, ast.FormattedValue) and st.is_set(n.value, m, f):
                add("E_set_repr", m, f, n, n.value, False, "f-string renders a set (element order)")
            elif isinstance(n, (ast.List, ast.Tuple)) and isinstance(getattr(n, "ctx", None), ast.Load):
                for x in n.elts:
                    if isinstance(x, ast.Starred) and st.is_set(x.value, m, f):
                        add("E_set_iteration", m, f, n, x.value, False, "[*set] unpacking")
            elif isinstance(n, ast.Assign) and isinstance(n.targets[0], (ast.Tuple, ast.List)) and st.is_set(n.value, m, f):
                add("E_set_iteration", m, f, n, n.value, False, "tuple unpacking of a set")
    return st


# ---------------------------------------------------------------------------
# file-system accesses and the provenance of their paths (E_fs_cwd)
#
# Rule (notes/C11.md "environment sites"): a file-system access is fine when
# its path is PROVABLY derived from
#   (a) a path-carrying command-line option (`args.<dest>` with <dest> on the
#       reviewed list "path_options") or a parameter of a function nobody in
#       the package calls (public entry point: the caller hands in the path), or
#   (b) the package directory (`__file__`, importlib.resources).
# Everything else - a path whose LEADING component is a literal, a bare file
# name (.stem/.name/basename), an option that is a name and not a path
# (--ff), an environment value, or anything the scan cannot interpret - is
# resolved by the OS relative to the process's current working directory (or
# is otherwise supplied by the environment) and is listed as an E_fs_cwd site
# at the place where that value enters.  A path built from a parameter is
# judged at the call sites (transitively), a parameter default at the def.

FS_FUNCS = {
    # ref -> indices of the path arguments
    "builtins.open": (0,), "io.open": (0,), "codecs.open": (0,), "os.open": (0,), "gzip.open": (0,), "bz2.open": (0,),
    "lzma.open": (0,), "os.stat": (0,), "os.lstat": (0,), "os.access": (0,), "os.remove": (0,), "os.unlink": (0,),
    "os.mkdir": (0,), "os.makedirs": (0,), "os.rmdir": (0,), "os.removedirs": (0,), "os.listdir": (0,), "os.scandir": (0,),
    "os.walk": (0,), "os.chmod": (0,), "os.utime": (0,), "os.readlink": (0,), "os.rename": (0, 1), "os.replace": (0, 1),
    "os.link": (0, 1), "os.symlink": (0, 1), "os.truncate": (0,), "os.chdir": (0,),
    "os.path.exists": (0,), "os.path.lexists": (0,), "os.path.isfile": (0,), "os.path.isdir": (0,), "os.path.islink": (0,),
    "os.path.getsize": (0,), "os.path.getmtime": (0,), "os.path.getatime": (0,), "os.path.getctime": (0,),
    "os.path.samefile": (0, 1), "os.path.abspath": (0,), "os.path.realpath": (0,), "os.path.ismount": (0,),
    "glob.glob": (0,), "glob.iglob": (0,), "shutil.copy": (0, 1), "shutil.copy2": (0, 1), "shutil.copyfile": (0, 1),
    "shutil.copytree": (0, 1), "shutil.move": (0, 1), "shutil.rmtree": (0,), "shutil.which": (0,),
    "numpy.loadtxt": (0,), "numpy.load": (0,), "numpy.save": (0,), "numpy.savetxt": (0,), "numpy.genfromtxt": (0,),
    "numpy.fromfile": (0,), "pandas.read_csv": (0,), "pandas.read_table": (0,), "pandas.read_json": (0,),
    "pandas.read_excel": (0,), "pandas.read_pickle": (0,), "xml.sax.parse": (0,), "xml.etree.ElementTree.parse": (0,),
    "xml.dom.minidom.parse": (0,), "logging.FileHandler": (0,), "sqlite3.connect": (0,), "zipfile.ZipFile": (0,),
    "tarfile.open": (0,), "fileinput.input": (0,), "linecache.getline": (0,), "linecache.getlines": (0,),
    "configparser.ConfigParser.read": (0,), "subprocess.run": (0,), "subprocess.Popen": (0,), "subprocess.call": (0,),
    "subprocess.check_output": (0,), "subprocess.check_call": (0,), "os.system": (0,), "os.popen": (0,),
}
FS_KW = {"logging.basicConfig": ("filename",), "subprocess.run": ("cwd",), "subprocess.Popen": ("cwd",)}
FS_PATH_METHODS = {
    "is_file", "exists", "is_dir", "is_symlink", "is_mount", "read_text", "read_bytes", "write_text", "write_bytes",
    "stat", "lstat", "mkdir", "touch", "unlink", "rmdir", "iterdir", "glob", "rglob", "resolve", "absolute", "samefile",
    "chmod", "open", "hardlink_to", "symlink_to", "readlink", "expanduser",
}
FS_PATH_METHODS_1ARG = {"rename", "replace"}  # Path.rename(target) - str.replace takes two arguments
PKG_CALLS = {
    "importlib.resources.files", "importlib.resources.path", "importlib.resources.as_file", "importlib.resources.open_text",
    "importlib.resources.open_binary", "importlib.resources.read_text", "importlib.resources.read_binary",
    "importlib_resources.files", "pkg_resources.resource_filename", "pkg_resources.resource_stream", "pkgutil.get_data",
    "inspect.getfile", "inspect.getsourcefile",
}
ENV_PATH_CALLS = {
    "os.getcwd", "os.getcwdb", "pathlib.Path.cwd", "pathlib.Path.home", "os.path.expanduser", "os.path.expandvars",
    "os.getenv", "tempfile.gettempdir", "tempfile.mkdtemp", "tempfile.mkstemp", "tempfile.mktemp", "os.path.curdir",
}
PATH_JOINERS = {"pathlib.Path", "pathlib.PurePath", "pathlib.PosixPath", "pathlib.PurePosixPath", "os.path.join", "os.fspath", "os.path.normpath", "os.path.normcase", "builtins.str", "os.fsdecode", "os.fsencode"}
PATH_KEEP_DIR = {"os.path.dirname", "os.path.splitext", "os.path.split", "os.path.splitdrive", "os.path.commonpath", "os.path.commonprefix"}
PATH_BARE = {"os.path.basename"}
UNION_CALLS = {
    "builtins.list", "builtins.tuple", "builtins.set", "builtins.frozenset", "builtins.sorted", "builtins.reversed",
    "builtins.iter", "builtins.next", "builtins.min", "builtins.max", "builtins.dict", "builtins.filter", "builtins.map",
    "builtins.zip", "builtins.enumerate", "itertools.chain", "itertools.product", "copy.copy", "copy.deepcopy", "builtins.repr",
    "builtins.format", "builtins.getattr",
}
NONPATH_CALLS = {
    "builtins.len", "builtins.int", "builtins.float", "builtins.bool", "builtins.round", "builtins.abs", "builtins.sum",
    "builtins.range", "builtins.isinstance", "builtins.hasattr", "builtins.any", "builtins.all", "builtins.ord", "builtins.chr",
    "builtins.print", "builtins.type", "builtins.id", "builtins.hash", "builtins.divmod", "builtins.pow", "builtins.callable",
    "builtins.open", "io.open", "io.StringIO", "io.BytesIO", "logging.getLogger",
}
STR_METHODS_KEEP = {
    "upper", "lower", "strip", "lstrip", "rstrip", "title", "capitalize", "casefold", "swapcase", "replace", "format",
    "encode", "decode", "expandtabs", "zfill", "ljust", "rjust", "center", "removeprefix", "removesuffix", "with_suffix",
    "with_name", "with_stem", "resolve", "absolute", "expanduser", "as_posix", "joinpath", "relative_to", "copy", "split",
    "rsplit", "splitlines", "partition", "rpartition", "get", "pop", "items", "values", "keys", "__getitem__", "setdefault",
    "as_uri", "__fspath__", "__str__", "join",
}
PATH_ATTR_KEEP = {"parent", "parents", "anchor", "drive", "root", "parts"}
PATH_ATTR_BARE = {"stem", "name", "suffix", "suffixes"}

T_PKG, T_LIT = ("PKG",), ("LIT",)
GOOD_TAGS = {"PKG", "P", "OPT"}


def anchored(o) -> bool:
    return bool(o) and all(t[0] in GOOD_TAGS for t in o)


def lead(parts):
    """Origins of a path/str built from `parts` in order: the leading
    component decides what a relative remainder is resolved against."""
    parts = [p for p in parts if p is not None]
    for p in parts:
        if not p:
            continue  # contributes nothing (empty string, number, None)
        if anchored(p):
            return set(p)
        break
    out = set()
    for p in parts:
        out |= p
    return out


def collect_arg_dests(w: World):
    dests = {}
    for m in w.mods.values():
        for n in ast.walk(m.tree):
            if isinstance(n, ast.Call) and isinstance(n.func, ast.Attribute) and n.func.attr == "add_argument":
                flags = [a.value for a in n.args if isinstance(a, ast.Constant) and isinstance(a.value, str)]
                dest = None
                for k in n.keywords:
                    if k.arg == "dest" and isinstance(k.value, ast.Constant):
                        dest = k.value.value
                if dest is None and flags:
                    longs = [x for x in flags if x.startswith("--")]
                    pick = longs[0] if longs else flags[0]
                    dest = pick.lstrip("-").replace("-", "_")
                if dest:
                    dests.setdefault(dest, []).append(rel(w, m, n.lineno))
    return dests


class ProvWorld:
    def __init__(self, w: World, dests):
        self.w, self.dests = w, dests
        self.ret = {f.fid: set() for f in w.funcs}
        self.attr = {}  # attribute name -> origins stored under it anywhere
        self.modenv = {}  # "mod.name" -> origins
        self.sinks = {}  # key -> record
        self.bindings = {}  # (callee fid, param) -> {key: (ctx, where, origins, text)}
        self.omitted = set()  # (callee fid, param) omitted by some call
        self.called = set()  # fids with at least one call site in the package
        self.defaults = {}  # (fid, param) -> (origins, where, text)

    def sig(self):
        return (
            tuple(sorted((k, tuple(sorted(v))) for k, v in self.ret.items())),
            tuple(sorted((k, tuple(sorted(v))) for k, v in self.attr.items())),
            tuple(sorted((k, tuple(sorted(v))) for k, v in self.modenv.items())),
        )


class ProvWalk:
    """Flow-sensitive (strong update on straight-line code, weak inside
    branches and loops) evaluation of where path-like values come from."""

    def __init__(self, pw: ProvWorld, f: Func | None, mod: Mod):
        self.pw, self.w, self.f, self.mod = pw, pw.w, f, mod
        self.env = {}
        self.depth = 0
        self.ctx = f.fid if f is not None else f"{mod.name}:<module>"
        if f is not None:
            self.local_names = frozenset(f.locals | f.outer_locals)
            for p in f.params:
                self.env[p] = {("P", f.fid, p)}
        else:
            self.local_names = frozenset()

    # ---- expressions
    def O(self, e):  # noqa: N802, E743
        pw = self.pw
        if e is None:
            return set()
        if isinstance(e, ast.Constant):
            if isinstance(e.value, (str, bytes)) and e.value != "" and e.value != b"":
                return {T_LIT}
            return set()
        if isinstance(e, ast.Name):
            if e.id == "__file__":
                return {T_PKG}
            if e.id in self.env:
                return set(self.env[e.id])
            if self.f is not None and e.id in self.f.locals:
                return set()  # bound later / never to a path-like value
            if self.f is not None and e.id in self.f.outer_locals:
                return {("UNK", f"closure variable {e.id}")}
            ref = self.w.resolve(e, self.mod, self.local_names)
            return self.global_origins(ref, e.id)
        if isinstance(e, ast.Attribute):
            ref = self.w.resolve(e, self.mod, self.local_names)
            if ref is not None and (ref in pw.modenv or ref.rsplit(".", 1)[0] in self.w.mods):
                return self.global_origins(ref, e.attr)
            if ref in ENV_PATH_CALLS:
                return {("ENV", ref)}
            base = self.O(e.value)
            if e.attr in PATH_ATTR_KEEP:
                return base
            out = set()
            if e.attr in PATH_ATTR_BARE and base:
                out.add(("REL", f".{e.attr} of a path (bare file name)"))
            if e.attr in pw.dests:
                out.add(("OPT", e.attr))
            out |= pw.attr.get(e.attr, set())
            if not out and ref is None:
                out.add(("UNK", f"attribute .{e.attr} never assigned in the package"))
            elif not out:
                out.add(("UNK", f"external object {ref}"))
            return out
        if isinstance(e, ast.JoinedStr):
            return lead([self.O(v.value) if isinstance(v, ast.FormattedValue) else self.O(v) for v in e.values])
        if isinstance(e, ast.FormattedValue):
            return self.O(e.value)
        if isinstance(e, ast.BinOp):
            l, r = self.O(e.left), self.O(e.right)
            if isinstance(e.op, (ast.Add, ast.Div)):
                return lead([l, r])
            if isinstance(e.op, ast.Mod):  # "fmt" % values
                return l | r
            return l | r
        if isinstance(e, ast.BoolOp):
            out = set()
            for v in e.values:
                out |= self.O(v)
            return out
        if isinstance(e, ast.IfExp):
            self.O(e.test)
            return self.O(e.body) | self.O(e.orelse)
        if isinstance(e, ast.NamedExpr):
            o = self.O(e.value)
            self.assign(e.target, o)
            return o
        if isinstance(e, (ast.List, ast.Tuple, ast.Set)):
            out = set()
            for x in e.elts:
                out |= self.O(x.value if isinstance(x, ast.Starred) else x)
            return out
        if isinstance(e, ast.Dict):
            out = set()
            for k, v in zip(e.keys, e.values):
                self.O(k)
                out |= self.O(v)
            return out
        if isinstance(e, ast.Subscript):
            self.O(e.slice)
            return self.O(e.value)
        if isinstance(e, ast.Starred):
            return self.O(e.value)
        if isinstance(e, (ast.ListComp, ast.SetComp, ast.GeneratorExp, ast.DictComp)):
            saved = self.depth
            self.depth += 1
            for g in e.generators:
                self.assign(g.target, self.O(g.iter))
                for c in g.ifs:
                    self.O(c)
            if isinstance(e, ast.DictComp):
                self.O(e.key)
                out = self.O(e.value)
            else:
                out = self.O(e.elt)
            self.depth = saved
            return out
        if isinstance(e, ast.Lambda):
            saved = self.depth
            self.depth += 1
            self.O(e.body)
            self.depth = saved
            return set()
        if isinstance(e, ast.Call):
            return self.call(e)
        if isinstance(e, (ast.Compare, ast.UnaryOp)):
            for c in ast.iter_child_nodes(e):
                if isinstance(c, ast.expr):
                    self.O(c)
            return set()
        if isinstance(e, (ast.Await, ast.Yield, ast.YieldFrom)):
            o = self.O(e.value) if e.value is not None else set()
            if self.f is not None and not isinstance(e, ast.Await):
                self.pw.ret[self.f.fid] |= o
            return o
        for c in ast.iter_child_nodes(e):
            if isinstance(c, ast.expr):
                self.O(c)
        return set()

    def global_origins(self, ref, shown):
        pw = self.pw
        if ref is None:
            return {("UNK", f"unresolved name {shown}")}
        if ref in pw.modenv:
            return set(pw.modenv[ref])
        if ref in ENV_PATH_CALLS:
            return {("ENV", ref)}
        if ref in ("os.environ", "os.environb", "sys.argv"):
            return {("ENV", ref)}
        if ref in ("os.curdir", "os.pardir", "os.sep", "os.path.sep", "os.devnull", "os.linesep"):
            return {T_LIT} if ref in ("os.curdir", "os.pardir") else set()
        if ref in self.w.mods or ref in self.w.classes or ref in self.w.func_by_id or ref.startswith("builtins."):
            return set()
        head, _, last = ref.rpartition(".")
        if head in self.w.mods:
            return set()  # module-level name bound to something that is not path-like (seen by the module walk)
        return {("UNK", f"external object {ref}")}

    def super_candidates(self, name):
        f = self.f
        while f is not None and f.cls is None:
            f = f.outer
        if f is None:
            return []
        out, seen = [], set()
        stack = [self.w.classes[r] for r in (self.w.resolve(b, f.cls.mod) for b in f.cls.bases) if r in self.w.classes]
        while stack:
            k = stack.pop()
            if k.cid in seen:
                continue
            seen.add(k.cid)
            if name in k.methods:
                out.append((k.methods[name], 1))
                continue
            stack.extend(self.w.classes[r] for r in (self.w.resolve(b, k.mod) for b in k.bases) if r in self.w.classes)
        return out

    def bind_args(self, call, g: Func, off):
        """[(param, arg expr)] for a call reaching g; omitted params with defaults are recorded."""
        bound = {}
        star = False
        for i, a in enumerate(call.args):
            if isinstance(a, ast.Starred):
                star = True
                continue
            if i + off < len(g.pos):
                bound[g.pos[i + off]] = a
        for k in call.keywords:
            if k.arg is None:
                star = True
            elif k.arg in g.params:
                bound[k.arg] = k.value
        return bound, star

    def call(self, call):
        pw, w = self.pw, self.w
        fw = FuncWalk.__new__(FuncWalk)
        fw.w, fw.mod, fw.local_names = w, self.mod, self.local_names
        cands, ref = FuncWalk.candidates(fw, call)
        if isinstance(call.func, ast.Attribute) and isinstance(call.func.value, ast.Call) and isinstance(call.func.value.func, ast.Name) and call.func.value.func.id == "super":
            # super().m(...): only the base classes of the enclosing class, not every method called m
            cands = self.super_candidates(call.func.attr)
        argo = [self.O(a.value if isinstance(a, ast.Starred) else a) for a in call.args]
        kwo = {k.arg: self.O(k.value) for k in call.keywords}
        recv = None
        meth = None
        if isinstance(call.func, ast.Attribute):
            meth = call.func.attr
            if ref is None or not (ref in w.func_by_id or ref in w.classes):
                recv = self.O(call.func.value)
        elif not isinstance(call.func, ast.Name):
            self.O(call.func)
        where = rel(w, self.mod, call.lineno)
        # --- sinks
        if ref in FS_FUNCS:
            what = ref
            if ref in ("builtins.open", "io.open", "codecs.open"):
                mexpr = call.args[1] if len(call.args) > 1 else next((k.value for k in call.keywords if k.arg == "mode"), None)
                if mexpr is not None:
                    mode = mexpr.value if isinstance(mexpr, ast.Constant) and isinstance(mexpr.value, str) else "?"
                    if mode == "?" or any(c in mode for c in "wax+"):
                        what = f"{ref}[{'write' if mode != '?' else 'mode?'}]"
            for i in FS_FUNCS[ref]:
                if i < len(call.args):
                    self.sink(call, what, argo[i], ast.unparse(call.args[i]))
                elif i == 0 and call.keywords and call.keywords[0].arg in ("file", "path", "name", "filename", "src"):
                    self.sink(call, what, kwo[call.keywords[0].arg], ast.unparse(call.keywords[0].value))
        if ref in FS_KW:
            for kw in FS_KW[ref]:
                if kw in kwo:
                    self.sink(call, f"{ref}({kw}=)", kwo[kw], ast.unparse([k.value for k in call.keywords if k.arg == kw][0]))
        is_pkg_callee = ref in w.func_by_id or ref in w.classes
        if meth is not None and not is_pkg_callee and (ref is None or ref.startswith("pathlib.")):
            if meth in FS_PATH_METHODS or (meth in FS_PATH_METHODS_1ARG and len(call.args) == 1 and not call.keywords):
                # a method of this name on a file object / unrelated class is not a path access:
                # only receivers that are path-like (some origin) or not understood at all are sinks
                r = recv if recv is not None else set()
                own = [g for g, off in cands if off == 1]
                # the package defines a method of this name (e.g. Carboxylic.rename): a call on self / on an
                # object handed in is that method, unless the receiver is visibly a path value
                pathish = any(t[0] in ("PKG", "LIT", "REL", "ENV", "OPT") for t in r)
                if pathish or not own:
                    if meth == "open" and not r:
                        r = {("UNK", f"receiver of .open() not understood: {ast.unparse(call.func.value)[:40]}")}
                    if r:
                        self.sink(call, f"Path.{meth}", r, ast.unparse(call.func.value))
                    if meth in FS_PATH_METHODS_1ARG and argo:
                        self.sink(call, f"Path.{meth}(target)", argo[0], ast.unparse(call.args[0]))
        # --- package callees: record bindings, substitute returns
        result = set()
        for g, off in cands:
            pw.called.add(g.fid)
            bound, star = self.bind_args(call, g, off)
            osub = {}
            for q, a in bound.items():
                o = self.O(a) if a not in call.args else argo[call.args.index(a)]
                osub[q] = o
                key = (self.ctx, where, ast.unparse(a)[:60])
                pw.bindings.setdefault((g.fid, q), {})[key] = (self.ctx, where, set(o), ast.unparse(a)[:60])
            for q in g.params[off:]:
                if q not in bound and not star:
                    pw.omitted.add((g.fid, q))
            if star:
                for q in g.params[off:]:
                    if q not in bound:
                        key = (self.ctx, where, "*args/**kwargs")
                        pw.bindings.setdefault((g.fid, q), {})[key] = (self.ctx, where, {("UNK", "passed through *args/**kwargs")}, "*args/**kwargs")
            if off == 1 and recv is not None and g.pos:
                osub[g.pos[0]] = recv
            for t in pw.ret.get(g.fid, ()):
                if t[0] == "P" and t[1] == g.fid:
                    if t[2] in osub:
                        result |= osub[t[2]]
                    elif (g.fid, t[2]) in pw.defaults:
                        result |= pw.defaults[(g.fid, t[2])][0]
                else:
                    result.add(t)
        if cands:
            return result
        # --- external / builtin callees
        if ref in PKG_CALLS:
            return {T_PKG}
        if ref in ENV_PATH_CALLS:
            return {("ENV", ref)}
        if ref in PATH_JOINERS:
            return lead(argo)
        if ref in PATH_KEEP_DIR:
            return argo[0] if argo else set()
        if ref in PATH_BARE:
            return {("REL", "os.path.basename (bare file name)")} if argo and argo[0] else set()
        if ref in ("os.path.abspath", "os.path.realpath", "os.path.expanduser", "os.path.expandvars", "os.path.relpath"):
            return argo[0] if argo else set()
        if ref == "builtins.getattr" and len(call.args) >= 2 and isinstance(call.args[1], ast.Constant) and isinstance(call.args[1].value, str):
            fake = ast.Attribute(value=call.args[0], attr=call.args[1].value, ctx=ast.Load())
            out = self.O(ast.copy_location(fake, call))
            if len(argo) > 2:
                out |= argo[2]
            return out
        if ref in UNION_CALLS:
            out = set()
            for o in argo:
                out |= o
            for o in kwo.values():
                out |= o
            return out
        if ref in NONPATH_CALLS or (ref is not None and ref.startswith(("math.", "numpy.", "logging.", "re.", "operator.", "argparse.", "xml.", "datetime.", "propka.", "requests.", "pdbx.", "mmcif_pdbx.", "collections.", "itertools.", "functools.", "textwrap.", "string.", "warnings."))):
            return set()
        if meth is not None and (ref is None or not ref.startswith("builtins.")):
            r = recv if recv is not None else set()
            if meth == "format":
                out = set(r)
                for o in argo:
                    out |= o
                for o in kwo.values():
                    out |= o
                return out
            if meth == "join":
                out = set(r)
                for o in argo:
                    out |= o
                return out
            if meth == "joinpath":
                return lead([r] + argo)
            if meth in ("get", "pop", "setdefault"):
                out = set(r)
                for o in argo[1:]:
                    out |= o
                return out
            if meth in ("append", "add", "extend", "insert", "update") and isinstance(call.func.value, ast.Name):
                add = set()
                for o in argo:
                    add |= o
                if add:
                    self.env.setdefault(call.func.value.id, set()).update(add)
                return set()
            if meth in STR_METHODS_KEEP:
                return r
            return set()  # any other method of an object: not a path-like value
        if ref is None:
            return set()
        return {("UNK", f"result of external call {ref}")}

    def sink(self, call, what, origins, text):
        key = (self.ctx, rel(self.w, self.mod, call.lineno), what, text[:60])
        rec = self.pw.sinks.setdefault(key, {"ctx": self.ctx, "where": key[1], "what": what, "text": text[:60], "origins": set(), "end_line": getattr(call, "end_lineno", call.lineno)})
        rec["origins"] |= origins if origins else {("UNK", "path expression not understood")}

    # ---- statements
    def assign(self, t, o, node=None):
        if isinstance(t, ast.Name):
            if self.depth == 0:
                self.env[t.id] = set(o)
            else:
                self.env.setdefault(t.id, set()).update(o)
            if self.f is None:
                self.pw.modenv.setdefault(f"{self.mod.name}.{t.id}", set()).update(o)
            elif t.id in self.f.globals_decl:
                self.pw.modenv.setdefault(f"{self.mod.name}.{t.id}", set()).update(o)
        elif isinstance(t, (ast.Tuple, ast.List)):
            for x in t.elts:
                self.assign(x.value if isinstance(x, ast.Starred) else x, o, node)
        elif isinstance(t, ast.Attribute):
            self.O(t.value)
            if o:
                self.pw.attr.setdefault(t.attr, set()).update(o)
        elif isinstance(t, ast.Subscript):
            self.O(t.slice)
            if isinstance(t.value, ast.Name):
                self.env.setdefault(t.value.id, set()).update(o)
            elif isinstance(t.value, ast.Attribute) and o:
                self.pw.attr.setdefault(t.value.attr, set()).update(o)

    def block(self, body, weak):
        if weak:
            self.depth += 1
        for s in body:
            self.stmt(s)
        if weak:
            self.depth -= 1

    def stmt(self, s):
        if isinstance(s, (ast.FunctionDef, ast.AsyncFunctionDef, ast.ClassDef)):
            return
        if isinstance(s, ast.Assign):
            o = self.O(s.value)
            for t in s.targets:
                self.assign(t, o, s)
        elif isinstance(s, ast.AnnAssign):
            if s.value is not None:
                self.assign(s.target, self.O(s.value), s)
        elif isinstance(s, ast.AugAssign):
            o = self.O(s.value)
            cur = self.O(ast.copy_location(ast.Name(id=s.target.id, ctx=ast.Load()), s)) if isinstance(s.target, ast.Name) else set()
            self.assign(s.target, lead([cur, o]) if isinstance(s.op, (ast.Add, ast.Div)) else cur | o, s)
        elif isinstance(s, (ast.For, ast.AsyncFor)):
            it = self.O(s.iter)
            for _ in range(2):
                self.depth += 1
                self.assign(s.target, it, s)
                self.depth -= 1
                self.block(s.body, True)
            self.block(s.orelse, True)
        elif isinstance(s, ast.While):
            for _ in range(2):
                self.O(s.test)
                self.block(s.body, True)
            self.block(s.orelse, True)
        elif isinstance(s, ast.If):
            self.O(s.test)
            self.block(s.body, True)
            self.block(s.orelse, True)
        elif isinstance(s, (ast.With, ast.AsyncWith)):
            for it in s.items:
                o = self.O(it.context_expr)
                if it.optional_vars is not None:
                    self.assign(it.optional_vars, o, s)
            self.block(s.body, False)
        elif isinstance(s, ast.Try) or type(s).__name__ == "TryStar":
            self.block(s.body, True)
            for h in s.handlers:
                self.block(h.body, True)
            self.block(s.orelse, True)
            self.block(s.finalbody, True)
        elif isinstance(s, ast.Return):
            if s.value is not None and self.f is not None:
                self.pw.ret[self.f.fid] |= self.O(s.value)
        elif isinstance(s, ast.Expr):
            self.O(s.value)
        elif isinstance(s, (ast.Raise, ast.Assert, ast.Delete)):
            for c in ast.iter_child_nodes(s):
                if isinstance(c, ast.expr):
                    self.O(c)
        elif isinstance(s, ast.Match):
            self.O(s.subject)
            for c in s.cases:
                self.block(c.body, True)
        elif isinstance(s, (ast.Global, ast.Nonlocal, ast.Pass, ast.Break, ast.Continue, ast.Import, ast.ImportFrom)):
            pass
        else:
            raise GenError(f"{self.mod.path}:{getattr(s, 'lineno', '?')}: statement {type(s).__name__} not understood")


def describe_tag(t):
    if t[0] == "P":
        return f"parameter {t[2]} of {t[1]}"
    if t[0] == "OPT":
        return f"command-line option {t[1]}"
    if t[0] == "PKG":
        return "package directory"
    if t[0] == "LIT":
        return "string literal"
    return f"{t[0].lower()}: {t[1]}"


def scan_fs_access(w: World, E: dict, path_options: dict):
    dests = collect_arg_dests(w)
    pw = ProvWorld(w, dests)
    for rnd in range(10):
        before = pw.sig()
        pw.sinks, pw.bindings, pw.omitted, pw.called = {}, {}, set(), set()
        for m in w.mods.values():
            wk = ProvWalk(pw, None, m)
            wk.block(m.tree.body, False)
            for c in m.classes.values():
                wk.block([s for s in c.node.body if not isinstance(s, (ast.FunctionDef, ast.AsyncFunctionDef, ast.ClassDef))], False)
        for f in w.funcs:
            # defaults are evaluated in the defining module's context
            a = f.node.args
            pos = a.posonlyargs + a.args
            pairs = list(zip(pos[len(pos) - len(a.defaults) :], a.defaults)) + [(p, d) for p, d in zip(a.kwonlyargs, a.kw_defaults) if d is not None]
            dw = ProvWalk(pw, None, f.mod)
            for p, d in pairs:
                pw.defaults[(f.fid, p.arg)] = (dw.O(d), rel(w, f.mod, d.lineno), ast.unparse(d)[:60])
            wk = ProvWalk(pw, f, f.mod)
            body = f.node.body if isinstance(f.node.body, list) else [ast.Expr(value=f.node.body)]
            wk.block(body, False)
        if pw.sig() == before and rnd > 0:
            break
    else:
        raise GenError("path-provenance analysis did not reach a fixpoint in 10 rounds")

    sites = []  # every file-system access with its verdict (evidence)
    flagged = {}  # (ctx, where, what, why) -> detail
    counters = {}

    def flag(ctx, where, what, tag, chain):
        why = describe_tag(tag)
        lst = flagged.setdefault((ctx, where, what), [])
        txt = f"{why} -> " + " -> ".join(chain)
        if txt not in lst:
            lst.append(txt)

    pverd = {}  # (fid, p) -> [direct verdict words, next params]
    work = []

    def classify(ctx, where, origins, chain, text):
        """one step: verdict words for the tags of a value reaching a path sink, and the parameters it defers to"""
        words, nxt = set(), set()
        for t in sorted(origins):
            if t[0] == "PKG":
                words.add("package-dir")
            elif t[0] == "OPT":
                if t[1] in path_options:
                    words.add(f"option:{t[1]}")
                else:
                    words.add("FLAGGED")
                    flag(ctx, where, chain[-1].split(" at ")[0], ("OPT?", f"option --{t[1]} is not a path-carrying option and reaches a file lookup"), [f"{text} at {where}"] + chain)
            elif t[0] == "P":
                f = w.func_by_id[t[1]]
                if f.is_method and f.pos and t[2] == f.pos[0]:
                    words.add("self")  # attributes of self are judged through the attribute stores
                    continue
                nxt.add((t[1], t[2]))
                if (t[1], t[2]) not in pverd:
                    pverd[(t[1], t[2])] = None
                    work.append(((t[1], t[2]), chain))
            else:
                words.add("FLAGGED")
                flag(ctx, where, chain[-1].split(" at ")[0], t, [f"{text} at {where}"] + chain)
        return words, nxt

    direct = {}
    for key in sorted(pw.sinks):
        rec = pw.sinks[key]
        direct[key] = classify(rec["ctx"], rec["where"], rec["origins"], [f"{rec['what']} at {rec['where']}"], rec["text"])
    while work:
        (fid, p), chain = work.pop(0)
        words, nxt = set(), set()
        binds = pw.bindings.get((fid, p), {})
        sub_chain = [f"{fid}({p})"] + chain
        if not binds and fid not in pw.called:
            words.add(f"entry-parameter:{fid}({p})")
        for bkey in sorted(binds):
            bctx, bwhere, bo, btext = binds[bkey]
            if not bo:
                continue  # None / number / object: not a path value
            a, b = classify(bctx, bwhere, bo, sub_chain, btext)
            words |= a
            nxt |= b
        if (fid, p) in pw.defaults and ((fid, p) in pw.omitted or fid not in pw.called):
            do, dwhere, dtext = pw.defaults[(fid, p)]
            if do:
                a, b = classify(fid, dwhere, do, sub_chain, f"default {dtext}")
                words |= a
                nxt |= b
        pverd[(fid, p)] = [words, nxt]
    changed = True
    while changed:
        changed = False
        for k, (words, nxt) in pverd.items():
            for q in nxt:
                extra = pverd[q][0] - words
                if extra:
                    words |= extra
                    changed = True
    for key in sorted(pw.sinks):
        rec = pw.sinks[key]
        words, nxt = direct[key]
        v = set(words)
        for q in nxt:
            v |= pverd[q][0]
        sites.append({"where": rec["where"], "end_line": rec["end_line"], "func": rec["ctx"], "access": rec["what"], "path": rec["text"], "origins": sorted(describe_tag(t) for t in rec["origins"]), "verdict": sorted(v)})
    for (ctx, where, what), details in sorted(flagged.items()):
        base = f"{ctx}:E_fs_cwd:{what}"
        counters[base] = counters.get(base, 0) + 1
        eid = f"{base}#{counters[base]}"
        E[eid] = Entropy(eid, "E_fs_cwd", where, " || ".join(sorted(details))[:400], False)
    collisions = sorted({f"{g.fid}" for g in w.funcs if g.cls is not None and g.name in FS_PATH_METHODS | FS_PATH_METHODS_1ARG})
    return sites, dests, collisions


# ---------------------------------------------------------------------------
# review list, output


def load_reviewed():
    if not REVIEWED.exists():
        return {}
    try:
        d = json.loads(REVIEWED.read_text())
    except ValueError as e:
        raise GenError(f"{REVIEWED}: {e}")
    ent = d.get("entries", {})
    for k, v in list(ent.items()) + list(d.get("path_options", {}).items()):
        if not isinstance(v, str) or len(v.strip()) < 20:
            raise GenError(f"{REVIEWED}: entry {k!r} has no stated reason")
    return ent


def load_path_options():
    """Command-line options (argparse dests) that carry a file path."""
    if not REVIEWED.exists():
        return {}
    try:
        return dict(json.loads(REVIEWED.read_text()).get("path_options", {}))
    except ValueError as e:
        raise GenError(f"{REVIEWED}: {e}")


def apply_reviewed(S, E, reviewed):
    used = set()
    for s in S.values():
        if s.sid in reviewed:
            s.flows, s.reason = False, reviewed[s.sid]
            used.add(s.sid)
        elif s.instance_of and f"instance-of:{s.instance_of}" in reviewed and s.kind == "logger_filter":
            s.flows, s.reason = False, reviewed[f"instance-of:{s.instance_of}"]
            used.add(f"instance-of:{s.instance_of}")
    for e in E.values():
        if e.eid in reviewed:
            e.flows, e.reason = False, reviewed[e.eid]
            used.add(e.eid)
    return sorted(set(reviewed) - used)


def coq_str(s: str) -> str:
    out = []
    for ch in s:
        if ch == '"':
            out.append('""')
        elif 32 <= ord(ch) <= 126:
            out.append(ch)
        else:
            out.append("?")
    return '"' + "".join(out) + '"'


def emit_coq(repo, S, E) -> str:
    b = lambda x: "true" if x else "false"  # noqa: E731
    L = [
        "(* GENERATED by /verif/gen/survivors.py - do not edit; regenerated on every ./check C11 run. *)",
        "From Coq Require Import String List Bool.",
        "From PV Require Import Model.History.",
        "Import ListNotations.",
        "Local Open Scope string_scope.",
        "",
        "(* id, kind, written_after_import, flows_to_output *)",
        "Definition survivors : list surv := [",
    ]
    rows = [f"  mk_surv {coq_str(s.sid)} K_{s.kind} {b(s.written)} {b(s.flows)}" for s in sorted(S.values(), key=lambda s: s.sid)]
    L.append(";\n".join(rows))
    L.append("].")
    L.append("")
    L.append("(* id, kind, neutralised (sorted()/set-valued consumer), flows_to_output *)")
    L.append("Definition entropy_sites : list esite := [")
    rows = [f"  mk_esite {coq_str(e.eid)} {e.kind} {b(e.neutral)} {b(e.flows)}" for e in sorted(E.values(), key=lambda e: e.eid)]
    L.append(";\n".join(rows))
    L.append("].")
    return "\n".join(L) + "\n"


def generate(repo: Path | None = None):
    repo = Path(repo or os.environ.get("VERIF_REPO", "/repo"))
    w = World(repo)
    S = enumerate_survivors(w)
    an, inside = analyse(w, S)
    E = scan_process_and_entropy(w, S, an, inside)
    st = scan_set_iteration(w, E)
    path_options = load_path_options()
    fs_sites, dests, collisions = scan_fs_access(w, E, path_options)
    for s in S.values():
        if s.kind not in SURV_KINDS:
            raise GenError(f"unknown survivor kind {s.kind}")
    for e in E.values():
        if e.kind not in ENTROPY_KINDS:
            raise GenError(f"unknown entropy kind {e.kind}")
    reviewed = load_reviewed()
    stale = apply_reviewed(S, E, reviewed)
    data = {
        "repo": str(repo),
        "modules": len(w.mods),
        "functions": len(w.funcs),
        "classes": len(w.classes),
        "import_only_functions": sorted(an.import_only),
        "survivors": [
            {
                "id": s.sid, "kind": s.kind, "where": s.where, "detail": s.detail, "written_after_import": s.written,
                "flows_to_output": s.flows, "reviewed_reason": s.reason, "writers": s.writers, "import_writers": s.import_writers,
                "instance_of": s.instance_of,
            }
            for s in sorted(S.values(), key=lambda s: s.sid)
        ],
        "entropy_sites": [
            {"id": e.eid, "kind": e.kind, "where": e.where, "detail": e.detail, "neutralised": e.neutral, "flows_to_output": e.flows, "reviewed_reason": e.reason}
            for e in sorted(E.values(), key=lambda e: e.eid)
        ],
        "set_typed": {"attrs": sorted(st.set_attrs), "globals": sorted(st.set_globals), "functions": sorted(st.set_funcs), "params": sorted(f"{a}({b})" for a, b in st.set_params)},
        "stale_reviewed_keys": stale,
        "fs_access_sites": fs_sites,
        "path_options": {k: {"declared_at": dests.get(k, []), "reason": v} for k, v in sorted(path_options.items())},
        "stale_path_options": sorted(k for k in path_options if k not in dests),
        "fs_method_name_collisions": collisions,
    }
    return emit_coq(repo, S, E), data


def main():
    import argparse

    ap = argparse.ArgumentParser()
    ap.add_argument("--out", default=str(HERE.parent / "coq" / "Generated" / "Survivors.v"))
    ap.add_argument("--json")
    ap.add_argument("--show", action="store_true")
    a = ap.parse_args()
    try:
        text, data = generate()
    except GenError as e:
        print(f"GENERATION FAILED (fail-closed): {e}", file=sys.stderr)
        sys.exit(2)
    Path(a.out).parent.mkdir(parents=True, exist_ok=True)
    if not Path(a.out).exists() or Path(a.out).read_text() != text:
        Path(a.out).write_text(text)
    if a.json:
        Path(a.json).write_text(json.dumps(data, indent=1))
    if a.show:
        for s in data["survivors"]:
            flag = ("W" if s["written_after_import"] else "-") + ("F" if s["flows_to_output"] else "-")
            print(flag, s["kind"], s["id"], "|", s["where"])
            for x in s["writers"][:6]:
                print("      write:", x["site"], x["func"], x["op"])
        for e in data["entropy_sites"]:
            flag = ("N" if e["neutralised"] else "-") + ("F" if e["flows_to_output"] else "-")
            print(flag, e["kind"], e["id"], "|", e["where"], "|", e["detail"])
        for x in data["fs_access_sites"]:
            print("FS", "FLAG" if "FLAGGED" in x["verdict"] else "ok  ", x["where"], x["func"], x["access"], x["path"], "|", x["origins"], "=>", x["verdict"])
        print("set-typed:", data["set_typed"])
        print("import-only:", data["import_only_functions"], "stale:", data["stale_reviewed_keys"])
    print(f"survivors={len(data['survivors'])} entropy_sites={len(data['entropy_sites'])}")


if __name__ == "__main__":
    main()
