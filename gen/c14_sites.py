"""C14: the cell-list call-site table, extracted from the Python source by ast.

For every function of /repo/pdb2pqr that touches the cell list, writes atom
coordinates, creates or removes atoms, or rotates atoms, the table holds one
row  (qualified function name, skeleton)  where the skeleton is the ordered
sequence of the relevant calls with the control flow around them:

    add(x) rem(x) qry(x)          Cells.add_cell / remove_cell / get_near_cells
    assign                        Cells.assign_cells
    newcells                      cells.Cells(...)
    new(name) del(name)           residue.create_atom / remove_atom
    W(x)                          x.x = ...; x.y = ...; x.z = ...   (the three writes in a row)
    Wx(x) Wy(x) Wz(x)             a single coordinate write
    rot(p,a)                      rotate_tetrahedral(p, a, angle)
    dih                           set_dihedral_angle(...)
    call:NAME                     a call of another function of the table (by bare name)
    if{..}else{..} for{..} while{..} try{..} ret brk cont

Line numbers are kept in a second column so a reader can find the call; they
are NOT part of the obligation (a moved function must not break the proof).

Emits coq/Generated/C14Sites.v and coq/Generated/c14_sites.json.
Usable stand-alone (`python gen/c14_sites.py`) and from gen/all.py (collect/emit).
"""

from __future__ import annotations

import ast
import json
import re
import sys
from pathlib import Path

sys.path.insert(0, str(Path(__file__).resolve().parent))
from common import GEN, REPO, GenError, write_if_changed  # noqa: E402

PKG = REPO / "pdb2pqr"

CELL_CALLS = {"add_cell": "add", "remove_cell": "rem", "get_near_cells": "qry"}
PRIM = {"create_atom": "new", "remove_atom": "del"}
# functions that are interesting as callees (bare names); filled in two passes
SEED_CALLEES = {"rotate_tetrahedral", "set_dihedral_angle", "assign_cells"}


def short(node) -> str:
    s = ast.unparse(node)
    s = s.replace("self.routines.cells.", "").replace("self.", "")
    s = s.replace('"', "'")
    return s if len(s) <= 48 else s[:45] + "..."


class Skel(ast.NodeVisitor):
    def __init__(self, callees):
        self.callees = callees
        self.toks: list[str] = []
        self.lines: list[tuple[str, int]] = []

    # -- helpers
    def emit(self, tok, node):
        self.toks.append(tok)
        self.lines.append((tok, getattr(node, "lineno", 0)))

    def block(self, kind, body):
        """tokens of a nested block; '' if it holds nothing relevant"""
        sub = Skel(self.callees)
        for st in body:
            sub.visit(st)
        self.lines += sub.lines
        return sub.toks

    # -- statements
    def visit_FunctionDef(self, node):  # nested defs: skip
        return

    visit_AsyncFunctionDef = visit_FunctionDef
    visit_Lambda = visit_FunctionDef

    def visit_If(self, node):
        self.visit(node.test)
        a = self.block("if", node.body)
        b = self.block("else", node.orelse)
        if relevant(a) or relevant(b):
            t = "if{" + " ".join(a) + "}"
            if b:
                t += "else{" + " ".join(b) + "}"
            self.toks.append(t)

    def loop(self, node, kind):
        a = self.block(kind, node.body)
        if relevant(a):
            self.toks.append(kind + "{" + " ".join(a) + "}")
        b = self.block("else", node.orelse)
        if relevant(b):
            self.toks.append("else{" + " ".join(b) + "}")

    def visit_For(self, node):
        self.visit(node.iter)
        self.loop(node, "for")

    def visit_While(self, node):
        self.visit(node.test)
        self.loop(node, "while")

    def visit_Try(self, node):
        a = self.block("try", node.body)
        hs = []
        for h in node.handlers:
            hs += self.block("except", h.body)
        f = self.block("finally", node.finalbody) + self.block("else", node.orelse)
        if relevant(a) or relevant(hs) or relevant(f):
            self.toks.append("try{" + " ".join(a) + "}except{" + " ".join(hs) + "}" + ("fin{" + " ".join(f) + "}" if f else ""))

    def visit_Return(self, node):
        if node.value is not None:
            self.visit(node.value)
        self.toks.append("ret")

    def visit_Break(self, node):
        self.toks.append("brk")

    def visit_Continue(self, node):
        self.toks.append("cont")

    def visit_Assign(self, node):
        self.visit(node.value)
        for t in node.targets:
            self.target(t, node)

    def visit_AugAssign(self, node):
        self.visit(node.value)
        self.target(node.target, node)

    def visit_AnnAssign(self, node):
        if node.value is not None:
            self.visit(node.value)
        self.target(node.target, node)

    def target(self, t, node):
        if isinstance(t, (ast.Tuple, ast.List)):
            for e in t.elts:
                self.target(e, node)
        elif isinstance(t, ast.Attribute) and t.attr in ("x", "y", "z"):
            self.emit(f"W{t.attr}({short(t.value)})", node)
        elif isinstance(t, ast.Attribute) and t.attr == "cell":
            self.emit(f"Wcell({short(t.value)})", node)
        elif isinstance(t, ast.Attribute) and t.attr == "cells":
            self.emit("setcells", node)

    def visit_Call(self, node):
        # arguments first (evaluation order)
        f = node.func
        if isinstance(f, ast.Attribute):
            self.visit(f.value)
        for a in node.args:
            self.visit(a)
        for k in node.keywords:
            self.visit(k.value)
        name = f.attr if isinstance(f, ast.Attribute) else (f.id if isinstance(f, ast.Name) else None)
        if name is None:
            return
        if name in CELL_CALLS:
            self.emit(f"{CELL_CALLS[name]}({short(node.args[0]) if node.args else ''})", node)
        elif name == "assign_cells":
            self.emit("assign", node)
        elif name == "Cells":
            self.emit("newcells", node)
        elif name in PRIM:
            self.emit(f"{PRIM[name]}({short(node.args[0]) if node.args else ''})", node)
        elif name == "rotate_tetrahedral":
            self.emit(f"rot({short(node.args[0])},{short(node.args[1])})" if len(node.args) >= 2 else "rot(?)", node)
        elif name == "set_dihedral_angle":
            self.emit("dih", node)
        elif name == "setattr" and len(node.args) == 3:
            self.emit(f"setattr({short(node.args[0])},{short(node.args[1])})", node)
        elif name in self.callees:
            self.emit(f"call:{name}", node)


def relevant(toks) -> bool:
    return any(t not in ("ret", "brk", "cont") for t in toks) and bool(toks)


def fold_writes(toks: list[str]) -> list[str]:
    """Wx(a) Wy(a) Wz(a) in a row -> W(a); applied inside nested blocks by regex-free rewriting"""
    out = []
    i = 0
    while i < len(toks):
        t = toks[i]
        if t.startswith("Wx(") and i + 2 < len(toks) and toks[i + 1] == "Wy(" + t[3:] and toks[i + 2] == "Wz(" + t[3:]:
            out.append("W(" + t[3:])
            i += 3
        else:
            out.append(t)
            i += 1
    return out


def fold_text(s: str) -> str:
    import re

    return re.sub(r"Wx\(([^()]*(?:\([^()]*\))?[^()]*)\) Wy\(\1\) Wz\(\1\)", r"W(\1)", s)


def functions(tree, mod):
    """yield (qualname, FunctionDef)"""

    def walk(node, prefix):
        for ch in ast.iter_child_nodes(node):
            if isinstance(ch, ast.ClassDef):
                yield from walk(ch, prefix + ch.name + ".")
            elif isinstance(ch, (ast.FunctionDef, ast.AsyncFunctionDef)):
                yield prefix + ch.name, ch
                yield from walk(ch, prefix + ch.name + ".")

    yield from walk(tree, mod + ".")


# functions that run while a Cells object is live start here (the optimisation
# classes are instantiated through getattr(structures, type_), hence listed)
ROOTS = [
    "debump.Debump.debump_biomolecule",
    "debump.Debump.get_bump_score",
    "hydrogens.HydrogenRoutines.initialize_full_optimization",
    "hydrogens.HydrogenRoutines.initialize_wat_optimization",
    "hydrogens.HydrogenRoutines.optimize_hydrogens",
    "hydrogens.structures.Flip.__init__",
    "hydrogens.structures.Alcoholic.__init__",
    "hydrogens.structures.Water.__init__",
    "hydrogens.structures.Carboxylic.__init__",
    "hydrogens.structures.Generic.__init__",
]
# the window is closed by the next assign_cells; cleanup runs after the last query of the
# optimisation window and is kept in the table to pin that fact
EXTRA = ["hydrogens.HydrogenRoutines.cleanup", "main.non_trivial"]
CELL_TOKS = ("add(", "rem(", "qry(", "assign", "newcells", "setcells", "Wcell(")


def called_names(fn):
    out = set()
    for node in ast.walk(fn):
        if isinstance(node, ast.Call):
            f = node.func
            if isinstance(f, ast.Attribute):
                out.add(f.attr)
            elif isinstance(f, ast.Name):
                out.add(f.id)
    return out


def extract():
    files = sorted(p for p in PKG.rglob("*.py") if "/tests/" not in str(p))
    if not files:
        raise GenError(f"no python files under {PKG}")
    funcs = {}
    classes = {}
    for p in files:
        mod = str(p.relative_to(PKG))[:-3].replace("/", ".")
        if mod.endswith(".__init__"):
            mod = mod[: -len(".__init__")]
        if mod == "__init__":
            mod = "pdb2pqr"
        try:
            tree = ast.parse(p.read_text())
        except SyntaxError as e:
            raise GenError(f"cannot parse {p}: {e}") from e
        for qn, fn in functions(tree, mod):
            funcs[qn] = fn
        for node in ast.walk(tree):
            if isinstance(node, ast.ClassDef):
                classes.setdefault(node.name, []).append(node)
    for r in ROOTS + EXTRA:
        if r not in funcs:
            raise GenError(f"window root {r} not found in the source")
    by_bare = {}
    for qn in funcs:
        by_bare.setdefault(qn.rsplit(".", 1)[1], []).append(qn)
    # class instantiation Name(...) reaches Name.__init__ (any module)
    init_of = {}
    for qn in funcs:
        parts = qn.split(".")
        if parts[-1] == "__init__" and len(parts) >= 2:
            init_of.setdefault(parts[-2], []).append(qn)
    extract.funcs = funcs
    calls = {qn: called_names(fn) for qn, fn in funcs.items()}
    reach = set()
    todo = list(ROOTS)
    while todo:
        q = todo.pop()
        if q in reach:
            continue
        reach.add(q)
        for n in calls[q]:
            for t in by_bare.get(n, []) if n != "__init__" else []:
                if t not in reach:
                    todo.append(t)
            for t in init_of.get(n, []):
                if t not in reach:
                    todo.append(t)

    def skeleton(qn, callees):
        sk = Skel(callees)
        for st in funcs[qn].body:
            sk.visit(st)
        return sk

    def prim_toks(s):
        return [t for t in re.split(r"[{} ]+", s) if t and not t.startswith("call:") and t not in ("ret", "brk", "cont", "if", "else", "for", "while", "try", "except", "fin")]

    callees = set(SEED_CALLEES)
    rows = {}
    for _ in range(8):
        rows = {}
        for qn in sorted(funcs):
            sk = skeleton(qn, callees)
            if not relevant(sk.toks):
                continue
            s = fold_text(" ".join(sk.toks))
            has_cell = any(t.startswith(CELL_TOKS) for t in prim_toks(s))
            if qn in reach or qn in EXTRA or has_cell:
                rows[qn] = (s, sk.lines)
        new = set(SEED_CALLEES)
        for qn, (s, _) in rows.items():
            if prim_toks(s) or "call:" in s:
                new.add(qn.rsplit(".", 1)[1])
        new -= {"__init__", "main", "run"}
        if new == callees:
            break
        callees = new
    # rows that only forward to other rows through generic names and hold nothing themselves stay: they pin the call order
    return rows


def query_use_rows(funcs):
    """For every loop that iterates a variable bound to a get_near_cells result: is the block
    iterated in the statement list where it was queried, after an unconditional query, with no
    other binding of that variable in the function?  (The block used for an atom must have been
    queried for that atom: a query hoisted out of the per-atom loop, or made conditional, fails.)"""
    rows = []

    def is_query(node):
        return isinstance(node, ast.Call) and isinstance(node.func, ast.Attribute) and node.func.attr == "get_near_cells"

    for qn in sorted(funcs):
        fn = funcs[qn]
        binds = {}
        for node in ast.walk(fn):
            if isinstance(node, ast.Assign):
                for t in node.targets:
                    if isinstance(t, ast.Name):
                        binds.setdefault(t.id, []).append(node)
        qvars = {v for v, ns in binds.items() if any(is_query(n.value) for n in ns)}
        if not qvars and not any(is_query(n) for n in ast.walk(fn)):
            continue

        def scan(body):
            for i, st in enumerate(body):
                if isinstance(st, (ast.For, ast.AsyncFor)):
                    it = st.iter
                    if isinstance(it, ast.Name) and it.id in qvars:
                        prev = [b for b in body[:i] if isinstance(b, ast.Assign) and any(isinstance(t, ast.Name) and t.id == it.id for t in b.targets)]
                        ok = bool(prev) and is_query(prev[-1].value) and all(is_query(n.value) for n in binds[it.id])
                        arg = short(prev[-1].value.args[0]) if ok and prev[-1].value.args else "?"
                        rows.append((qn, f"for _ in {it.id} <- qry({arg})", ok))
                    elif is_query(it):
                        rows.append((qn, f"for _ in qry({short(it.args[0]) if it.args else '?'})", True))
                for fld in ("body", "orelse", "finalbody"):
                    sub = getattr(st, fld, None)
                    if isinstance(sub, list) and sub and isinstance(sub[0], ast.stmt):
                        scan(sub)
                for h in getattr(st, "handlers", []) or []:
                    scan(h.body)

        scan(fn.body)
        # a query whose result is neither iterated directly nor bound to an iterated variable is listed too
        used = {r[0] for r in rows}
        if qn not in used and (qvars or any(is_query(n) for n in ast.walk(fn))) and not qn.startswith("cells."):
            rows.append((qn, "query result not iterated in this function", False))
    return rows


def coq_str(s: str) -> str:
    return '"' + s.replace('"', '""') + '"'


def emit_files():
    rows = extract()
    names = sorted(rows)
    body = ";\n ".join(f"({coq_str(n)}, {coq_str(rows[n][0])})" for n in names)
    txt = (
        "(* GENERATED by /verif/gen/c14_sites.py from /repo/pdb2pqr/**/*.py - do not edit.\n"
        "   One row per function that touches the cell list, atom coordinates, atom\n"
        "   creation/removal or rotations: (qualified name, skeleton of those calls\n"
        "   in source order with the control flow around them). *)\n"
        "From Coq Require Import List String.\nImport ListNotations.\nLocal Open Scope string_scope.\n\n"
        "Definition sites : list (string * string) :=\n [" + body + "].\n\n"
        "(* every loop over a get_near_cells block: (function, loop, the block is iterated in the\n"
        "   statement list where it was queried unconditionally, and the variable has no other binding) *)\n"
        "Definition query_use : list (string * string * bool) :=\n ["
        + ";\n ".join(f"({coq_str(a)}, {coq_str(b)}, {'true' if c else 'false'})" for a, b, c in query_use_rows(extract.funcs))
        + "].\n"
    )
    write_if_changed(GEN / "C14Sites.v", txt)
    js = {n: {"skeleton": rows[n][0], "lines": [[t, ln] for t, ln in rows[n][1]]} for n in names}
    js["__query_use__"] = [[a, b, c] for a, b, c in query_use_rows(extract.funcs)]
    write_if_changed(GEN / "c14_sites.json", json.dumps(js, indent=1, sort_keys=True) + "\n")
    return rows


def collect(intern, definition):
    return None


def emit(intern, definition):
    emit_files()


def main(argv=None):
    try:
        rows = emit_files()
    except GenError as e:
        print(f"GENERATOR-ERROR c14_sites: {e}")
        return 1
    if argv and "--show" in argv:
        for n in sorted(rows):
            print(n, "::", rows[n][0])
    return 0


if __name__ == "__main__":
    sys.exit(main(sys.argv[1:]))
