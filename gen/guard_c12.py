#!/usr/bin/env python
"""gen/guard_c12.py - translator for the integrality guard of main.non_trivial (property C12)
   pdb2pqr/main.py, utilities.py, config.py (Python ast)  ->  coq/Generated/GuardC12.v

What is extracted (fail-closed: anything unexpected raises GenError):
  * the guard statement of non_trivial: the top-level `if X: raise ...` whose X is assigned, at top
    level, from a call of `noninteger_charge`; the arguments of that call BEYOND the total
    (positional and keyword), as source text - the tolerance must not be computed from the structure;
  * utilities.noninteger_charge: the default of its tolerance parameter, the text of its error
    expression and of its test;
  * config.CHARGE_ERROR as an exact decimal, scaled by 10^8 (the unit of Model/States.v).
Also returns the statements of the guard block (accumulator initialisation .. raise) so that the
check can execute exactly that code on prescribed residue charges.

Discovered by gen/all.py (collect/emit); called directly by harness/props/c12.py.
"""

from __future__ import annotations

import ast
import os
import sys
from decimal import Decimal
from pathlib import Path

HERE = Path(__file__).resolve().parent
sys.path.insert(0, str(HERE))
from common import GEN, GenError, write_if_changed  # noqa: E402

GUARD_FUNC = "noninteger_charge"
DRIVER = "non_trivial"


def _func(tree, name, path):
    for n in tree.body:
        if isinstance(n, ast.FunctionDef) and n.name == name:
            return n
    raise GenError(f"{path}: function {name} not found")


def _is_guard_call(v):
    return isinstance(v, ast.Call) and ((isinstance(v.func, ast.Name) and v.func.id == GUARD_FUNC) or (isinstance(v.func, ast.Attribute) and v.func.attr == GUARD_FUNC))


def analyse(repo=None) -> dict:
    repo = Path(repo or os.environ.get("VERIF_REPO", "/repo"))
    pkg = repo / "pdb2pqr"
    main_src = (pkg / "main.py").read_text()
    fn = _func(ast.parse(main_src), DRIVER, "main.py")
    body = fn.body
    guards = []
    for i, st in enumerate(body):
        if isinstance(st, ast.If) and isinstance(st.test, ast.Name) and any(isinstance(x, ast.Raise) for x in st.body):
            var = st.test.id
            j = next((j for j in range(i - 1, -1, -1) if isinstance(body[j], ast.Assign) and any(isinstance(t, ast.Name) and t.id == var for t in body[j].targets)), None)
            if j is not None and _is_guard_call(body[j].value):
                guards.append((i, j))
    if len(guards) != 1:
        raise GenError(f"main.{DRIVER}: expected exactly one top-level `if X: raise` with X = {GUARD_FUNC}(...), found {len(guards)}")
    i, j = guards[0]
    call = body[j].value
    if not call.args:
        raise GenError("guard call without a positional total")
    extra = [ast.unparse(a) for a in call.args[1:]] + [f"{k.arg}={ast.unparse(k.value)}" for k in call.keywords]
    total_expr = ast.unparse(call.args[0])
    # block start: walk back to the initialisation of the accumulator handed to the guard
    if not isinstance(call.args[0], ast.Name):
        raise GenError(f"guard total is not a plain name: {total_expr}")
    acc = call.args[0].id
    start = None
    for k in range(j - 1, max(j - 12, -1), -1):
        st = body[k]
        if isinstance(st, ast.Assign) and any(isinstance(t, ast.Name) and t.id == acc for t in st.targets) and isinstance(st.value, ast.Constant):
            start = k
            break
    if start is None:
        raise GenError(f"initialisation `{acc} = <constant>` not found in front of the guard")
    for st in body[start:i]:
        if not isinstance(st, (ast.Assign, ast.AugAssign, ast.For, ast.If, ast.Expr)):
            raise GenError(f"unexpected statement in the guard block at line {st.lineno}: {type(st).__name__}")
    # utilities.noninteger_charge
    ufn = _func(ast.parse((pkg / "utilities.py").read_text()), GUARD_FUNC, "utilities.py")
    params = [a.arg for a in ufn.args.args]
    if len(params) != 2 or len(ufn.args.defaults) != 1:
        raise GenError(f"utilities.{GUARD_FUNC}: signature changed: {params}")
    default_tol = ast.unparse(ufn.args.defaults[0])
    err_assign = next((s for s in ufn.body if isinstance(s, ast.Assign)), None)
    test_if = next((s for s in ufn.body if isinstance(s, ast.If)), None)
    if err_assign is None or test_if is None:
        raise GenError(f"utilities.{GUARD_FUNC}: body changed")
    # config.CHARGE_ERROR
    const = None
    for n in ast.parse((pkg / "config.py").read_text()).body:
        if isinstance(n, ast.Assign) and any(isinstance(t, ast.Name) and t.id == "CHARGE_ERROR" for t in n.targets):
            if not isinstance(n.value, ast.Constant) or not isinstance(n.value.value, (int, float)):
                raise GenError("config.CHARGE_ERROR is not a numeric literal")
            const = Decimal(repr(n.value.value))
    if const is None:
        raise GenError("config.CHARGE_ERROR not found")
    scaled = const * (10 ** 8)
    if scaled != scaled.to_integral_value():
        raise GenError(f"config.CHARGE_ERROR = {const} is not a multiple of 1e-8")
    return {
        "extra_args": extra, "total_expr": total_expr, "default_tol": default_tol,
        "error_expr": ast.unparse(err_assign.value), "test": ast.unparse(test_if.test),
        "charge_error_e8": int(scaled), "block": (body[start].lineno, body[i].end_lineno),
        "block_stmts": body[start:i + 1], "main_path": str(pkg / "main.py"),
    }


def cs(s: str) -> str:
    if any(ord(c) < 32 or ord(c) > 126 for c in s):
        raise GenError(f"not representable as a Coq string: {s!r}")
    return '"' + s.replace('"', '""') + '"'


def to_coq(info: dict) -> str:
    return "\n".join([
        "(* GENERATED by /verif/gen/guard_c12.py from pdb2pqr/main.py, utilities.py, config.py - do not edit. *)",
        "From Coq Require Import String List ZArith.",
        "Import ListNotations.",
        "Local Open Scope string_scope.",
        "",
        f"(* main.non_trivial lines {info['block'][0]}-{info['block'][1]}: <charge_err> = noninteger_charge({info['total_expr']}, <extra>) *)",
        f"Definition guard_extra_args : list string := [{'; '.join(cs(a) for a in info['extra_args'])}].",
        f"Definition guard_default_tol : string := {cs(info['default_tol'])}.",
        f"Definition guard_error_expr : string := {cs(info['error_expr'])}.",
        f"Definition guard_test : string := {cs(info['test'])}.",
        f"Definition charge_error_e8 : Z := {info['charge_error_e8']}%Z.",
        "",
    ])


def generate(repo=None):
    info = analyse(repo)
    return info, to_coq(info)


# gen/all.py protocol
def collect(intern, definition):
    return None


def emit(intern, definition):
    _, text = generate()
    write_if_changed(GEN / "GuardC12.v", text)


if __name__ == "__main__":
    try:
        info, text = generate()
    except GenError as e:
        print(f"gen/guard_c12.py: FAILED (fail-closed): {e}", file=sys.stderr)
        sys.exit(2)
    print("GuardC12.v:", "written" if write_if_changed(GEN / "GuardC12.v", text) else "unchanged", info["extra_args"], info["charge_error_e8"])
