"""Residue-state tables for the Coq model Model/States.v (C02).

The FINITE state space of pdb2pqr's naming/charge logic, regenerated from
/repo on every run:

  amino rows   (class x side-chain state x terminus kind): the ffname the REAL
               set_state code produces on a stub residue (repo side), the same
               name as a structural (prefix, base) term for the Coq model, the
               formal charge (independent chemistry table below), and the
               alternatives of the FINAL atom-name set, derived from the
               topology data (definition templates + runtime patches as
               Biomolecule.apply_patch applies them) plus the documented
               wrinkles (HIS tautomer deletion in set_state, one carboxyl H of
               ASH/GLH kept, N-terminal PRO patched with NEUTRAL-NTERM, ...);
  nucleic rows (nucleotide x {internal, 5', 3', 5'+3'});
  water.

Per force field a small obligation file Generated/StatesFF_<ff>.v is written
(vm_compute over States.v x FF_<ff>.v `built`).

Fail-closed: anything unexpected raises GenError.
"""

from __future__ import annotations

import itertools

from common import FFS, GEN, GenError, P, Z, coq_list, write_if_changed

PSEUDO = ("N+1", "C-1")

AA20 = "ALA ARG ASN ASP CYS GLN GLU GLY HIS ILE LEU LYS MET PHE PRO SER THR TRP TYR VAL".split()

# side-chain states per class: state name -> (formal side-chain charge, routes)
# a route is how the state arises: (PDB residue name, runtime state patches, extra)
# extra: "ss" (CYS.ss_bonded set by update_ss_bridges), "hid"/"hie" (which
# tautomer HIS.set_state leaves for a plain HIS: donor/acceptor flags)
SIDE = {
    "ARG": {"ARG": (+1, [("ARG", [], "")]), "AR0": (0, [("AR0", [], ""), ("ARG", ["AR0"], "")])},
    "ASP": {"ASP": (-1, [("ASP", [], "")]), "ASH": (0, [("ASH", [], ""), ("ASP", ["ASH"], "")])},
    "CYS": {
        "CYS": (0, [("CYS", [], "")]),
        "CYX": (0, [("CYX", [], ""), ("CYS", ["CYX"], "ss")]),
        "CYM": (-1, [("CYM", [], ""), ("CYS", ["CYM"], "")]),
    },
    "GLU": {"GLU": (-1, [("GLU", [], "")]), "GLH": (0, [("GLH", [], ""), ("GLU", ["GLH"], "")])},
    "HIS": {
        "HID": (0, [("HID", [], ""), ("HSD", [], ""), ("HIS", [], "hid")]),
        "HIE": (0, [("HIE", [], ""), ("HSE", [], ""), ("HIS", [], "hie")]),
        "HIP": (+1, [("HIP", [], ""), ("HSP", [], ""), ("HIS", ["HIP"], "")]),
    },
    "LYS": {"LYS": (+1, [("LYS", [], "")]), "LYN": (0, [("LYN", [], ""), ("LYS", ["LYN"], "")])},
    "TYR": {"TYR": (0, [("TYR", [], "")]), "TYM": (-1, [("TYM", [], ""), ("TYR", ["TYM"], "")])},
}
for _c in AA20:
    SIDE.setdefault(_c, {_c: (0, [(_c, [], "")])})

# terminus kinds: (label, is_n_term, is_c_term, requested N patch, requested C patch, formal)
# a one-residue chain is both ends (last four)
TERM = [
    ("I", False, False, None, None, 0),
    ("N", True, False, "NTERM", None, +1),
    ("C", False, True, None, "CTERM", -1),
    ("NN", True, False, "NEUTRAL-NTERM", None, 0),
    ("NC", False, True, None, "NEUTRAL-CTERM", 0),
    ("N+C", True, True, "NTERM", "CTERM", 0),
    ("N+NC", True, True, "NTERM", "NEUTRAL-CTERM", +1),
    ("NN+C", True, True, "NEUTRAL-NTERM", "CTERM", -1),
    ("NN+NC", True, True, "NEUTRAL-NTERM", "NEUTRAL-CTERM", 0),
]

# carboxyl hydrogens of which the finished model keeps exactly one
CARBOXYL_PAIR = {"ASH": ("HD1", "HD2"), "GLH": ("HE1", "HE2")}

NUC = ["DA", "DC", "DG", "DT", "RA", "RC", "RG", "RU"]
NPOS = [("I", False, False), ("5", True, False), ("3", False, True), ("53", True, True)]

PREFIX_OF = {"": "PNone", "N": "PN", "C": "PC", "NEUTRAL-N": "PNN", "NEUTRAL-C": "PNC"}
BASES = AA20 + ["AR0", "ASH", "CYX", "CYM", "GLH", "HID", "HIE", "HIP", "HSD", "HSE", "HSP", "LYN", "TYM"]
PATCHES = ["AR0", "ASH", "CYX", "CYM", "GLH", "HIP", "LYN", "TYM", "NEUTRAL-NTERM", "NEUTRAL-CTERM", "NTERM", "CTERM", "PEPTIDE"]


def coq_patch(p):
    return "P_" + p.replace("-", "_")


def coq_base(b):
    return "B_" + b


def split_name(ffname):
    """'NEUTRAL-NHID' -> ('NEUTRAL-N', 'HID'); fail-closed."""
    for pre in ("NEUTRAL-N", "NEUTRAL-C", "N", "C", ""):
        if ffname.startswith(pre) and ffname[len(pre):] in BASES:
            return pre, ffname[len(pre):]
    raise GenError(f"ffname {ffname!r} does not decompose into prefix + base")


# --------------------------------------------------------------------------
# topology side: reference atom names after runtime patches


def patch_names(ref_names, patch):
    """Biomolecule.apply_patch at the level of atom names (ordered)."""
    names = list(ref_names)
    for a in patch.map:
        if a not in names:
            names.append(a)
    for r in patch.remove:
        if r in names:
            names.remove(r)
    return names


def heavy_n_bonds(definition, resname):
    """number of heavy intra-residue bonds of N in the template (assign_termini's test)."""
    ref = definition.map[resname]
    return len([b for b in ref.map["N"].bonds if b in ref.map and b not in PSEUDO and b[0] != "H"])


def runtime_terminus_patches(definition, resname, npatch, cpatch, nterm, cterm):
    """The patches assign_termini/update_bonds apply for the requested kind."""
    out = []
    if nterm:
        out.append("NEUTRAL-NTERM" if (npatch == "NEUTRAL-NTERM" or heavy_n_bonds(definition, resname) > 1) else "NTERM")
    if cterm:
        out.append(cpatch)
    if not nterm and not cterm:
        out.append("PEPTIDE")
    return out


def final_alternatives(definition, cls, state, resname, patches, extra):
    """Alternatives of the final atom-name set for one route."""
    if resname not in definition.map:
        raise GenError(f"no template {resname}")
    if definition.map[resname].name != cls:
        raise GenError(f"template {resname} is not a {cls}")
    names = [a for a in definition.map[resname].map]
    for p in patches:
        if p not in definition.patches:
            raise GenError(f"no patch {p}")
        names = patch_names(names, definition.patches[p])
    names = [a for a in names if a not in PSEUDO]
    s = set(names)
    if len(s) != len(names):
        raise GenError(f"duplicate atom names for {resname}+{patches}")
    if cls == "HIS" and state != "HIP":
        # HIS.set_state deletes HE2 (HID) or HD1 (HIE) when both are there
        if extra == "hid":
            s.discard("HE2")
        elif extra == "hie":
            s.discard("HD1")
        want = {"HID": ("HD1", "HE2"), "HIE": ("HE2", "HD1")}[state]
        if want[0] not in s or want[1] in s:
            raise GenError(f"route {resname}+{patches}+{extra} does not give {state}: {sorted(s)}")
    if cls == "HIS" and state == "HIP" and not {"HD1", "HE2"} <= s:
        raise GenError("HIP route without both ring hydrogens")
    if state in CARBOXYL_PAIR:
        a, b = CARBOXYL_PAIR[state]
        if not {a, b} <= s:
            raise GenError(f"{state} template lacks {a}/{b}")
        # optimisation (Carboxylic) or HydrogenRoutines.cleanup keeps exactly one
        return [frozenset(s - {a}), frozenset(s - {b})]
    if state in ("ASP", "GLU") and (s & {"HD1", "HD2", "HE1"} if state == "ASP" else s & {"HE1", "HE2"}):
        raise GenError(f"{state} carries a carboxyl hydrogen")
    if state in ("CYX", "CYM") and "HG" in s:
        raise GenError(f"{state} route keeps HG")
    if state == "CYS" and "HG" not in s:
        raise GenError("CYS route without HG")
    return [frozenset(s)]


# --------------------------------------------------------------------------
# repo side: ffname through the real set_state code on stub residues


def pdb_atom_line(serial, name, resname, record="ATOM"):
    nm = name if len(name) == 4 else " " + name
    return f"{record:<6s}{serial:>5d} {nm:<4s} {resname:>3s} A   1       0.000   0.000   0.000  1.00  0.00"


def make_stub(definition, klass, resname, atom_names):
    from pdb2pqr import pdb as ppdb

    recs = [ppdb.ATOM(pdb_atom_line(i + 1, a, resname)) for i, a in enumerate(atom_names)]
    for r, a in zip(recs, atom_names):
        if r.name != a or r.res_name != resname:
            raise GenError(f"stub atom line did not parse back: {a!r} -> {r.name!r}")
    res = klass(recs, definition.map[resname])
    res.rename_residue(resname)
    return res


def real_amino_ffname(definition, cls, resname, atom_names, patches, nterm, cterm, ss=False, his=None):
    """Run aa.<cls>.set_state on a stub with the given descriptor.
    his = (nd1_donor, nd1_acceptor, ne2_donor, ne2_acceptor) or None.
    Returns (ffname | 'TypeError', has HD1 after, has HE2 after)."""
    from pdb2pqr import aa

    res = make_stub(definition, getattr(aa, cls), resname, atom_names)
    res.patches = list(patches)
    res.is_n_term = True if nterm else 0
    res.is_c_term = True if cterm else 0
    if cls == "CYS":
        res.ss_bonded = True if ss else 0
    if his is not None:
        for an, (don, acc) in (("ND1", his[0:2]), ("NE2", his[2:4])):
            at = res.get_atom(an)
            at.hdonor, at.hacceptor = don, acc
    try:
        res.set_state()
    except TypeError:
        return "TypeError", res.has_atom("HD1"), res.has_atom("HE2")
    return res.ffname, res.has_atom("HD1"), res.has_atom("HE2")


def real_nucleic_ffname(definition, resname, atom_names, five, three):
    from pdb2pqr import na

    ref = definition.map[resname]
    klass = getattr(na, ref.name) if ref.name != resname else getattr(na, resname)
    res = make_stub(definition, klass, resname, atom_names)
    res.is5term = True if five else 0
    res.is3term = True if three else 0
    res.set_state()
    return res.ffname


# (ND1.hdonor, ND1.hacceptor, NE2.hdonor, NE2.hacceptor) as Residue.set_donors_acceptors derives
# them from the hydrogens present (donor iff an H is bonded, else acceptor), or as the
# optimisation leaves them for a plain HIS it turns into HIE
def his_flags(resname, extra, pre):
    if extra == "hie":
        return (False, True, True, False)
    hd1, he2 = "HD1" in pre, "HE2" in pre
    return (hd1, not hd1, he2, not he2)


# --------------------------------------------------------------------------
# the tables


def amino_rows(definition):
    rows = []
    for cls in AA20:
        for state, (qside, routes) in SIDE[cls].items():
            for (tlabel, nterm, cterm, npatch, cpatch, qterm) in TERM:
                alts = []
                descs = []
                names = set()
                for (resname, spatches, extra) in routes:
                    tp = runtime_terminus_patches(definition, resname, npatch, cpatch, nterm, cterm)
                    if cls == "PRO" and nterm and npatch == "NEUTRAL-NTERM":
                        # same patches, same name, same atoms as the plain N row: the
                        # requested neutral N-terminus does not exist for PRO
                        continue
                    patches = tp + spatches
                    ra = final_alternatives(definition, cls, state, resname, patches, extra)
                    # atoms the stub carries when set_state runs (before the HIS deletion)
                    pre = [a for a in definition.map[resname].map]
                    for p in patches:
                        pre = patch_names(pre, definition.patches[p])
                    pre = [a for a in pre if a not in PSEUDO]
                    his = his_flags(resname, extra, pre) if cls == "HIS" else None
                    ff, hd1, he2 = real_amino_ffname(definition, cls, resname, pre, patches, nterm, cterm, ss=(extra == "ss"), his=his)
                    if ff == "TypeError":
                        raise GenError(f"set_state raised TypeError for {cls}/{resname}/{patches}")
                    names.add(ff)
                    if cls == "HIS":
                        for alt in ra:
                            if (("HD1" in alt), ("HE2" in alt)) != (hd1, he2):
                                raise GenError(f"HIS route {resname}+{patches}: set_state left HD1={hd1} HE2={he2}, table says {sorted(alt)}")
                    for alt in ra:
                        if alt not in alts:
                            alts.append(alt)
                    descs.append({"cls": cls, "name": resname, "nterm": nterm, "cterm": cterm, "patches": patches, "ss": extra == "ss",
                                  "hg": "HG" in pre, "hd1": "HD1" in pre, "he2": "HE2" in pre, "his": his or (False,) * 4})
                if not descs:
                    continue
                if len(names) != 1:
                    raise GenError(f"routes of {cls}/{state}/{tlabel} give different ffnames: {sorted(names)}")
                ffname = names.pop()
                pre_, base_ = split_name(ffname)
                formal = qside + qterm
                if cls == "PRO" and nterm:
                    # N-terminal PRO: NEUTRAL-NTERM patch = two hydrogens on the ring N = charged
                    formal = qside + 1 + (qterm - (1 if npatch == "NTERM" else 0))
                rows.append({"cls": cls, "state": state, "term": tlabel, "ffname": ffname, "prefix": pre_, "base": base_,
                             "formal": formal, "alts": alts, "descs": descs, "both": nterm and cterm})
    return rows


def valence_formal(cls, atoms, ffbase):
    """Independent cross-check of the formal charge from the protons present."""
    q = 0
    if "H2" in atoms:  # N-terminus
        nh = len({"H", "H2", "H3"} & atoms)
        heavy = 2 if cls == "PRO" else 1
        if nh + heavy == 4:
            q += 1
        elif nh + heavy != 3:
            raise GenError(f"N-terminus of {cls} with {nh} hydrogens")
    if "OXT" in atoms and "HO" not in atoms:
        q -= 1
    if cls == "ASP":
        q += 0 if atoms & {"HD1", "HD2"} else -1
    elif cls == "GLU":
        q += 0 if atoms & {"HE1", "HE2"} else -1
    elif cls == "HIS":
        q += 1 if {"HD1", "HE2"} <= atoms else 0
    elif cls == "LYS":
        q += 1 if {"HZ1", "HZ2", "HZ3"} <= atoms else 0
    elif cls == "ARG":
        q += 1 if {"HE", "HH11", "HH12", "HH21", "HH22"} <= atoms else 0
    elif cls == "TYR":
        q += 0 if "HH" in atoms else -1
    elif cls == "CYS":
        q += 0 if ("HG" in atoms or ffbase == "CYX") else -1
    return q


def nucleic_rows(definition):
    rows = []
    for base in NUC:
        for (plabel, five, three) in NPOS:
            names = [a for a in definition.map[base].map]
            patches = []
            if five:
                patches.append("5TERM")
            if three:
                patches.append("3TERM")
            for p in patches:
                names = patch_names(names, definition.patches[p])
            s = frozenset(names)
            ff = real_nucleic_ffname(definition, base, names, five, three)
            if ff != base + ("5" if five else "") + ("3" if three else ""):
                raise GenError(f"nucleic set_state gave {ff} for {base} {plabel}")
            alts = [s]
            if {"O1P", "O2P"} <= s:
                # PDB v3 inputs keep OP1/OP2 (no altname in NA.xml; num_missing_heavy accepts them)
                alts.append(frozenset((s - {"O1P", "O2P"}) | {"OP1", "OP2"}))
            phosphate = "P" in s
            rows.append({"base": base, "pos": plabel, "ffname": ff, "alts": alts, "phosphate": phosphate, "five": five, "three": three})
            # pre-patched definition templates, where they exist, must agree
            if ff in definition.map and frozenset(definition.map[ff].map) != s:
                raise GenError(f"definition template {ff} differs from runtime patching of {base}")
    return rows


def cross_check_templates(definition, rows):
    """final alternatives vs the pre-patched definition template named like the ffname."""
    for r in rows:
        if r["both"]:
            continue  # one-residue chain: named N* but carries the C-terminal atoms too
        if r["ffname"] not in definition.map:
            raise GenError(f"no definition template for ffname {r['ffname']}")
        tpl = frozenset(a for a in definition.map[r["ffname"]].map if a not in PSEUDO)
        allowed = set()
        if r["state"] in CARBOXYL_PAIR:
            allowed |= set(CARBOXYL_PAIR[r["state"]])
        if r["cls"] == "PRO" and r["term"] == "N":
            allowed |= {"H3"}  # template NPRO = PRO+NTERM (H,H2,H3); runtime patch is NEUTRAL-NTERM (H,H2)
        for alt in r["alts"]:
            if not alt <= tpl or not (tpl - alt) <= allowed:
                raise GenError(f"{r['ffname']}: final atoms {sorted(alt)} vs template {sorted(tpl)} differ beyond the documented wrinkles")
            vq = valence_formal(r["cls"], set(alt), r["base"])
            if vq != r["formal"]:
                raise GenError(f"{r['cls']}/{r['state']}/{r['term']}: state table formal {r['formal']} but protons say {vq}")


def water_row(definition):
    if list(definition.map["WAT"].map) != ["O", "H1", "H2"]:
        raise GenError("WAT template changed")
    return {"ffname": "WAT", "alts": [frozenset(["O", "H1", "H2"])], "formal": 0}


_CACHE = {}


def tables(definition):
    if "t" not in _CACHE:
        a = amino_rows(definition)
        cross_check_templates(definition, a)
        n = nucleic_rows(definition)
        w = water_row(definition)
        _CACHE["t"] = (a, n, w)
    return _CACHE["t"]


def collect(intern, definition):
    a, n, w = tables(definition)
    for r in a + n + [w]:
        intern.add(r["ffname"])
        for alt in r["alts"]:
            for x in alt:
                intern.add(x)
    for b in BASES:
        for pre in PREFIX_OF:
            intern.add(pre + b)
    for b in NUC:
        for suf in ("", "5", "3", "53"):
            intern.add(b + suf)


# --------------------------------------------------------------------------
# emit


def b(x):
    return "true" if x else "false"


def coq_adesc(d):
    pl = coq_list((coq_patch(p) for p in d["patches"]), 12)
    h = d["his"]
    return (f"mkad C_{d['cls']} {coq_base(d['name'])} {b(d['nterm'])} {b(d['cterm'])} {pl} {b(d['ss'])} {b(d['hg'])} "
            f"{b(d['hd1'])} {b(d['he2'])} {b(h[0])} {b(h[1])} {b(h[2])} {b(h[3])}")


def coq_alts(alts, I):
    return coq_list((coq_list((P(I(x)) for x in sorted(alt)), 16) for alt in alts), 1)


def emit(intern, definition):
    I = intern
    a, n, w = tables(definition)
    arows = []
    for k, r in enumerate(a):
        arows.append(
            f"mkarow {k}%nat C_{r['cls']} {coq_base(r['state'])} T_{r['term'].replace('+', '_')} ({PREFIX_OF[r['prefix']]}, {coq_base(r['base'])}) {P(I(r['ffname']))} {Z(r['formal'])}\n"
            f"  {coq_list((coq_adesc(d) for d in r['descs']), 1)}\n  {coq_alts(r['alts'], I)}"
        )
    nrows = []
    for r in n:
        nrows.append(
            f"mknrow N_{r['base']} {b(r['five'])} {b(r['three'])} {P(I(r['ffname']))} {b(r['phosphate'])}\n  {coq_alts(r['alts'], I)}"
        )
    name_ids = []
    for bs in BASES:
        for pre, cp in PREFIX_OF.items():
            name_ids.append(f"(({cp}, {coq_base(bs)}), {P(I(pre + bs))})")
    nname_ids = []
    for bs in NUC:
        for (plabel, five, three) in NPOS:
            nname_ids.append(f"((N_{bs}, {b(five)}, {b(three)}), {P(I(bs + ('5' if five else '') + ('3' if three else '')))})")
    txt = f"""(* GENERATED by /verif/gen/states.py from pdb2pqr's topology data and the real set_state
   code run on stub residues - do not edit *)
From Coq Require Import ZArith List PArith Bool.
From PV Require Import Model.ForceField Model.States.
Import ListNotations.

(* interned id (Generated/names.json) of every structural amino name prefix+base *)
Definition name_ids : list (sname * id) :=
 {coq_list(name_ids, 3)}.

Definition nname_ids : list (nname * id) :=
 {coq_list(nname_ids, 3)}.

(* amino-acid state rows: key, class, side-chain state, terminus kind, the name the REAL
   set_state produced (structural + interned), formal charge, the descriptors (routes) that
   reach the state, alternatives of the final atom-name set *)
Definition arows : list arow :=
 {coq_list(arows, 1)}.

(* nucleotide rows: base, 5' flag, 3' flag, ffname, phosphate present, final atom sets *)
Definition nrows : list nrow :=
 {coq_list(nrows, 1)}.

Definition wat_id : id := {P(I('WAT'))}.
Definition wat_atoms : list id := {coq_list((P(I(x)) for x in sorted(w['alts'][0])), 8)}.

(* the model's ffname_of agrees with the real set_state on every route descriptor, and the
   structural name renders to the interned id *)
Theorem arows_names_ok : forallb (arow_name_ok name_ids) arows = true.
Proof. vm_compute. reflexivity. Qed.

Theorem nrows_names_ok : forallb (nrow_name_ok nname_ids) nrows = true.
Proof. vm_compute. reflexivity. Qed.
"""
    write_if_changed(GEN / "States.v", txt)
    for ff in FFS:
        t = f"""(* GENERATED by /verif/gen/states.py - per force field obligations of C02 - do not edit *)
From Coq Require Import ZArith List PArith Bool.
From PV Require Import Model.ForceField Model.States.
From PV Require Generated.States Generated.FF_{ff}.
Import ListNotations.

Definition built : ffmap := FF_{ff}.built.

(* keys of amino rows excluded from the charge statement (genuine findings, known/C02.json) *)
Definition known_exceptions : list nat := {coq_list((f'{k}%nat' for k in exception_keys(a, ff)), 12)}.

(* states that are not fully parameterised in this force field (no alternative resolves) *)
Definition skipped : list nat := Eval vm_compute in skipped_rows built States.arows.
Definition covered : list nat := Eval vm_compute in covered_rows built States.arows.
Definition nucleic_covered : list (nbase * bool * bool) := Eval vm_compute in covered_nrows built States.nrows.

(* TOL = 1e-3 e is pdb2pqr's own tolerance; the _exact variants (tolerance 0) feed the
   all-sizes total/strand theorems *)
(* the excluded rows are exactly the states named here *)
Definition exception_names : list sname := {coq_list(exception_names(a, ff), 6)}.
Theorem exceptions_named : check_exception_names known_exceptions exception_names States.arows = true.
Proof. vm_compute. reflexivity. Qed.

Theorem state_charge : check_arows TOL built known_exceptions States.arows = true.
Proof. vm_compute. reflexivity. Qed.

Theorem state_exact : check_arows 0 built known_exceptions States.arows = true.
Proof. vm_compute. reflexivity. Qed.

Theorem strand_facts : check_strand TOL true built States.nrows = true.
Proof. vm_compute. reflexivity. Qed.

Theorem strand_exact : check_strand 0 false built States.nrows = true.
Proof. vm_compute. reflexivity. Qed.

Theorem water_neutral : check_water 0 built States.wat_id States.wat_atoms = true.
Proof. vm_compute. reflexivity. Qed.

Theorem round4_facts : check_round4 built States.nrows = true.
Proof. vm_compute. reflexivity. Qed.
{neutral_block(ff)}"""
        write_if_changed(GEN / f"StatesFF_{ff}.v", t)


# rows excluded per force field, by (class, state, terminus kind): filled in only for
# genuine, recorded findings (known/C02.json)
#   C02-F1  PARSE.names overlays the generic neutral C-terminal backbone BKC (N -0.4, H +0.4,
#           CA 0) on PRO, which has no amide H and keeps CD +0.28: NEUTRAL-CPRO sums to -0.12
KNOWN_EXCEPTIONS = {"PARSE": [("PRO", "PRO", "NC")]}


def neutral_block(ff):
    """PARSE is the only force field main.check_options lets --neutraln/--neutralc through for."""
    if ff == "PARSE":
        return """
(* number of (charged, neutral) state pairs both fully parameterised *)
Definition neutral_pairs : nat := Eval vm_compute in
  List.length (filter (fun r => is_neutral_name (ar_name r) && row_resolves built r && negb (mem_nat (ar_key r) known_exceptions)) States.arows).

Theorem neutral_shift : check_neutral_shift built known_exceptions States.arows = true.
Proof. vm_compute. reflexivity. Qed.
"""
    return """
Theorem neutral_absent : check_neutral_absent built States.arows = true.
Proof. vm_compute. reflexivity. Qed.
"""


def exception_names(arows, ff):
    out = []
    for k in exception_keys(arows, ff):
        r = arows[k]
        nm = f"({PREFIX_OF[r['prefix']]}, {coq_base(r['base'])})"
        if nm not in out:
            out.append(nm)
    return out


def exception_keys(arows, ff):
    out = []
    for (c, s, t) in KNOWN_EXCEPTIONS.get(ff, []):
        ks = [k for k, r in enumerate(arows) if (r["cls"], r["state"], r["term"]) == (c, s, t)]
        if len(ks) != 1:
            raise GenError(f"known exception {(c, s, t)} does not name exactly one state row")
        out.append(ks[0])
    return out


# --------------------------------------------------------------------------
# debugging aid: python -m gen/states.py prints the per-force-field sums


def _debug():
    import logging
    import sys
    from decimal import Decimal

    logging.getLogger().setLevel(logging.ERROR)
    import common
    from pdb2pqr import forcefield

    d = common.load_definition()
    a, n, w = tables(d)
    print(len(a), "amino rows;", len(n), "nucleic rows")
    for ff in FFS:
        F = forcefield.Forcefield(ff, d, None, None)

        def total(ffname, alt):
            t = Decimal(0)
            for x in alt:
                q, r = F.get_params(ffname, x)
                if q is None or r is None:
                    return None
                t += Decimal(repr(q))
            return t

        cov = bad = 0
        skipped = []
        for r in a:
            sums = [total(r["ffname"], alt) for alt in r["alts"]]
            if all(s is None for s in sums):
                skipped.append(f"{r['cls']}/{r['state']}/{r['term']}")
                continue
            cov += 1
            for s, alt in zip(sums, r["alts"]):
                if s is not None and abs(s - r["formal"]) > Decimal("0.001"):
                    bad += 1
                    print(f"  {ff}: {r['ffname']} {r['cls']}/{r['state']}/{r['term']} sum {s} formal {r['formal']}")
        print(ff, "covered", cov, "bad", bad, "skipped", len(skipped))
        if "-v" in sys.argv:
            print("   skipped:", " ".join(skipped))
        for r in n:
            sums = [total(r["ffname"], alt) for alt in r["alts"]]
            if "-v" in sys.argv:
                print("   ", r["ffname"], sums)
        print("   WAT", total("WAT", w["alts"][0]))


if __name__ == "__main__":
    _debug()
