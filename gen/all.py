"""Run every table generator: /verif/coq/Generated/*.v from /repo's current tree.
Usage: python gen/all.py [--only ff,topology,...]   (exit 1 + message on GenError)"""
import importlib
import sys
import traceback
from pathlib import Path

HERE = Path(__file__).resolve().parent
sys.path.insert(0, str(HERE))
import common  # noqa: E402


def main():
    only = None
    if "--only" in sys.argv:
        only = set(sys.argv[sys.argv.index("--only") + 1].split(","))
    rc = 0
    # table generators sharing one name interner
    # ff_tables and topology first, then any other gen/*.py that defines collect()+emit()
    cand = ["ff_tables", "topology"] + sorted(
        f.stem for f in HERE.glob("*.py") if f.stem not in ("ff_tables", "topology", "all", "common", "stages", "survivors")
    )
    shared = []
    for m in cand:
        if not (HERE / f"{m}.py").exists():
            continue
        src = (HERE / f"{m}.py").read_text()
        if "def collect(" in src and "def emit(" in src:
            shared.append(m)
    # --only restricts what is EMITTED; collection always covers every table generator so ids are stable
    if shared:
        failed = []
        try:
            definition = common.load_definition()
        except Exception as e:
            traceback.print_exc()
            print(f"GENERATOR-ERROR tables: cannot load definitions: {type(e).__name__}: {e}")
            return 1
        intern = common.Interner()
        mods = []
        for nm in shared:
            try:
                m = importlib.import_module(nm)
                m.collect(intern, definition)
                mods.append((nm, m))
            except Exception as e:
                traceback.print_exc()
                print(f"GENERATOR-ERROR {nm} (collect): {type(e).__name__}: {e}")
                failed.append(nm)
        intern.freeze()
        common.save_json("names.json", intern.ids)
        for nm, m in mods:
            if only is None or nm in only:
                try:
                    m.emit(intern, definition)
                except Exception as e:
                    traceback.print_exc()
                    print(f"GENERATOR-ERROR {nm} (emit): {type(e).__name__}: {e}")
                    failed.append(nm)
        if any(only is None or nm in only for nm in failed):
            rc = 1
    # stand-alone generators (each has main())
    for m in ("stages", "survivors"):
        if (HERE / f"{m}.py").exists() and (only is None or m in only):
            try:
                mod = importlib.import_module(m)
                import inspect

                if hasattr(mod, "main"):
                    r = mod.main([]) if len(inspect.signature(mod.main).parameters) else mod.main()
                else:
                    r = 0
                if r:
                    rc = 1
            except SystemExit as e:
                if e.code:
                    print(f"GENERATOR-ERROR {m}: exit {e.code}")
                    rc = 1
            except Exception as e:
                traceback.print_exc()
                print(f"GENERATOR-ERROR {m}: {type(e).__name__}: {e}")
                rc = 1
    return rc


if __name__ == "__main__":
    sys.exit(main())
