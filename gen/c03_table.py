"""C03 tables: Generated/C03Table.v (patch add/remove lists with the set of patches that
are applied at run time, and the protocol instances the closure proofs run on) and the
operation monitor shared with harness/props/c03.py.

Stand-alone on purpose (gen/all.py must not pick it up): the entry point is generate().
Everything is regenerated from the working tree of /repo (VERIF_REPO) on every run:

* patches      pdb2pqr.io.get_definitions().patches (atom names as strings);
* runtime      the patch names passed as string literals to apply_patch(...) anywhere in
               pdb2pqr/*.py (ast scan; a non-literal argument aborts generation);
* instances    for every optimisable residue type x chain position x terminus charge
               option: the atom names of the residue at the moment its optimisation object
               is constructed and the protocol parameters (moveable names, hydrogen name,
               carboxyl hydrogens), observed on builder peptides with the monitor below.
"""

from __future__ import annotations

import ast
import contextlib
import os
import sys
from pathlib import Path

VERIF = Path(__file__).resolve().parent.parent
REPO = Path(os.environ.get("VERIF_REPO", "/repo"))
GEN = VERIF / "coq" / "Generated"
for p in (str(REPO), str(VERIF)):
    if p not in sys.path:
        sys.path.insert(0, p)


class GenError(Exception):
    pass


def cs(s: str) -> str:
    if any(ord(c) < 32 or ord(c) > 126 for c in s):
        raise GenError(f"non-ascii name {s!r}")
    return '"' + s.replace('"', '""') + '"'


def cl(items) -> str:
    return "[" + "; ".join(items) + "]"


# --------------------------------------------------------------------------
# monitor


class Call:
    """One unit call of a protocol method on one object."""

    __slots__ = ("method", "arg", "hl_before", "fixed_before", "ops", "ret", "names_after")

    def __init__(self, method, arg=None, hl_before=(), fixed_before=None):
        self.method = method
        self.arg = arg
        self.hl_before = list(hl_before)
        self.fixed_before = fixed_before
        self.ops = []
        self.ret = None
        self.names_after = None

    def as_dict(self):
        return {"method": self.method, "arg": self.arg, "hl_before": self.hl_before, "fixed_before": self.fixed_before,
                "ops": [list(o) for o in self.ops], "names_after": self.names_after}


class ObjRec:
    def __init__(self, kind, residue):
        self.kind = kind
        self.residue = residue
        self.resname = residue.name
        self.key = f"{residue.name} {residue.chain_id} {residue.res_seq}{residue.ins_code}"
        self.nterm = bool(getattr(residue, "is_n_term", False))
        self.cterm = bool(getattr(residue, "is_c_term", False))
        self.patches = list(getattr(residue, "patches", []))
        self.names_before = [a.name for a in residue.atoms]
        self.params = {}
        self.calls: list[Call] = []
        self.cleanup_ops = []
        self.stray = []
        self.final_names = None
        self.completed = False


UNIT = {
    "Flip": {"__init__", "fix_flip", "finalize", "complete"},
    "Alcoholic": {"__init__", "try_donor", "try_acceptor", "finalize", "complete"},
    "Water": {"__init__", "try_donor", "try_acceptor", "finalize", "complete"},
    "Carboxylic": {"__init__", "try_acceptor", "fix", "finalize", "complete"},
}
WRAPPED = ["__init__", "try_donor", "try_acceptor", "try_both", "fix_flip", "fix", "finalize", "complete", "rename"]


class Monitor:
    """Monkeypatches Residue.add_atom/remove_atom/rename_atom (all subclasses) and the
    protocol methods; records per protocol object every create/remove/rename and the
    unit call that issued it."""

    def __init__(self):
        self.objs: dict[int, ObjRec] = {}  # id(protocol object) -> record
        self.by_res: dict[int, ObjRec] = {}  # id(residue) -> record
        self.order: list[ObjRec] = []
        self.frames: list[tuple[object, str]] = []
        self.open_unit: dict[int, Call] = {}
        self.in_cleanup = False
        self.done = False  # optimisation + cleanup finished: later edits (set_state) are not protocol steps
        self.other_events = []  # ops on residues outside any protocol (counted only)
        self._undo = []

    # -- residue events
    def event(self, residue, op):
        rec = self.by_res.get(id(residue))
        if rec is None or self.done:
            return
        if self.in_cleanup:
            rec.cleanup_ops.append(op)
            return
        # innermost frame of the object owning this residue
        for obj, meth in reversed(self.frames):
            if self.objs.get(id(obj)) is rec:
                call = self.open_unit.get(id(obj))
                if call is not None:
                    call.ops.append(op)
                elif meth == "try_both":
                    if rec.calls and rec.calls[-1].method == "undo" and rec.calls[-1].arg == id(self.frames[-1]):
                        rec.calls[-1].ops.append(op)
                    else:
                        c = Call("undo", arg=id(self.frames[-1]))
                        c.ops.append(op)
                        rec.calls.append(c)
                else:
                    rec.stray.append((meth, op))
                return
        rec.stray.append(("<no frame>", op))

    # -- patching
    @contextlib.contextmanager
    def active(self):
        from pdb2pqr import aa, hydrogens, na, residue
        from pdb2pqr.hydrogens import structures as hs

        mon = self
        saved = []

        def patch(cls, name, fn):
            saved.append((cls, name, cls.__dict__.get(name)))
            setattr(cls, name, fn)

        classes = [residue.Residue]
        for mod in (aa, na):
            for v in vars(mod).values():
                if isinstance(v, type) and issubclass(v, residue.Residue) and v is not residue.Residue:
                    classes.append(v)
        for cls in classes:
            if "add_atom" in cls.__dict__:
                orig = cls.__dict__["add_atom"]

                def add_atom(self, atom, _o=orig):
                    r = _o(self, atom)
                    mon.event(self, ("create", atom.name))
                    return r

                patch(cls, "add_atom", add_atom)
            if "remove_atom" in cls.__dict__:
                orig = cls.__dict__["remove_atom"]

                def remove_atom(self, atomname, _o=orig):
                    r = _o(self, atomname)
                    mon.event(self, ("remove", atomname))
                    return r

                patch(cls, "remove_atom", remove_atom)
            if "rename_atom" in cls.__dict__:
                orig = cls.__dict__["rename_atom"]

                def rename_atom(self, oldname, newname, _o=orig):
                    r = _o(self, oldname, newname)
                    mon.event(self, ("rename", oldname, newname))
                    return r

                patch(cls, "rename_atom", rename_atom)

        for kind in UNIT:
            cls = getattr(hs, kind)
            for meth in WRAPPED:
                if meth not in cls.__dict__:
                    continue
                orig = cls.__dict__[meth]

                def wrapper(self, *a, _o=orig, _m=meth, _k=kind, **kw):
                    return mon.call(self, _k, _m, _o, a, kw)

                patch(cls, meth, wrapper)

        orig_cleanup = hydrogens.HydrogenRoutines.cleanup

        def cleanup(self_):
            mon.in_cleanup = True
            try:
                return orig_cleanup(self_)
            finally:
                mon.in_cleanup = False
                mon.done = True
                for rec in mon.order:
                    rec.final_names = [a.name for a in rec.residue.atoms]

        patch(hydrogens.HydrogenRoutines, "cleanup", cleanup)
        try:
            yield self
        finally:
            for cls, name, old in reversed(saved):
                if old is None:
                    delattr(cls, name)
                else:
                    setattr(cls, name, old)

    def call(self, obj, kind, meth, orig, a, kw):
        if meth == "__init__":
            residue = a[0]
            rec = ObjRec(kind, residue)
            self.objs[id(obj)] = rec
            self.by_res[id(residue)] = rec
            self.order.append(rec)
            try:
                oi = a[1]
                rec.params["optkeys"] = list(oi.map.keys())
                rec.params["bonds"] = {k: getattr(v, "bond", None) for k, v in oi.map.items()}
            except Exception:  # noqa: BLE001
                pass
        rec = self.objs.get(id(obj))
        opened = None
        if rec is not None and meth in UNIT[kind] and id(obj) not in self.open_unit:
            arg = None
            if meth in ("fix_flip",):
                arg = a[0].name
            hl = [h.name for h in getattr(obj, "hlist", [])] if kind == "Carboxylic" and meth != "__init__" else []
            opened = Call(meth, arg=arg, hl_before=hl, fixed_before=bool(rec.residue.fixed) if meth != "__init__" or hasattr(rec.residue, "fixed") else None)
            rec.calls.append(opened)
            self.open_unit[id(obj)] = opened
        self.frames.append((obj, meth))
        try:
            ret = orig(obj, *a, **kw)
            if opened is not None:
                opened.ret = bool(ret) if ret is not None else None
            return ret
        finally:
            self.frames.pop()
            if opened is not None:
                del self.open_unit[id(obj)]
                opened.names_after = [x.name for x in rec.residue.atoms]
                if meth == "complete":
                    rec.completed = True
                if meth == "__init__" and kind == "Carboxylic":
                    rec.params["hl_init"] = [h.name for h in obj.hlist]
                    rec.params["al_init"] = [x.name for x in obj.atomlist]


# --------------------------------------------------------------------------
# tables


def runtime_patch_names():
    names = set()
    for f in sorted((REPO / "pdb2pqr").rglob("*.py")):
        tree = ast.parse(f.read_text(encoding="utf-8"))
        for node in ast.walk(tree):
            if isinstance(node, ast.Call):
                fn = node.func
                nm = fn.attr if isinstance(fn, ast.Attribute) else getattr(fn, "id", None)
                if nm == "apply_patch":
                    if not node.args or not isinstance(node.args[0], ast.Constant) or not isinstance(node.args[0].value, str):
                        raise GenError(f"{f.name}:{node.lineno}: apply_patch with a non-literal patch name")
                    names.add(node.args[0].value)
    if not names:
        raise GenError("no apply_patch call found")
    return sorted(names)


RUNS = []
FFS6 = ["AMBER", "CHARMM", "PARSE", "PEOEPB", "SWANSON", "TYL06"]
OPT = ["HIS", "HID", "HIE", "HIP", "ASN", "GLN", "SER", "THR", "TYR", "CYS", "ASH", "GLH"]


def observe_instances():
    """Run the real pipeline on builder peptides X-ALA-X-ALA-X (one chain per X) plus
    waters and record the residue at every optimisation-object construction."""
    import tempfile

    from harness import builder as B

    out = []
    chains = []
    letters = "ABCDEFGHIJKLMNOPQRSTUVWXYZ"
    for k, x in enumerate(OPT):
        chains += B.build_peptide([x, "ALA", x, "ALA", x], chain=letters[k], origin=(0.0, 40.0 * k, 0.0))
    wat = B.waters(2, around=chains, chain="W")
    wat_h = B.waters(2, around=chains + wat, chain="V", hydrogens=True)
    text = B.to_pdb(chains + wat + wat_h)
    with tempfile.TemporaryDirectory(prefix="pv_c03gen_") as wd:
        for args in (["--ff=PARSE"], ["--ff=PARSE", "--neutraln", "--neutralc"]):
            mon = Monitor()
            with mon.active():
                r = B.run_pdb2pqr(text, args, workdir=wd)
            if r["exc"] is not None:
                raise GenError(f"instance run {args} failed: {r['exc']!r}")
            out += mon.order
            RUNS.append((chains + wat + wat_h, mon, r["result"][2]))
    return out


TERMINAL_PATCHES = ("PEPTIDE", "NTERM", "CTERM", "NEUTRAL-NTERM", "NEUTRAL-CTERM", "5TERM", "3TERM")


def pipeline_cases(runs):
    """One concrete pipeline case per residue of the observation runs (default options,
    nothing missing): input names, terminus patch effects, final reference, protocol kind,
    cleanup / histidine choice and the force-field residue name the run ended with."""
    from harness import builder as B
    from pdb2pqr import aa

    defs = B.definitions()
    out, seen = [], set()
    for atoms, mon, bio in runs:
        inp = {}
        for a in atoms:
            inp.setdefault((a.chain, str(a.resseq) + a.icode), []).append(a.name)
        recs = {id(r.residue): r for r in mon.order}
        for res in bio.residues:
            if not isinstance(res, (aa.Amino, aa.WAT)):
                continue
            ns = inp.get((res.chain_id, str(res.res_seq) + res.ins_code))
            if ns is None:
                continue
            patches = list(getattr(res, "patches", []))
            if any(p not in TERMINAL_PATCHES for p in patches):
                continue  # state patches after repair: outside the theorem (ps2 = [])
            ps1 = []
            for pn in patches:
                pt = defs.patches[pn]
                alts = cl("(" + cs(o) + ", " + cs(n) + ")" for o, n in pt.altnames.items())
                ps1.append(f"mkPF {cl(map(cs, pt.remove))} {alts}")
            rec = recs.get(id(res))
            kind = "PNone"
            if rec is not None:
                _t, k, _b, _e = instance_of(rec)
                if k.startswith("KCarb"):
                    continue
                kind = {"KFlip": "(PFlip " + k[len("KFlip "):] + ")", "KAlc ": "(PAlc " + k[len("KAlc "):] + ")", "KWat": "PWat"}[k[:5] if k != "KWat" else "KWat"]
            final = [a.name for a in res.atoms]
            his = "None"
            if isinstance(res, aa.HIS) and "HIP" not in patches and res.name not in ("HIP", "HSP"):
                his = "(Some false)" if ("HE2" in final and "HD1" not in final) else "(Some true)"
            clt = "None"
            if res.name in ("ASH", "GLH"):
                continue
            pos = "N" if getattr(res, "is_n_term", False) else ("C" if getattr(res, "is_c_term", False) else "I")
            tag = f"{res.name}/{pos}/" + "+".join(p for p in patches if p != "PEPTIDE")
            row = (f"mkPC {cs(tag)} {cs(res.ffname)} {cl(map(cs, res.reference.map.keys()))} {cl(ps1)} {cl(map(cs, ns))} "
                   f"false {kind} {clt} {his}")
            if row not in seen:
                seen.add(row)
                out.append(row)
    if len(out) < 30:
        raise GenError(f"only {len(out)} pipeline cases observed")
    return out


def instance_of(rec):
    """(name, kind term, base, expected) or None."""
    base = rec.names_before
    pos = "N" if rec.nterm else ("C" if rec.cterm else "I")
    tag = f"{rec.resname}/{pos}" + ("/" + "+".join(p for p in rec.patches if p.startswith("NEUTRAL")) if any(p.startswith("NEUTRAL") for p in rec.patches) else "")
    init = rec.calls[0] if rec.calls and rec.calls[0].method == "__init__" else None
    if init is None:
        raise GenError(f"{rec.key}: no __init__ record")
    if rec.kind == "Flip":
        mv = [o[1][:-4] for o in init.ops if o[0] == "create" and o[1].endswith("FLIP")]
        if len(mv) != len(init.ops):
            raise GenError(f"{rec.key}: unexpected Flip.__init__ operations {init.ops}")
        return tag, f"KFlip {cl(map(cs, mv))}", base, list(base)
    if rec.kind == "Alcoholic":
        h = rec.params["optkeys"][0]
        exp = [n for n in base if n != h] + [h]
        return tag, f"KAlc {cs(h)}", base, exp
    if rec.kind == "Water":
        return tag + "/" + "".join(sorted(base)), "KWat", base, ["O", "H1", "H2"]
    if rec.kind == "Carboxylic":
        keys = rec.params["optkeys"]
        bonds = rec.params["bonds"]
        h2 = [k for k in keys if k.endswith("2")]
        h1 = [k for k in keys if not k.endswith("2")]
        if len(h1) != 1 or len(h2) != 1:
            raise GenError(f"{rec.key}: carboxylic hydrogens {keys}")
        h1, h2 = h1[0], h2[0]
        exp = [n for n in base if n not in (h1, h2)] + [h2]
        return tag, f"KCarb (mkcarb {cs(h1)} {cs(bonds[h1])} {cs(h2)} {cs(bonds[h2])})", base, exp
    raise GenError(f"unknown kind {rec.kind}")


def nearest_bonds(ref, atomname):
    """Independent re-statement of DefinitionResidue.get_nearest_bonds (cross-checked)."""
    bonds, lev2 = [], []
    for b in ref.map[atomname].bonds:
        if b not in bonds:
            bonds.append(b)
    for b in ref.map[atomname].bonds:
        for b2 in ref.map[b].bonds:
            if b2 not in bonds and b2 != atomname:
                bonds.append(b2)
                lev2.append(b2)
    for b2 in lev2:
        for b3 in ref.map[b2].bonds:
            if b3 not in bonds:
                bonds.append(b3)
    return bonds


def repair_templates(definition):
    rows = []
    for name, ref in definition.map.items():
        if not all(k in ref.map for k in ("N", "CA", "C")):
            continue
        near = []
        for an in ref.map:
            try:
                mine = nearest_bonds(ref, an)
                theirs = ref.get_nearest_bonds(an)
            except KeyError:
                continue  # a bond names an atom the template lacks (pseudo atoms): the real call raises too
            if mine != theirs:
                raise GenError(f"{name}.{an}: get_nearest_bonds differs from its re-statement")
            near.append(f"({cs(an)}, {cl(map(cs, mine))})")
        rows.append(f"mkRT {cs(name)} {cl(map(cs, ref.map.keys()))}\n   {cl(near)}")
    if len(rows) < 20:
        raise GenError("fewer than 20 amino templates")
    return rows


def generate(write=True):
    from pdb2pqr import io as pio

    definition = pio.get_definitions()
    runtime = runtime_patch_names()
    for r in runtime:
        if r not in definition.patches:
            raise GenError(f"run-time patch {r} is not in Definition.patches")
    prow = []
    for key, p in definition.patches.items():
        prow.append(f"mkpatch {cs(key)} {cs(p.name)} {cl(map(cs, p.map.keys()))} {cl(map(cs, p.remove))} {'true' if key in runtime else 'false'}")
    rrows = repair_templates(definition)
    del RUNS[:]
    recs = observe_instances()
    prow = prow  # noqa
    pcs = pipeline_cases(RUNS)
    seen = {}
    for rec in recs:
        inst = instance_of(rec)
        k = (inst[1], tuple(inst[2]))
        if k not in seen:
            seen[k] = inst
    kinds = {i[1].split()[0] for i in seen.values()}
    if kinds != {"KFlip", "KAlc", "KWat", "KCarb"}:
        raise GenError(f"instance kinds observed: {sorted(kinds)}")
    irow = [f"mkI {cs(n)} ({k}) {cl(map(cs, b))} {cl(map(cs, e))}" if " " in k else f"mkI {cs(n)} {k} {cl(map(cs, b))} {cl(map(cs, e))}" for (n, k, b, e) in seen.values()]
    sep = ";\n  "
    txt = f"""(* GENERATED by /verif/gen/c03_table.py from the working tree of pdb2pqr - do not edit *)
From Coq Require Import String List Bool.
From PV Require Import Lib.Strings Model.NameProtocol.
Import ListNotations.
Local Open Scope string_scope.

(* Definition.patches: key, patch name, atoms added, atoms removed, applied at run time
   (= passed as a literal to apply_patch somewhere in pdb2pqr/*.py) *)
Definition patches : list patch :=
 [{sep.join(prow)}].

Definition runtime_names : list string := {cl(map(cs, runtime))}.

(* optimisation-object instances: residue atom names when the object is constructed *)
Definition instances : list instance :=
 [{sep.join(irow)}].

(* amino-acid templates (Definition.map entries with N, CA, C): reference names in order and
   get_nearest_bonds for every atom *)
Definition rtemplates : list rtemplate :=
 [{sep.join(rrows)}].

(* obligations: every instance passes its reachable-set certificate; the patch table has
   the stated shape *)
Lemma instances_ok : all_instances_ok instances = true.
Proof. vm_compute. reflexivity. Qed.

(* every Flip / Alcoholic / Water instance meets the hypothesis of its parametric theorem *)
Lemma instances_wf : forallb inst_wf instances = true.
Proof. vm_compute. reflexivity. Qed.

(* the seenmap loop of repair_heavy rebuilds a whole missing side chain (and any single
   missing side-chain atom) of every template from N, CA, C, O alone *)
Lemma rtemplates_all_ok : rtemplates_ok rtemplates = true.
Proof. vm_compute. reflexivity. Qed.

Lemma patch_table_ok : patches_ok patches = true.
Proof. vm_compute. reflexivity. Qed.
"""
    ffimports = " ".join(f"Generated.FF_{f}" for f in FFS6)
    ffdefs = "\n".join(
        f"Definition entry_{f} (c : pcase) : string -> bool := entry_of FF_{f}.built (pc_ffname c).\n"
        f"Definition full_{f} : list pcase := filter (fun c => pcase_entries (entry_{f} c) c) pcases."
        for f in FFS6
    )
    ptxt = f"""(* GENERATED by /verif/gen/c03_table.py - do not edit.
   Concrete one-residue pipeline cases observed on builder peptides (default options, nothing
   missing), and for each of the six force fields the predicate "the built map
   (Generated/FF_<ff>.v, C01) has an entry for (ffname, atom name)" through the shared name
   interning of Generated/E2ENames.v. *)
From Coq Require Import String List Bool PArith.
From PV Require Import Lib.Strings Model.NameProtocol Model.ForceField Generated.E2ENames.
From PV Require {ffimports}.
Import ListNotations.
Local Open Scope string_scope.

Definition idn (s : string) : option positive :=
  match find (fun p => String.eqb (fst p) s) E2ENames.names with Some p => Some (snd p) | None => None end.

Definition entry_of (m : ffmap) (ffname : string) (x : string) : bool :=
  match idn ffname, idn x with
  | Some r, Some a => match lookup m r a with Some _ => true | None => false end
  | _, _ => false
  end.

Definition pcases : list pcase :=
 [{sep.join(pcs)}].

{ffdefs}

(* obligations: every case meets the guard of the end-to-end theorem; per force field the
   number of fully parameterised cases (non-vacuity) *)
Lemma pcases_guard : forallb pcase_guard pcases = true.
Proof. vm_compute. reflexivity. Qed.

Definition full_counts : list nat :=
  [{"; ".join(f"List.length full_{f}" for f in FFS6)}].
"""
    if write:
        GEN.mkdir(parents=True, exist_ok=True)
        path = GEN / "C03Table.v"
        if not path.exists() or path.read_text() != txt:
            path.write_text(txt)
        path = GEN / "C03Pipe.v"
        if not path.exists() or path.read_text() != ptxt:
            path.write_text(ptxt)
    return {"runtime": runtime, "instances": list(seen.values()), "n_patches": len(prow)}


if __name__ == "__main__":
    try:
        r = generate()
    except GenError as e:
        print(f"GENERATOR-ERROR c03_table: {e}")
        sys.exit(1)
    print(f"C03Table.v: {r['n_patches']} patches, runtime={r['runtime']}, {len(r['instances'])} instances")
