"""Force-field tables for the Coq model Model/ForceField.v (C01, C02, C06).

For one (DAT, .names) pair this produces, from the FILE TEXTS (independent of
pdb2pqr/forcefield.py):
  rows   - the DAT data rows (resname, atomname, charge, radius) as exact decimals
  rules  - one record per <residue> section of the .names file, with the regex
           matches over the closed universe (DAT residue names + definition
           names) computed by Python's re (same engine as the code)
and, through the repo's own loader, the dump of Forcefield(...).map.
"""

from __future__ import annotations

import re
import xml.etree.ElementTree as ET
from pathlib import Path

from common import DAT, FFS, GEN, GenError, P, Z, coq_list, dec_scaled, float_scaled, write_if_changed


def parse_dat(path: Path):
    rows = []
    for ln, line in enumerate(path.read_text(encoding="utf-8").splitlines(True), 1):
        if line.startswith("#"):
            continue
        f = line.split()
        if not f:
            continue
        if len(f) < 4:
            raise GenError(f"{path.name}:{ln}: fewer than 4 fields")
        rows.append((f[0], f[1], dec_scaled(f[2]), dec_scaled(f[3]), f[4] if len(f) > 4 else ""))
    return rows


def parse_names(path: Path):
    """[(newresname, oldresname|None, [(atomname, useatomname|None)])] in document order.

    The element stream is interpreted with the same tiny state machine as
    ForcefieldHandler (current element, <name> inherits its enclosing element,
    every other end tag clears it), so unknown elements such as <exclud> and
    unusual child orders mean what they mean to the code."""
    raw = path.read_text(encoding="utf-8")
    if "&" in raw or "<![CDATA[" in raw:
        raise GenError(f"{path.name}: entity/CDATA text may be delivered in several chunks; not modelled")
    root = ET.fromstring(raw)
    out = []
    st = {"cur": None, "newres": None, "oldres": None, "newatom": None, "oldatom": None, "atoms": []}

    def text(t):
        if t is None or t.isspace() or t == "":
            return
        c = st["cur"]
        if c == "residue":
            st["newres"] = t
        elif c == "atom":
            st["newatom"] = t
        elif c == "useatomname":
            st["oldatom"] = t
        elif c == "useresname":
            st["oldres"] = t

    def walk(e):
        if e.tag != "name":
            st["cur"] = e.tag
        text(e.text)
        for ch in e:
            walk(ch)
            text(ch.tail)
        if e.tag == "residue":
            if st["newres"] is None:
                raise GenError(f"{path.name}: <residue> without a name")
            out.append((st["newres"], st["oldres"], list(st["atoms"])))
            st["oldres"] = st["newres"] = None
            st["atoms"] = []
        elif e.tag == "atom":
            if st["newatom"] is None:
                raise GenError(f"{path.name}: <atom> without a name")
            st["atoms"].append((st["newatom"], st["oldatom"]))
            st["oldatom"] = st["newatom"] = None
        else:
            st["cur"] = ""

    walk(root)
    return out


def make_rules(names, dat_rows, reference_keys):
    """Resolve regexes over the universe. reference_keys in definition.map order."""
    universe = []
    seen = set()
    for r in dat_rows:
        if r[0] not in seen:
            seen.add(r[0])
            universe.append(r[0])
    for k in reference_keys:
        if k not in seen:
            seen.add(k)
            universe.append(k)
    rules = []
    for new, old, atoms in names:
        try:
            rx = re.compile(new + "$")
        except re.error as e:
            raise GenError(f"bad regex {new!r}: {e}") from e
        keys = [u for u in universe if rx.match(u)]
        copies = []
        group = old is not None and "$group" in old
        if old is not None:
            for ref in reference_keys:
                m = rx.match(ref)
                if not m:
                    continue
                if group:
                    try:
                        g = m.group(1)
                    except IndexError as e:
                        raise GenError(f"$group used without a group in {new!r}") from e
                    if g is None:
                        raise GenError(f"group 1 did not participate for {ref!r} in {new!r}")
                    copies.append((ref, old.replace("$group", g)))
                else:
                    copies.append((ref, old))
        rules.append({"new": new, "has_old": old is not None, "group": group, "copies": copies, "keys": keys, "alias": atoms})
    return rules


def impl_dump(ff_name, definition, userff=None, usernames=None):
    from pdb2pqr import forcefield

    ff = forcefield.Forcefield(ff_name, definition, userff, usernames)
    dump = []
    for rname, res in ff.map.items():
        for aname, atom in res.atoms.items():
            dump.append((rname, aname, float_scaled(atom.charge), float_scaled(atom.radius), atom.resname, atom.name))
    return dump, len(ff.map)


def tables(ff_name, definition, dat_path=None, names_path=None):
    dat_path = Path(dat_path) if dat_path else DAT / f"{ff_name}.DAT"
    names_path = Path(names_path) if names_path else DAT / f"{ff_name}.names"
    rows = parse_dat(dat_path)
    rules = make_rules(parse_names(names_path), rows, list(definition.map.keys()))
    return rows, rules


def collect(intern, definition):
    for ff in FFS:
        rows, rules = tables(ff, definition)
        for r in rows:
            intern.add(r[0])
            intern.add(r[1])
        for ru in rules:
            for t, f in ru["copies"]:
                intern.add(t)
                intern.add(f)
            for k in ru["keys"]:
                intern.add(k)
            for a, u in ru["alias"]:
                intern.add(a)
                if u is not None:
                    intern.add(u)


def coq_rows(rows, I):
    return coq_list((f"mkrow {P(I(r))} {P(I(a))} {Z(q)} {Z(rad)}" for r, a, q, rad, _ in rows), 4)


def coq_rules(rules, I):
    out = []
    for ru in rules:
        copies = coq_list((f"({P(I(t))}, {P(I(f))})" for t, f in ru["copies"]), 6)
        keys = coq_list((P(I(k)) for k in ru["keys"]), 12)
        alias = coq_list((f"({P(I(a))}, " + (f"Some {P(I(u))}" if u is not None else "None") + ")" for a, u in ru["alias"]), 6)
        out.append(f"mkrule {str(ru['has_old']).lower()} {str(ru['group']).lower()}\n  {copies}\n  {keys}\n  {alias}")
    return coq_list(out, 1)


def coq_dump(dump, I):
    return coq_list((f"({P(I(r))}, {P(I(a))}, mkentry {Z(q)} {Z(rad)} {P(I(nr))} {P(I(na))})" for r, a, q, rad, nr, na in dump), 3)


def emit(intern, definition):
    for ff in FFS:
        rows, rules = tables(ff, definition)
        dump, nres = impl_dump(ff, definition)
        for d in dump:
            for nm in (d[0], d[1], d[4], d[5]):
                if nm not in intern.ids:
                    raise GenError(f"{ff}: implementation map has a name unknown to the file-level tables: {nm!r}")
        txt = f"""(* GENERATED by /verif/gen/ff_tables.py from {ff}.DAT and {ff}.names - do not edit *)
From Coq Require Import ZArith List PArith.
From PV Require Import Model.ForceField.
Import ListNotations.

Definition rows : list row :=
 {coq_rows(rows, intern)}.

Definition rules : list rule :=
 {coq_rules(rules, intern)}.

(* dump of pdb2pqr.forcefield.Forcefield("{ff}").map through the repo's loader *)
Definition dump : list flat :=
 {coq_dump(dump, intern)}.

Definition nres : nat := {nres}.

Definition built : ffmap := match build rows rules with Some m => m | None => [] end.

(* obligation: the model, run on the two files, reproduces the loader's map *)
Theorem table_eq : check_build rows rules dump nres = true.
Proof. vm_compute. reflexivity. Qed.
"""
        write_if_changed(GEN / f"FF_{ff}.v", txt)
