"""Synthetic all-atom structure builder for the property checks.

Only 9 PDB files exist offline, but several checks need pdb2pqr to process
ARBITRARY sequences.  This module builds peptides, nucleic strands and waters
from the code base's OWN topology templates (pdb2pqr/dat/AA.xml, NA.xml,
PATCHES.xml through ``pdb2pqr.io.get_definitions()``) so that pdb2pqr itself
reports the result clean (no missing heavy atoms, no repair) and processes it.

Everything is a pure function of its arguments (and of an explicit
``numpy.random.Generator`` where randomness is wanted); no global state except
a cache of the parsed definition.  pdb2pqr is imported lazily from whatever
PYTHONPATH provides (``./check`` sets it, honouring VERIF_REPO).

See notes/builder.md for the API summary, validation status and limitations.
Self test: ``cd /verif && PYTHONPATH=/repo:/verif /venv/bin/python harness/builder_selftest.py``
"""

from __future__ import annotations

import contextlib
import functools
import io as _io
import logging
import math
from dataclasses import dataclass, replace
from pathlib import Path
from typing import Callable, Iterable, Sequence

import numpy as np

__all__ = [
    "AtomRec", "definitions", "template", "template_names", "is_hydrogen_name",
    "build_peptide", "build_strand", "waters", "ring_peptide", "relax_sidechains", "disulfide_pair",
    "pack_against", "to_pdb", "to_cif", "rigid", "random_rotation", "delete_atoms",
    "renumber", "set_chain", "set_resname", "reserial", "coords", "residues_of",
    "place", "kabsch", "dihedral", "angle", "min_distance", "geometry_report",
    "expected_atom_names", "expected_names_for", "run_pdb2pqr", "parse_pqr", "capture_pdb2pqr_log", "template_bonds", "setup_biomolecule", "STANDARD_AA",
    "VARIANT_AA", "DNA", "RNA",
]

STANDARD_AA = (
    "ALA ARG ASN ASP CYS GLN GLU GLY HIS ILE LEU LYS MET PHE PRO SER THR TRP TYR VAL"
).split()
#: pre-named protonation states pdb2pqr accepts on input (Definition.add_patch
#: registers the patched copy of the base residue under the patch name)
VARIANT_AA = "ASH GLH HID HIE HIP HSD HSE HSP CYX CYM LYN TYM AR0".split()
DNA = ("DA", "DC", "DG", "DT")
RNA = ("RA", "RC", "RG", "RU")

# ideal peptide link geometry (Engh & Huber)
PEPTIDE_CN = 1.33
ANGLE_CA_C_N = 116.6
ANGLE_C_N_CA = 121.9
# carboxylate
C_OXT = 1.25
ANGLE_CA_C_OXT = 117.0
# phosphodiester link
O3_P = 1.60
ANGLE_C3_O3_P = 119.7


# ---------------------------------------------------------------------------
# records


@dataclass
class AtomRec:
    """One ATOM/HETATM record.  Blank altloc/icode/chain are the empty string
    or a single space (both are written as a blank column)."""

    record: str = "ATOM"
    serial: int = 0
    name: str = ""
    altloc: str = ""
    resname: str = ""
    chain: str = "A"
    resseq: int = 1
    icode: str = ""
    x: float = 0.0
    y: float = 0.0
    z: float = 0.0
    occ: float = 1.0
    bfac: float = 0.0
    element: str = ""

    @property
    def xyz(self) -> np.ndarray:
        return np.array([self.x, self.y, self.z], dtype=float)

    def at(self, xyz) -> "AtomRec":
        return replace(self, x=float(xyz[0]), y=float(xyz[1]), z=float(xyz[2]))

    @property
    def reskey(self):
        return (self.chain, self.resseq, self.icode.strip())

    @property
    def is_hydrogen(self) -> bool:
        return is_hydrogen_name(self.name)


def is_hydrogen_name(name: str) -> bool:
    """pdb2pqr's own convention (Biomolecule.num_missing_heavy): a template atom
    is a hydrogen iff its name starts with 'H'."""
    return name.startswith("H")


def _element(name: str) -> str:
    if is_hydrogen_name(name):
        return "H"
    for ch in name:
        if ch.isalpha():
            return ch
    return ""


def coords(atoms: Sequence[AtomRec]) -> np.ndarray:
    return np.array([[a.x, a.y, a.z] for a in atoms], dtype=float).reshape(-1, 3)


def residues_of(atoms: Iterable[AtomRec]) -> list[list[AtomRec]]:
    """Group consecutive atoms by (chain, resseq, icode), keeping order."""
    out: list[list[AtomRec]] = []
    key = None
    for a in atoms:
        if key != a.reskey or not out:
            out.append([])
            key = a.reskey
        out[-1].append(a)
    return out


# ---------------------------------------------------------------------------
# geometry primitives


def _unit(v):
    n = np.linalg.norm(v)
    if n == 0.0:
        raise ValueError("zero-length vector")
    return v / n


def angle(a, b, c) -> float:
    """Angle a-b-c in degrees."""
    u, v = _unit(np.asarray(a, float) - b), _unit(np.asarray(c, float) - b)
    return math.degrees(math.acos(max(-1.0, min(1.0, float(np.dot(u, v))))))


def dihedral(a, b, c, d) -> float:
    """IUPAC dihedral a-b-c-d in degrees, in (-180, 180]."""
    a, b, c, d = (np.asarray(p, float) for p in (a, b, c, d))
    b1 = _unit(c - b)
    v = (a - b) - np.dot(a - b, b1) * b1
    w = (d - c) - np.dot(d - c, b1) * b1
    return math.degrees(math.atan2(float(np.dot(np.cross(b1, v), w)), float(np.dot(v, w))))


def place(a, b, c, bond: float, angle_deg: float, torsion_deg: float) -> np.ndarray:
    """NeRF: the point d with |c-d| = bond, angle(b,c,d) = angle_deg and
    dihedral(a,b,c,d) = torsion_deg."""
    a, b, c = (np.asarray(p, float) for p in (a, b, c))
    bc = _unit(c - b)
    n = _unit(np.cross(b - a, bc))
    m = np.cross(n, bc)
    th, ta = math.radians(angle_deg), math.radians(torsion_deg)
    return (
        c
        - bond * math.cos(th) * bc
        + bond * math.sin(th) * math.cos(ta) * m
        + bond * math.sin(th) * math.sin(ta) * n
    )


def kabsch(src, dst):
    """Proper rotation R and translation t minimising |R src_i + t - dst_i|."""
    src, dst = np.asarray(src, float), np.asarray(dst, float)
    cs, cd = src.mean(axis=0), dst.mean(axis=0)
    h = (src - cs).T @ (dst - cd)
    u, _s, vt = np.linalg.svd(h)
    d = np.sign(np.linalg.det(vt.T @ u.T))
    r = vt.T @ np.diag([1.0, 1.0, d]) @ u.T
    return r, cd - r @ cs


def _rot_axis(axis, deg: float) -> np.ndarray:
    k = _unit(np.asarray(axis, float))
    th = math.radians(deg)
    kx = np.array([[0, -k[2], k[1]], [k[2], 0, -k[0]], [-k[1], k[0], 0]])
    return np.eye(3) + math.sin(th) * kx + (1 - math.cos(th)) * (kx @ kx)


def random_rotation(rng: np.random.Generator) -> np.ndarray:
    """Uniform random proper rotation matrix (unit quaternion method)."""
    q = rng.normal(size=4)
    q /= np.linalg.norm(q)
    w, x, y, z = q
    return np.array(
        [
            [1 - 2 * (y * y + z * z), 2 * (x * y - z * w), 2 * (x * z + y * w)],
            [2 * (x * y + z * w), 1 - 2 * (x * x + z * z), 2 * (y * z - x * w)],
            [2 * (x * z - y * w), 2 * (y * z + x * w), 1 - 2 * (x * x + y * y)],
        ]
    )


def min_distance(xa: np.ndarray, xb: np.ndarray) -> float:
    if len(xa) == 0 or len(xb) == 0:
        return math.inf
    d = xa[:, None, :] - xb[None, :, :]
    return float(np.sqrt((d * d).sum(axis=2)).min())


# ---------------------------------------------------------------------------
# transforms on atom lists (all return new lists)


def rigid(atoms: Sequence[AtomRec], R=None, t=(0.0, 0.0, 0.0)) -> list[AtomRec]:
    R = np.eye(3) if R is None else np.asarray(R, float)
    t = np.asarray(t, float)
    return [a.at(R @ a.xyz + t) for a in atoms]


def delete_atoms(atoms: Sequence[AtomRec], predicate: Callable[[AtomRec], bool]) -> list[AtomRec]:
    """Drop every atom for which predicate(atom) is true."""
    return [a for a in atoms if not predicate(a)]


def renumber(atoms: Sequence[AtomRec], f) -> list[AtomRec]:
    """f(chain, resseq, icode) -> new resseq, or (resseq, icode)."""
    out = []
    for a in atoms:
        r = f(a.chain, a.resseq, a.icode)
        if isinstance(r, tuple):
            out.append(replace(a, resseq=int(r[0]), icode=r[1]))
        else:
            out.append(replace(a, resseq=int(r)))
    return out


def set_chain(atoms: Sequence[AtomRec], c: str) -> list[AtomRec]:
    return [replace(a, chain=c) for a in atoms]


def set_resname(atoms: Sequence[AtomRec], resname: str, where=lambda a: True) -> list[AtomRec]:
    return [replace(a, resname=resname) if where(a) else a for a in atoms]


def reserial(atoms: Sequence[AtomRec], start: int = 1) -> list[AtomRec]:
    return [replace(a, serial=start + i) for i, a in enumerate(atoms)]


# ---------------------------------------------------------------------------
# templates


@functools.lru_cache(maxsize=1)
def definitions():
    """The parsed topology definition (AA.xml + NA.xml + PATCHES.xml)."""
    from pdb2pqr import io as pio

    return pio.get_definitions()


_PSEUDO = ("N+1", "C-1")


def template_names() -> list[str]:
    return sorted(definitions().map.keys())


def template(name: str, *, hydrogens: bool = True) -> dict[str, np.ndarray]:
    """Ordered {atom name: xyz in the template's local frame} of a definition
    entry (e.g. 'ALA', 'HIP', 'NALA', 'CALA', 'DA', 'RA', 'WAT'), without the
    N+1/C-1 pseudo atoms."""
    ref = definitions().map[name]
    out = {}
    for an, at in ref.map.items():
        if an in _PSEUDO:
            continue
        if not hydrogens and is_hydrogen_name(an):
            continue
        out[an] = np.array([at.x, at.y, at.z], dtype=float)
    return out


def template_bonds(name: str) -> dict[str, list[str]]:
    ref = definitions().map[name]
    return {an: list(at.bonds) for an, at in ref.map.items() if an not in _PSEUDO}


#: hydrogens a patched template lists as alternatives of which the finished
#: structure carries only one (ASH: HD1|HD2, GLH: HE1|HE2).  hydrogens=True
#: writes the second one only.
_ALT_HYDROGENS = {"ASH": ("HD1",), "GLH": ("HE1",)}


def expected_atom_names(resname: str, *, nterm: bool = False, cterm: bool = False,
                        five_prime: bool = False, three_prime: bool = False,
                        phosphate_names: str = "OP"):
    """(required, optional) atom-name sets of the FINISHED residue as pdb2pqr
    should emit it for a heavy-atom-complete input of that residue name.

    required <= names <= required | optional.  Optional covers states the
    hydrogen optimisation picks (HIS tautomer, ASH/GLH proton side).  An
    N-terminal PRO ends with H and H2 (NPRO lists H3 too, but it coincides
    with CD and pdb2pqr never builds it).  Nucleotides: A/C/G/U mean RA..RU;
    the 5' one loses P/O1P/O2P and gains H5T, the 3' one gains H3T; pdb2pqr
    keeps whichever of OP1/OP2 or O1P/O2P it was given (phosphate_names).
    """
    if resname in ("HOH", "WAT"):
        return {"O", "H1", "H2"}, set()
    dmap = definitions().map
    if resname not in dmap or "CA" not in dmap[resname].map:
        names = set(template(_na_template_name(resname, True)))
        if five_prime:
            names = (names - {"P", "O1P", "O2P"}) | {"H5T"}
        if three_prime:
            names |= {"H3T"}
        if phosphate_names == "OP":
            names = {{"O1P": "OP1", "O2P": "OP2"}.get(n, n) for n in names}
        return names, set()
    names = set(template(resname))
    optional: set[str] = set()
    base = dmap[resname].name
    if nterm:
        names |= {"H", "H2"} if base == "PRO" else {"H", "H2", "H3"}
    if cterm:
        names |= {"OXT"}
    if resname == "HIS":
        names -= {"HD1", "HE2"}
        optional |= {"HD1", "HE2"}
    if resname in ("ASH", "GLH"):
        pair = {"ASH": {"HD1", "HD2"}, "GLH": {"HE1", "HE2"}}[resname]
        names -= pair
        optional |= pair
    return names, optional


def expected_names_for(atoms: Sequence[AtomRec], *, cyclic_chains: Sequence[str] = ()) -> list:
    """[(required, optional)] for every residue of a built structure, in input
    order: termini are the first/last polymer residue of each chain ID (none
    for chains listed in cyclic_chains), waters get O/H1/H2."""
    res = residues_of(atoms)
    dmap = definitions().map
    by_chain: dict[str, list[int]] = {}
    for k, r in enumerate(res):
        if r[0].resname not in ("HOH", "WAT"):
            by_chain.setdefault(r[0].chain, []).append(k)
    out = []
    for k, r in enumerate(res):
        rn, ch = r[0].resname, r[0].chain
        if rn in ("HOH", "WAT"):
            out.append(expected_atom_names(rn))
            continue
        first = by_chain[ch][0] == k and ch not in cyclic_chains
        last = by_chain[ch][-1] == k and ch not in cyclic_chains
        if rn in dmap and "CA" in dmap[rn].map:
            out.append(expected_atom_names(rn, nterm=first, cterm=last))
        else:
            opn = "O_P" if any(a.name in ("O1P", "O2P") for a in r) else "OP"
            out.append(expected_atom_names(rn, five_prime=first, three_prime=last, phosphate_names=opn))
    return out


# ---------------------------------------------------------------------------
# peptides


def _per_residue(v, n: int, what: str) -> list:
    if isinstance(v, (int, float)) or v is None:
        return [v] * n
    v = list(v)
    if len(v) != n:
        raise ValueError(f"{what}: expected {n} values, got {len(v)}")
    return v


def _backbone_internal(tpl):
    n, ca, c = tpl["N"], tpl["CA"], tpl["C"]
    return (
        float(np.linalg.norm(n - ca)),
        float(np.linalg.norm(ca - c)),
        angle(n, ca, c),
    )


def _ring_phi(tpl):
    """PRO-like templates (ring closes CD-N) fix phi: C(i-1) must lie opposite
    CD so that N stays planar.  None for every other template."""
    if "CD" in tpl and np.linalg.norm(tpl["CD"] - tpl["N"]) < 1.7:
        return dihedral(tpl["CD"], tpl["N"], tpl["CA"], tpl["C"]) - 180.0
    return None


def _wrap(deg: float) -> float:
    return (deg + 180.0) % 360.0 - 180.0


def build_peptide(
    seq: Sequence[str],
    *,
    chain: str = "A",
    start: int = 1,
    phi=-120.0,
    psi=130.0,
    omega=180.0,
    variants: dict[int, str] | None = None,
    hydrogens: bool = False,
    origin=(0.0, 0.0, 0.0),
    rotation=None,
    cterm_oxt: bool = True,
    nterm_h: bool = True,
    helix: bool = False,
    pro_phi: float | None = None,
    icode: str = "",
    relax: bool = True,
    _start_frame=None,
) -> list[AtomRec]:
    """Build a peptide from the definition templates.

    seq       3-letter template names; a state name such as HIP/ASH/CYX/LYN
              selects that (patched) template and is WRITTEN as the residue name.
    variants  {0-based index in seq: template name} overrides seq[i].
    phi/psi/omega  scalar or one value per residue (degrees); psi of residue i
              and omega/phi of residue i+1 define the link i -> i+1.  helix=True
              is shorthand for phi=-57, psi=-47.  PRO uses its template's ring
              phi (about -74) unless a per-residue list or pro_phi is given.
    hydrogens False (normal test input): heavy atoms only.  True: template
              hydrogens too (amide H re-placed in the peptide plane; N-terminal
              H/H2/H3 when nterm_h; no carboxyl H).
    origin    position of the first CA; rotation: 3x3 applied about that CA.
    relax     (default) run relax_sidechains(min_sep=2.5) on the result: a no-op
              for extended chains (they never clash), needed for helices with
              bulky i/i+3/i+4 neighbours.  relax=False guarantees that every
              residue is an exact rigid copy of its template.
    cterm_oxt add OXT to the last residue (C-OXT 1.25, CA-C-OXT 117, torsion
              N-CA-C-OXT = psi; O sits at psi+180).

    Each residue is the rigid template, superposed exactly (the N,CA,C targets
    are generated with the template's own N-CA, CA-C, N-CA-C); only O (and
    amide H) are re-placed for the chosen psi (phi).  Serial numbers run from 1.
    """
    names = [str(s) for s in seq]
    for i, v in (variants or {}).items():
        names[i] = v
    n = len(names)
    if n == 0:
        return []
    if helix:
        phi, psi = -57.0, -47.0
    phi_scalar = isinstance(phi, (int, float))
    phis = _per_residue(phi, n, "phi")
    psis = _per_residue(psi, n, "psi")
    omegas = _per_residue(omega, n, "omega")
    dmap = definitions().map
    out: list[AtomRec] = []
    prev = _start_frame  # (N, CA, C, psi) of the previous residue
    for i, name in enumerate(names):
        if name not in dmap or "CA" not in dmap[name].map:
            raise KeyError(f"no amino-acid template {name!r}")
        tpl = template(name, hydrogens=hydrogens)
        if phi_scalar and _ring_phi(tpl) is not None:
            phis[i] = _ring_phi(tpl) if pro_phi is None else pro_phi
        d_nca, d_cac, a_ncac = _backbone_internal(tpl)
        if prev is None:
            R, t = np.eye(3), np.zeros(3)
        else:
            pn, pca, pc, ppsi = prev
            tn = place(pn, pca, pc, PEPTIDE_CN, ANGLE_CA_C_N, ppsi)
            tca = place(pca, pc, tn, d_nca, ANGLE_C_N_CA, omegas[i])
            tc = place(pc, tn, tca, d_cac, a_ncac, phis[i])
            R, t = kabsch([tpl["N"], tpl["CA"], tpl["C"]], [tn, tca, tc])
        xyz = {k: R @ v + t for k, v in tpl.items()}
        N, CA, C = xyz["N"], xyz["CA"], xyz["C"]
        # carbonyl O follows psi (the template fixes it for psi = -47.5)
        o_len = float(np.linalg.norm(tpl["O"] - tpl["C"]))
        o_ang = angle(tpl["CA"], tpl["C"], tpl["O"])
        xyz["O"] = place(N, CA, C, o_len, o_ang, _wrap(psis[i] + 180.0))
        first = i == 0 and _start_frame is None
        if hydrogens:
            if first:
                xyz.pop("H", None)
                if nterm_h:
                    nt = definitions().patches["NTERM"].map
                    # N-terminal PRO keeps H and H2 (the patch's H3 sits on CD)
                    hs = ("H", "H2") if dmap[name].name == "PRO" else ("H", "H2", "H3")
                    for hn in hs:
                        p = np.array([nt[hn].x, nt[hn].y, nt[hn].z], float)
                        xyz[hn] = R @ p + t
            elif "H" in xyz:
                h_len = float(np.linalg.norm(tpl["H"] - tpl["N"]))
                h_ang = angle(tpl["CA"], tpl["N"], tpl["H"])
                xyz["H"] = place(C, CA, N, h_len, h_ang, _wrap(phis[i] + 180.0))
            for hn in _ALT_HYDROGENS.get(name, ()):
                xyz.pop(hn, None)
        if i == n - 1 and cterm_oxt:
            xyz["OXT"] = place(N, CA, C, C_OXT, ANGLE_CA_C_OXT, _wrap(psis[i]))
        order = [k for k in xyz if not is_hydrogen_name(k) and k != "OXT"]
        if "OXT" in xyz:
            order.append("OXT")
        order += [k for k in xyz if is_hydrogen_name(k)]
        for an in order:
            p = xyz[an]
            out.append(
                AtomRec("ATOM", 0, an, "", name, chain, start + i, icode,
                        float(p[0]), float(p[1]), float(p[2]), 1.0, 0.0, _element(an))
            )
        prev = (N, CA, C, psis[i])
    # global placement: first CA -> origin, rotation about it
    first_ca = next(a for a in out if a.name == "CA").xyz
    R = np.eye(3) if rotation is None else np.asarray(rotation, float)
    out = [a.at(R @ (a.xyz - first_ca) + np.asarray(origin, float)) for a in out]
    if relax:
        out = relax_sidechains(out, min_sep=2.5)
    return reserial(out)


# --- side-chain relaxation ----------------------------------------------------


def _far_side(bonds: dict[str, list[str]], a: str, b: str):
    """Atom names on b's side of the bond a-b (None if a-b is in a ring)."""
    seen, todo = {b}, [b]
    while todo:
        x = todo.pop()
        for y in bonds.get(x, ()):
            if x == b and y == a:
                continue
            if y == a:
                return None
            if y not in seen and y not in _PSEUDO:
                seen.add(y)
                todo.append(y)
    return seen


def relax_sidechains(atoms: Sequence[AtomRec], *, min_sep: float = 2.5, rounds: int = 3) -> list[AtomRec]:
    """Relieve side-chain clashes by rigid rotations about CA-CB (chi1: +0,
    +120, +240 degrees from the template) and CB-CG* (chi2: six 60-degree
    offsets).  A residue is touched only if one of its gamma-or-further heavy
    atoms is closer than min_sep to a heavy atom of another residue; the
    combination with the largest clearance (other residues, and own backbone
    N/C/O for delta-or-further atoms) is kept.  Deterministic; backbone, CB,
    PRO rings and disulfide-bonded CYS are never moved.  The default extended
    build never needs this; helices with bulky i/i+3/i+4 neighbours do."""
    atoms = list(atoms)
    X = coords(atoms)
    res_idx: list[list[int]] = []
    key = None
    for i, a in enumerate(atoms):
        if key != a.reskey or not res_idx:
            res_idx.append([])
            key = a.reskey
        res_idx[-1].append(i)
    heavy = np.array([not a.is_hydrogen for a in atoms])
    owner = np.empty(len(atoms), dtype=int)
    for r, idx in enumerate(res_idx):
        owner[idx] = r
    dmap = definitions().map
    sg = [i for i, a in enumerate(atoms) if a.name == "SG"]
    bonded_sg = {i for i in sg for j in sg if i != j and np.linalg.norm(X[i] - X[j]) < 2.5}
    plans = []
    for r, idx in enumerate(res_idx):
        rn = atoms[idx[0]].resname
        nm = {atoms[i].name: i for i in idx}
        if rn not in dmap or "CA" not in nm or "CB" not in nm or any(i in bonded_sg for i in idx):
            plans.append(None)
            continue
        bonds = template_bonds(rn)
        for extra in ("OXT",):
            if extra in nm:
                bonds = {**bonds, extra: ["C"], "C": bonds.get("C", []) + [extra]}
        for hn in ("H2", "H3"):
            if hn in nm and hn not in bonds:
                bonds = {**bonds, hn: ["N"], "N": bonds.get("N", []) + [hn]}
        side1 = _far_side(bonds, "CA", "CB")
        if side1 is None:
            plans.append(None)
            continue
        gammas = [g for g in bonds.get("CB", ()) if not is_hydrogen_name(g) and g != "CA" and g in nm]
        chi2 = None
        for g in gammas:  # first gamma that carries further heavy atoms
            far = _far_side(bonds, "CB", g)
            if far and any(not is_hydrogen_name(x) and x != g for x in far):
                chi2 = (g, far)
                break
        mov1 = [nm[x] for x in side1 if x in nm and x != "CB"]
        mov2 = [nm[x] for x in chi2[1] if x in nm and x != chi2[0]] if chi2 else []
        if not any(heavy[i] for i in mov1):
            plans.append(None)
            continue
        plans.append((nm, mov1, chi2[0] if chi2 else None, mov2))

    def clearance(r, P):
        """min distance of residue r's gamma+ heavy atoms (coords P for its
        atoms) to other residues, and of delta+ atoms to own backbone."""
        nm, mov1, g2, mov2 = plans[r]
        mh = [i for i in mov1 if heavy[i]]
        others = heavy & (owner != r)
        if not others.any():
            inter = math.inf
        else:
            d = P[mh][:, None, :] - X[others][None, :, :]
            inter = float(np.sqrt((d * d).sum(axis=2)).min())
        deep = [i for i in mov2 if heavy[i]]
        bb = [nm[x] for x in ("N", "C", "O", "OXT") if x in nm]
        if deep and bb:
            d = P[deep][:, None, :] - P[bb][None, :, :]
            inter = min(inter, float(np.sqrt((d * d).sum(axis=2)).min()))
        return inter

    for _ in range(rounds):
        changed = False
        for r, plan in enumerate(plans):
            if plan is None or clearance(r, X) >= min_sep:
                continue
            nm, mov1, g2, mov2 = plan
            best = (clearance(r, X), None)
            base = X.copy()
            for d1 in (0.0, 120.0, 240.0):
                P1 = base.copy()
                if d1:
                    R = _rot_axis(base[nm["CB"]] - base[nm["CA"]], d1)
                    P1[mov1] = (base[mov1] - base[nm["CB"]]) @ R.T + base[nm["CB"]]
                for d2 in ((0.0, 120.0, 240.0, 180.0, 60.0, 300.0) if g2 else (0.0,)):
                    P = P1
                    if d2:
                        P = P1.copy()
                        R = _rot_axis(P1[nm[g2]] - P1[nm["CB"]], d2)
                        P[mov2] = (P1[mov2] - P1[nm[g2]]) @ R.T + P1[nm[g2]]
                    c = clearance(r, P)
                    if c > best[0] + 1e-9 and (best[0] < min_sep):
                        best = (c, P)
                    if best[0] >= min_sep:
                        break
                if best[0] >= min_sep:
                    break
            if best[1] is not None:
                X = best[1].copy()
                changed = True
        if not changed:
            break
    return [a.at(X[i]) for i, a in enumerate(atoms)]


# --- cyclic peptides --------------------------------------------------------


@functools.lru_cache(maxsize=1)
def _bb_geom():
    tpl = template("ALA", hydrogens=False)
    return (tuple(tpl["N"]), tuple(tpl["CA"]), tuple(tpl["C"])) + _backbone_internal(tpl)


def _frame(n, ca, c):
    e1 = _unit(ca - n)
    v = c - ca
    e2 = _unit(v - np.dot(v, e1) * e1)
    return np.column_stack([e1, e2, np.cross(e1, e2)])


def _screw(phis: Sequence[float], psis: Sequence[float], omega: float = 180.0):
    """(rise in A, twist in degrees) of the helix obtained by repeating a unit
    of k residues with torsions phis[j], psis[j] (templates' shared backbone
    geometry, ideal peptide link)."""
    k = len(phis)
    tn, tca, tc, d_nca, d_cac, a_ncac = _bb_geom()
    n0, ca0, c0 = np.array(tn), np.array(tca), np.array(tc)
    f0, o0 = _frame(n0, ca0, c0), ca0
    for j in range(k):
        n1 = place(n0, ca0, c0, PEPTIDE_CN, ANGLE_CA_C_N, psis[j])
        ca1 = place(ca0, c0, n1, d_nca, ANGLE_C_N_CA, omega)
        c1 = place(c0, n1, ca1, d_cac, a_ncac, phis[(j + 1) % k])
        n0, ca0, c0 = n1, ca1, c1
    R = _frame(n0, ca0, c0) @ f0.T
    t = ca0 - R @ o0
    th = math.acos(max(-1.0, min(1.0, (np.trace(R) - 1.0) / 2.0)))
    ax = np.array([R[2, 1] - R[1, 2], R[0, 2] - R[2, 0], R[1, 0] - R[0, 1]])
    if np.linalg.norm(ax) < 1e-9:
        return float(np.linalg.norm(t)), math.degrees(th)
    return float(np.dot(t, _unit(ax))), math.degrees(th)


def _newton2(f, p, iters: int = 14, tol: float = 1e-10):
    p = np.array(p, float)
    for _ in range(iters):
        v = f(p)
        if np.linalg.norm(v) < tol:
            return p
        h = 1e-4
        J = np.column_stack([(f(p + np.array([h, 0.0])) - v) / h, (f(p + np.array([0.0, h])) - v) / h])
        try:
            step = np.linalg.solve(J, -v)
        except np.linalg.LinAlgError:
            return None
        nrm = np.linalg.norm(step)
        if not np.isfinite(nrm):
            return None
        if nrm > 20.0:
            step *= 20.0 / nrm
        p = p + step
    return p if np.linalg.norm(f(p)) < tol else None


_RING_PHI = (-160, -120, -80, -50, 60, 120)


@functools.lru_cache(maxsize=32)
def _ring_solutions(n: int) -> tuple:
    """Backbone torsion patterns ((phis), (psis)) of a repeat unit of k = 1 or
    2 residues whose helix has zero rise and twist 360 k / n, so that n
    residues close head to tail exactly.  k = 1 (uniform phi/psi) exists only
    for n <= 5 with trans peptides; even n >= 6 use an alternating A/B unit
    (phi_A, phi_B from _RING_PHI, psi_A, psi_B solved by Newton)."""
    sols: list[tuple[tuple, tuple]] = []

    def add(phis, psis):
        key = tuple(round(_wrap(x), 3) for x in (*phis, *psis))
        for q in sols:
            if all(abs(_wrap(a - b)) < 0.05 for a, b in zip(key, (*q[0], *q[1]))):
                return
        sols.append((tuple(_wrap(x) for x in phis), tuple(_wrap(x) for x in psis)))

    if 360.0 / n >= 60.0:  # uniform
        target = 360.0 / n

        def f1(p):
            r, tw = _screw((p[0],), (p[1],))
            return np.array([r, (tw - target) / 30.0])

        for p0 in range(-150, 180, 60):
            for s0 in range(-150, 180, 60):
                p = _newton2(f1, (p0, s0))
                if p is not None:
                    add((p[0],), (p[1],))
    if not sols and n % 2 == 0 and n >= 6:
        target = 720.0 / n
        for pa in _RING_PHI:
            for pb in _RING_PHI:

                def f2(q, pa=pa, pb=pb):
                    r, tw = _screw((pa, pb), (q[0], q[1]))
                    return np.array([r, (tw - target) / 30.0])

                for s0 in (-90, 90):
                    for s1 in (-90, 90):
                        q = _newton2(f2, (s0, s1))
                        if q is not None:
                            add((pa, pb), (q[0], q[1]))
    return tuple(sorted(sols))


def ring_peptide(seq: Sequence[str], *, chain: str = "A", start: int = 1,
                 hydrogens: bool = False, origin=(0.0, 0.0, 0.0), rotation=None,
                 solution: int | None = None) -> list[AtomRec]:
    """Head-to-tail cyclic peptide (n = 3..5 or even n >= 6).

    The backbone torsions repeat with period 1 (n <= 5) or 2 (even n) and are
    solved so that the generated helix has zero rise and closes after n
    residues: C(last)-N(first) is then a regular 1.33 A trans peptide bond
    (pdb2pqr's cyclic test in assign_termini is < 1.35 A).  No OXT is written.
    Among all solutions the one with the largest minimum non-bonded
    inter-residue heavy-atom distance for THIS sequence is used unless
    `solution` picks an index of _ring_solutions(n).  phi is imposed on PRO as
    on every other residue (its ring N is then slightly pyramidal).
    Raises ValueError when no closure exists (odd n >= 7, n < 3)."""
    n = len(seq)
    sols = _ring_solutions(n) if n >= 3 else ()
    if not sols:
        raise ValueError(f"ring_peptide: no closed backbone for {n} residues "
                         "(supported: 3..5 and even n >= 6)")

    def build(sol):
        phis, psis = sol
        k = len(phis)
        return build_peptide(seq, chain=chain, start=start,
                             phi=[phis[i % k] for i in range(n)], psi=[psis[i % k] for i in range(n)],
                             hydrogens=hydrogens, origin=origin, rotation=rotation,
                             cterm_oxt=False, nterm_h=False)

    if solution is not None:
        atoms = build(sols[solution])
    else:
        best = None
        for sol in sols:
            cand = build(sol)
            score = geometry_report(cand, cyclic=True)["min_nonbonded"]
            if best is None or score > best[0] + 1e-9:
                best = (score, cand)
        atoms = best[1]
    if hydrogens:
        # first residue's amide H: in the peptide plane, trans to the closing C
        res = residues_of(atoms)
        f = {a.name: a for a in res[0]}
        tpl = template(f["N"].resname)
        if "H" in tpl and "H" not in f:
            last_c = next(a for a in res[-1] if a.name == "C").xyz
            phi0 = dihedral(last_c, f["N"].xyz, f["CA"].xyz, f["C"].xyz)
            h = place(f["C"].xyz, f["CA"].xyz, f["N"].xyz,
                      float(np.linalg.norm(tpl["H"] - tpl["N"])),
                      angle(tpl["CA"], tpl["N"], tpl["H"]), _wrap(phi0 + 180.0))
            hrec = replace(f["N"], name="H", element="H").at(h)
            idx = max(i for i, a in enumerate(atoms) if a.reskey == f["N"].reskey)
            atoms = reserial(atoms[: idx + 1] + [hrec] + atoms[idx + 1:])
    return atoms


# ---------------------------------------------------------------------------
# nucleic acids

_NA_LETTER = {"A": "A", "C": "C", "G": "G", "T": "T", "U": "U"}


def _na_template_name(item: str, rna: bool) -> str:
    s = item.upper()
    if s in definitions().map and "O3'" in definitions().map[s].map:
        return s
    if s in _NA_LETTER:
        name = ("R" if rna else "D") + s
        if name in definitions().map:
            return name
    raise KeyError(f"no nucleotide template for {item!r} (rna={rna})")


def _virtual_o3(tpl) -> np.ndarray:
    """Where O3'(i-1) sits in the template frame of nucleotide i: the fourth
    tetrahedral position on P, opposite the mean of P->O1P, P->O2P, P->O5'."""
    p = tpl["P"]
    s = sum(_unit(tpl[k] - p) for k in ("O1P", "O2P", "O5'"))
    return p - O3_P * _unit(s)


def build_strand(
    seq: Sequence[str],
    *,
    chain: str = "B",
    start: int = 1,
    rna: bool = False,
    hydrogens: bool = False,
    five_prime_phosphate: bool = False,
    resnames: str = "pdb",
    phosphate_names: str = "OP",
    epsilon: float = -135.0,
    zeta: float = 165.0,
    origin=(0.0, 0.0, 0.0),
    rotation=None,
    icode: str = "",
) -> list[AtomRec]:
    """Single nucleic-acid strand from the NA.xml templates.

    seq    'A','C','G','T','U' (with rna=False -> DA.., rna=True -> RA..) or
           template names DA/DC/DG/DT/RA/RC/RG/RU.
    resnames  'pdb': DNA written DA/DC/DG/DT, RNA written A/C/G/U (pdb2pqr maps
           them through RNA_MAPPING); 'template': RNA written RA/RC/RG/RU.
    phosphate_names  'OP' writes OP1/OP2 (PDB v3), 'O_P' writes O1P/O2P
           (the template's names).
    five_prime_phosphate  keep P/OP1/OP2 on the first nucleotide (pdb2pqr's
           5TERM patch deletes them anyway).
    Nucleotide i+1 is the rigid template placed so that its P is bonded to
    O3'(i) (1.60 A, C3'-O3'-P 119.7 deg, epsilon/zeta as given) with O3'(i) on
    P's free tetrahedral position.  The defaults (epsilon -135, zeta 165) are
    not B- or A-form: with the templates' rigid sugar/backbone torsions they
    are the (15-degree scan) pair that keeps every non-bonded inter-nucleotide
    heavy-atom distance >= 2.9 A for DNA and RNA alike (B-form -169/-108 gives
    2.6 / 2.3 A contacts).
    """
    out: list[AtomRec] = []
    prev = None
    n = len(seq)
    for i, item in enumerate(seq):
        tname = _na_template_name(item, rna)
        tpl = template(tname, hydrogens=hydrogens)
        if prev is None:
            R, t = np.eye(3), np.zeros(3)
        else:
            vo3 = _virtual_o3(tpl)
            c4, c3, o3 = prev
            tp = place(c4, c3, o3, O3_P, ANGLE_C3_O3_P, epsilon)
            to5 = place(c3, o3, tp, float(np.linalg.norm(tpl["O5'"] - tpl["P"])),
                        angle(vo3, tpl["P"], tpl["O5'"]), zeta)
            R, t = kabsch([vo3, tpl["P"], tpl["O5'"]], [o3, tp, to5])
        xyz = {k: R @ v + t for k, v in tpl.items()}
        prev = (xyz["C4'"], xyz["C3'"], xyz["O3'"])
        if i == 0 and not five_prime_phosphate:
            for k in ("P", "O1P", "O2P"):
                xyz.pop(k, None)
        if hydrogens:
            pm = definitions().patches
            if i == 0 and not five_prime_phosphate:
                a = pm["5TERM"].map["H5T"]
                xyz["H5T"] = R @ np.array([a.x, a.y, a.z], float) + t
            if i == n - 1:
                a = pm["3TERM"].map["H3T"]
                xyz["H3T"] = R @ np.array([a.x, a.y, a.z], float) + t
        is_rna = "O2'" in tpl
        if resnames == "pdb":
            rname = tname[1:] if is_rna else tname
        elif resnames == "template":
            rname = tname
        else:
            raise ValueError("resnames must be 'pdb' or 'template'")
        order = [k for k in xyz if not is_hydrogen_name(k)] + [k for k in xyz if is_hydrogen_name(k)]
        for an in order:
            p = xyz[an]
            wn = an
            if phosphate_names == "OP":
                wn = {"O1P": "OP1", "O2P": "OP2"}.get(an, an)
            out.append(
                AtomRec("ATOM", 0, wn, "", rname, chain, start + i, icode,
                        float(p[0]), float(p[1]), float(p[2]), 1.0, 0.0, _element(an))
            )
    if not out:
        return out
    anchor = out[0].xyz
    R = np.eye(3) if rotation is None else np.asarray(rotation, float)
    out = [a.at(R @ (a.xyz - anchor) + np.asarray(origin, float)) for a in out]
    return reserial(out)


# ---------------------------------------------------------------------------
# waters


def _fib_sphere(k: int) -> np.ndarray:
    i = np.arange(k) + 0.5
    ph = np.arccos(1 - 2 * i / k)
    th = math.pi * (1 + 5 ** 0.5) * i
    return np.stack([np.cos(th) * np.sin(ph), np.sin(th) * np.sin(ph), np.cos(ph)], axis=1)


def waters(
    n: int,
    *,
    around: Sequence[AtomRec],
    min_dist: float = 3.5,
    chain: str = "W",
    start: int = 1,
    rng: np.random.Generator | None = None,
    near: AtomRec | Sequence[float] | None = None,
    near_dist: float = 2.8,
    hydrogens: bool = False,
    resname: str = "HOH",
    shell: float = 3.0,
) -> list[AtomRec]:
    """n HETATM waters (O only unless hydrogens=True) on grid points at least
    min_dist from every atom of `around` and from each other, drawn (with rng,
    else the first in grid order) from the shell [min_dist, min_dist+shell]
    around the solute.  near= an atom (or xyz): the FIRST water is put at
    near_dist from it, in the direction (of 400 on a Fibonacci sphere) that
    maximises its distance to every other atom of `around`, so that it can
    hydrogen-bond to that atom only."""
    base = coords(around)
    placed: list[np.ndarray] = []
    if near is not None and n > 0:
        c = near.xyz if isinstance(near, AtomRec) else np.asarray(near, float)
        rest = base[np.sqrt(((base - c) ** 2).sum(axis=1)) > 1e-6] if len(base) else base
        best = None
        for u in _fib_sphere(400):
            p = c + near_dist * u
            m = float(np.sqrt(((rest - p) ** 2).sum(axis=1)).min()) if len(rest) else math.inf
            if best is None or m > best[0] + 1e-12:
                best = (m, p)
        placed.append(best[1])
    if len(placed) < n:
        if len(base):
            lo, hi = base.min(axis=0) - (min_dist + shell), base.max(axis=0) + (min_dist + shell)
        else:
            lo, hi = np.zeros(3) - min_dist * n, np.zeros(3) + min_dist * n
        while len(placed) < n:
            ax = [np.arange(lo[k], hi[k] + 1e-9, min_dist) for k in range(3)]
            grid = np.stack(np.meshgrid(*ax, indexing="ij"), axis=-1).reshape(-1, 3)
            if len(base):
                d = np.concatenate([
                    np.sqrt(((grid[k:k + 256, None, :] - base[None, :, :]) ** 2).sum(axis=2)).min(axis=1)
                    for k in range(0, len(grid), 256)
                ]) if len(grid) else np.zeros(0)
                grid = grid[(d >= min_dist) & (d <= min_dist + shell)]
            order = rng.permutation(len(grid)) if rng is not None else np.arange(len(grid))
            for j in order:
                p = grid[j]
                if all(np.linalg.norm(p - q) >= min_dist for q in placed):
                    placed.append(p)
                    if len(placed) == n:
                        break
            if len(placed) < n:  # widen the shell and try again
                shell += min_dist
                lo, hi = lo - min_dist, hi + min_dist
    out = []
    wt = template("WAT")
    for i, p in enumerate(placed[:n]):
        out.append(AtomRec("HETATM", 0, "O", "", resname, chain, start + i, "",
                           float(p[0]), float(p[1]), float(p[2]), 1.0, 0.0, "O"))
        if hydrogens:
            R = random_rotation(rng) if rng is not None else np.eye(3)
            for hn in ("H1", "H2"):
                q = p + R @ (wt[hn] - wt["O"])
                out.append(AtomRec("HETATM", 0, hn, "", resname, chain, start + i, "",
                                   float(q[0]), float(q[1]), float(q[2]), 1.0, 0.0, "H"))
    return reserial(out)


# ---------------------------------------------------------------------------
# two-body constructions


def _heavy(atoms):
    return [a for a in atoms if not a.is_hydrogen]


def disulfide_pair(
    dist: float = 2.04,
    *,
    chains=("A", "B"),
    rng: np.random.Generator | None = None,
    seq=("ALA", "CYS", "ALA"),
    hydrogens: bool = False,
    snap: bool = True,
    resname: str | None = None,
    start=(1, 1),
) -> tuple[list[AtomRec], list[AtomRec]]:
    """Two peptides (default ALA-CYS-ALA each, residue name of the cysteine
    overridable with resname='CYX') rigidly placed so that the SG-SG distance
    is `dist`: CB-SG-SG angles 104 deg, CB-SG-SG-CB torsion and the two
    remaining rotations chosen (deterministic scan) to maximise the smallest
    other inter-chain distance.

    snap=True (default): the SG-SG vector lies along +x, both SG have the same
    y,z and all coordinates are shifted so that SG(A) is on the 0.001 grid;
    if `dist` is a multiple of 0.001 the distance therefore survives the
    %8.3f PDB rounding to within an ulp.  With rng the pair is then NOT
    randomly rotated (use snap=False for a random overall rotation; the
    in-memory distance is then exact to ~1e-15 but the PDB text rounds it).
    """
    seq = list(seq)
    if resname is not None:
        seq = [resname if definitions().map[s].name == "CYS" else s for s in seq]
    a = build_peptide(seq, chain=chains[0], start=start[0], hydrogens=hydrogens)
    b0 = build_peptide(seq, chain=chains[1], start=start[1], hydrogens=hydrogens)

    def pick(atoms, nm):
        return next(x for x in atoms if x.name == nm and definitions().map[x.resname].name == "CYS")

    cb1, sg1 = pick(a, "CB").xyz, pick(a, "SG").xyz
    ca1 = pick(a, "CA").xyz
    cbt, sgt, cat = pick(b0, "CB").xyz, pick(b0, "SG").xyz, pick(b0, "CA").xyz
    xa = coords(_heavy(a))
    sg_a_idx = [i for i, x in enumerate(_heavy(a)) if x.name == "SG"]
    hb = _heavy(b0)
    xb0 = coords(hb)
    sg_b_idx = [i for i, x in enumerate(hb) if x.name == "SG"]
    d_cbsg = float(np.linalg.norm(cbt - sgt))
    best = None
    for chi_a in range(0, 360, 30):          # rotation of SG2 about CB1-SG1
        sg2 = place(ca1, cb1, sg1, dist, 104.0, float(chi_a))
        for tors in (90.0, -90.0, 60.0, -60.0, 120.0, -120.0, 180.0):
            cb2 = place(cb1, sg1, sg2, d_cbsg, 104.0, tors)
            for chi_b in range(0, 360, 30):  # rotation of chain B about SG2-CB2
                ca2 = place(sg1, sg2, cb2, float(np.linalg.norm(cat - cbt)),
                            angle(sgt, cbt, cat), float(chi_b))
                R, t = kabsch([sgt, cbt, cat], [sg2, cb2, ca2])
                xb = xb0 @ R.T + t
                d = np.sqrt(((xa[:, None, :] - xb[None, :, :]) ** 2).sum(axis=2))
                for i in sg_a_idx:
                    for j in sg_b_idx:
                        d[i, j] = math.inf
                score = float(d.min())
                if best is None or score > best[0] + 1e-9:
                    best = (score, R, t)
    _score, R, t = best
    b = rigid(b0, R, t)
    # make the distance exact: move chain B along the SG-SG line
    s1, s2 = pick(a, "SG").xyz, pick(b, "SG").xyz
    u = _unit(s2 - s1)
    b = rigid(b, None, (s1 + dist * u) - s2)
    if snap:
        # rotate everything so that u -> +x, then put SG(A) on the 0.001 grid
        ex = np.array([1.0, 0.0, 0.0])
        v = np.cross(u, ex)
        if np.linalg.norm(v) < 1e-12:
            Rx = np.eye(3) if u[0] > 0 else _rot_axis([0, 0, 1], 180.0)
        else:
            Rx = _rot_axis(v, math.degrees(math.atan2(np.linalg.norm(v), float(np.dot(u, ex)))))
        a, b = rigid(a, Rx), rigid(b, Rx)
        s1 = pick(a, "SG").xyz
        shift = np.round(s1, 3) - s1
        a, b = rigid(a, None, shift), rigid(b, None, shift)
        s1 = np.round(pick(a, "SG").xyz, 3)
        s2 = pick(b, "SG").xyz
        target = np.array([float(s1[0]) + dist, float(s1[1]), float(s1[2])])
        b = rigid(b, None, target - s2)
        # write the two SG exactly
        a = [x.at(s1) if (x.name == "SG") else x for x in a]
        b = [x.at(target) if (x.name == "SG") else x for x in b]
    elif rng is not None:
        Rr = random_rotation(rng)
        a, b = rigid(a, Rr), rigid(b, Rr)
        s1, s2 = pick(a, "SG").xyz, pick(b, "SG").xyz
        b = rigid(b, None, (s1 + dist * _unit(s2 - s1)) - s2)
    return a, b


def pack_against(atoms_a: Sequence[AtomRec], atoms_b: Sequence[AtomRec], gap: float,
                 *, direction=None, heavy_only: bool = True) -> list[AtomRec]:
    """Translate atoms_b along `direction` (default: centroid(a)->centroid(b),
    +x if they coincide) so that the smallest a-b interatomic distance equals
    `gap` (to ~1e-9): b is first moved out of contact, then slid back in until
    the first contact at `gap`.  gap below ~2 A forces bumps."""
    sa = _heavy(atoms_a) if heavy_only else list(atoms_a)
    sb = _heavy(atoms_b) if heavy_only else list(atoms_b)
    xa, xb = coords(sa), coords(sb)
    if direction is None:
        direction = xb.mean(axis=0) - xa.mean(axis=0)
        if np.linalg.norm(direction) < 1e-9:
            direction = np.array([1.0, 0.0, 0.0])
    u = _unit(np.asarray(direction, float))

    def md(s):
        return min_distance(xa, xb + s * u)

    # far enough along u that the two are certainly separated by more than gap
    span = float(np.linalg.norm(xa.max(axis=0) - xa.min(axis=0)) + np.linalg.norm(xb.max(axis=0) - xb.min(axis=0)))
    hi = span + gap + float(abs(np.dot(xb.mean(axis=0) - xa.mean(axis=0), u))) + 10.0
    while md(hi) <= gap:
        hi *= 2.0
    s = hi
    step = 0.25
    while md(s - step) > gap:
        s -= step
        if s < -hi:
            raise ValueError("pack_against: no contact along direction")
    lo_s, hi_s = s - step, s
    for _ in range(80):
        mid = 0.5 * (lo_s + hi_s)
        if md(mid) > gap:
            hi_s = mid
        else:
            lo_s = mid
    return rigid(atoms_b, None, hi_s * u)


# ---------------------------------------------------------------------------
# geometry report (used by the self test; handy for callers too)


def geometry_report(atoms: Sequence[AtomRec], *, cyclic: bool = False) -> dict:
    """Sanity numbers of a built structure (heavy atoms only):
    peptide_cn        consecutive C-N distances (< 1.7 A apart counts as a link)
    o3_p              consecutive O3'-P distances
    min_interresidue  smallest distance between heavy atoms of different
                      residues, not counting the bonded C-N / O3'-P / SG-SG pairs
    min_pair          the two atoms realising it
    min_nonbonded     same, additionally not counting the 1-3 pairs across a
                      link (CA/O/OXT(i)-N(i+1), C(i)-CA/CD(i+1); C3'/O3'(i)-P/
                      OP1/OP2/O5'(i+1); CB-SG' of a disulfide)
    nonbonded_pair    the two atoms realising it
    chirality         {reskey: sign} of (N-CA)x(C-CA).(CB-CA) (L-amino acids: +1)
    `cyclic` also treats last -> first residue of the list as consecutive."""
    res = [r for r in residues_of(_heavy(atoms))]
    xs = [coords(r) for r in res]
    names = [[a.name for a in r] for r in res]
    cn, op = [], []
    ex12: dict[tuple[int, int], list[tuple[str, str]]] = {}
    ex13: dict[tuple[int, int], list[tuple[str, str]]] = {}
    nres = len(res)
    for k in range(nres - 1 + (1 if cyclic and nres > 2 else 0)):
        i, j = k, (k + 1) % nres
        if res[i][0].chain != res[j][0].chain:
            continue
        m1 = {a.name: a.xyz for a in res[i]}
        m2 = {a.name: a.xyz for a in res[j]}
        key = (min(i, j), max(i, j))
        sw = i > j  # pair stored as (name in lower index, name in higher index)

        def put(dct, a, b, key=key, sw=sw):
            dct.setdefault(key, []).append((b, a) if sw else (a, b))

        if "C" in m1 and "N" in m2 and "CA" in m1 and "CA" in m2:
            d = float(np.linalg.norm(m1["C"] - m2["N"]))
            cn.append(d)
            if d < 1.7:
                put(ex12, "C", "N")
                for a in ("CA", "O", "OXT"):
                    put(ex13, a, "N")
                put(ex13, "C", "CA")
                if "CD" in m2 and np.linalg.norm(m2["CD"] - m2["N"]) < 1.7:
                    put(ex13, "C", "CD")
        if "O3'" in m1 and "P" in m2:
            d = float(np.linalg.norm(m1["O3'"] - m2["P"]))
            op.append(d)
            if d < 2.0:
                put(ex12, "O3'", "P")
                put(ex13, "C3'", "P")
                for b in ("OP1", "OP2", "O1P", "O2P", "O5'"):
                    put(ex13, "O3'", b)
    best = (math.inf, None, None)
    best_nb = (math.inf, None, None)
    for i in range(nres):
        for j in range(i + 1, nres):
            d = np.sqrt(((xs[i][:, None, :] - xs[j][None, :, :]) ** 2).sum(axis=2))
            ss = "SG" in names[i] and "SG" in names[j] and \
                d[names[i].index("SG"), names[j].index("SG")] < 2.5
            l12 = list(ex12.get((i, j), []))
            l13 = list(ex13.get((i, j), []))
            if ss:
                l12.append(("SG", "SG"))
                l13 += [("CB", "SG"), ("SG", "CB")]
            for a, b in l12:
                if a in names[i] and b in names[j]:
                    d[names[i].index(a), names[j].index(b)] = math.inf
            m = float(d.min())
            if m < best[0]:
                p, q = np.unravel_index(int(d.argmin()), d.shape)
                best = (m, res[i][p], res[j][q])
            for a, b in l13:
                if a in names[i] and b in names[j]:
                    d[names[i].index(a), names[j].index(b)] = math.inf
            m = float(d.min())
            if m < best_nb[0]:
                p, q = np.unravel_index(int(d.argmin()), d.shape)
                best_nb = (m, res[i][p], res[j][q])
    chir = {}
    for r in res:
        m = {a.name: a.xyz for a in r}
        if all(k in m for k in ("N", "CA", "C", "CB")):
            v = float(np.dot(np.cross(m["N"] - m["CA"], m["C"] - m["CA"]), m["CB"] - m["CA"]))
            chir[r[0].reskey] = 1 if v > 0 else -1
    return {
        "peptide_cn": cn,
        "o3_p": op,
        "min_interresidue": best[0],
        "min_pair": (best[1], best[2]),
        "min_nonbonded": best_nb[0],
        "nonbonded_pair": (best_nb[1], best_nb[2]),
        "chirality": chir,
    }


# ---------------------------------------------------------------------------
# writers


def _atom_name_field(name: str, element: str, strict: bool) -> str:
    if len(name) >= 4 or len(element.strip()) == 2:
        if len(name) > 4 and strict:
            raise ValueError(f"atom name too long: {name!r}")
        return name.ljust(4)
    return " " + name.ljust(3)


def _blank(s: str) -> str:
    return s if s else " "


def _flatten(atoms) -> list[list[AtomRec]]:
    """list of chains (lists) from either a flat atom list or a list of lists."""
    atoms = list(atoms)
    if atoms and isinstance(atoms[0], AtomRec):
        chains: list[list[AtomRec]] = []
        for a in atoms:
            if not chains or chains[-1][-1].chain != a.chain:
                chains.append([])
            chains[-1].append(a)
        return chains
    return [list(c) for c in atoms if len(c)]


def to_pdb(
    atoms,
    *,
    ter: bool = True,
    end: bool = True,
    hetatm_for: Sequence[str] = ("HOH",),
    serial_start: int | None = 1,
    altloc: str = " ",
    icodes: dict | None = None,
    crlf: bool = False,
    strict: bool = True,
    header: Sequence[str] = (),
) -> str:
    """PDB v3.3 text, fixed columns.

    atoms       flat list (chains split where the chain ID changes) or a list
                of chains; a TER record follows every chain that has polymer
                (ATOM) records, placed after its last ATOM record.
    hetatm_for  residue names forced to HETATM (others keep AtomRec.record).
    serial_start  renumber serials from here (TER consumes one, as in the PDB);
                None keeps AtomRec.serial.
    altloc      written for atoms whose own altloc is blank.
    icodes      {(chain, resseq): icode} overrides AtomRec.icode.
    strict      raise ValueError when a field overflows its columns; False
                lets it overflow (malformed-input experiments).
    Atom names: < 4 characters with a 1-letter element start in column 14,
    4-character names in column 13.  Element right-justified in 77-78.
    """
    nl = "\r\n" if crlf else "\n"
    lines = [h.rstrip("\r\n") for h in header]
    serial = serial_start
    for ch in _flatten(atoms):
        last_poly = max((i for i, a in enumerate(ch)
                         if a.record == "ATOM" and a.resname not in hetatm_for), default=-1)
        for i, a in enumerate(ch):
            rec = "HETATM" if a.resname in hetatm_for else a.record
            ser = a.serial if serial is None else serial
            ic = a.icode
            if icodes and (a.chain, a.resseq) in icodes:
                ic = icodes[(a.chain, a.resseq)]
            al = a.altloc if a.altloc.strip() else altloc
            el = a.element or _element(a.name)
            fields = (
                (rec, 6), (str(ser), 5), (a.resname, 3), (_blank(a.chain), 1),
                (str(a.resseq), 4), (_blank(ic), 1), (_blank(al), 1), (el, 2),
                (f"{a.x:.3f}", 8), (f"{a.y:.3f}", 8), (f"{a.z:.3f}", 8),
                (f"{a.occ:.2f}", 6), (f"{a.bfac:.2f}", 6),
            )
            if strict:
                for val, w in fields:
                    if len(val) > w:
                        raise ValueError(f"field {val!r} wider than {w} columns in {a}")
            line = (
                f"{rec:<6s}{ser:>5d} {_atom_name_field(a.name, el, strict)}{_blank(al)}"
                f"{a.resname:>3s} {_blank(a.chain)}{a.resseq:>4d}{_blank(ic)}   "
                f"{a.x:8.3f}{a.y:8.3f}{a.z:8.3f}{a.occ:6.2f}{a.bfac:6.2f}          "
                f"{el:>2s}  "
            )
            lines.append(line)
            if serial is not None:
                serial += 1
            if ter and i == last_poly:
                ser_t = (a.serial + 1) if serial is None else serial
                lines.append(
                    f"TER   {ser_t:>5d}      {a.resname:>3s} {_blank(a.chain)}{a.resseq:>4d}{_blank(ic)}"
                    + " " * 53
                )
                if serial is not None:
                    serial += 1
    if end:
        lines.append("END" + " " * 77)
    return nl.join(lines) + nl


def to_cif(atoms, *, data_name: str = "BUILT", hetatm_for: Sequence[str] = ("HOH",)) -> str:
    """Minimal mmCIF: the categories pdb2pqr/cif.py dereferences, each with one
    row, plus the _atom_site loop with exactly the items atom_site() reads.
    NOTE cif.py rebuilds a fixed-column ATOM line from label_atom_id (3 wide,
    always from column 14), label_comp_id, label_asym_id and auth_seq_id and has
    no insertion-code item: icodes are lost and 4-character atom names shift the
    line (that is the code's behaviour, not the writer's)."""
    out = [f"data_{data_name}", "#"]
    one = [
        ("entry", [("id", data_name[:4])]),
        ("struct_keywords", [("entry_id", data_name[:4]), ("pdbx_keywords", "'DE NOVO PROTEIN'"),
                             ("text", "'synthetic structure'")]),
        ("pdbx_database_status", [("entry_id", data_name[:4]),
                                  ("recvd_initial_deposition_date", "2000-01-01")]),
        ("struct", [("entry_id", data_name[:4]), ("title", "'synthetic structure built from templates'")]),
        ("entity", [("id", "1"), ("type", "polymer"), ("pdbx_description", "'synthetic'")]),
        ("exptl", [("entry_id", data_name[:4]), ("method", "'THEORETICAL MODEL'")]),
        ("audit_author", [("name", "'Builder, A.'"), ("pdbx_ordinal", "1")]),
        ("cell", [("entry_id", data_name[:4]), ("length_a", "1.000"), ("length_b", "1.000"),
                  ("length_c", "1.000"), ("angle_alpha", "90.00"), ("angle_beta", "90.00"),
                  ("angle_gamma", "90.00"), ("Z_PDB", "1")]),
        ("symmetry", [("entry_id", data_name[:4]), ("space_group_name_H-M", "'P 1'")]),
        ("atom_sites", [("entry_id", data_name[:4])]
         + [(f"fract_transf_matrix[{i}][{j}]", "1.000000" if i == j else "0.000000")
            for i in (1, 2, 3) for j in (1, 2, 3)]
         + [(f"fract_transf_vector[{i}]", "0.00000") for i in (1, 2, 3)]),
        ("database_PDB_matrix", [("entry_id", data_name[:4])]
         + [(f"origx[{i}][{j}]", "1.000000" if i == j else "0.000000")
            for i in (1, 2, 3) for j in (1, 2, 3)]
         + [(f"origx_vector[{i}]", "0.00000") for i in (1, 2, 3)]),
    ]
    for cat, items in one:
        out += [f"_{cat}.{k} {v}" for k, v in items] + ["#"]
    out += ["loop_"] + [
        "_atom_site." + k
        for k in (
            "group_PDB", "id", "type_symbol", "label_atom_id", "label_alt_id",
            "label_comp_id", "label_asym_id", "label_entity_id", "label_seq_id",
            "pdbx_PDB_ins_code", "Cartn_x", "Cartn_y", "Cartn_z", "occupancy",
            "B_iso_or_equiv", "pdbx_formal_charge", "auth_seq_id", "auth_comp_id",
            "auth_asym_id", "auth_atom_id", "pdbx_PDB_model_num",
        )
    ]

    def q(s: str) -> str:
        if s == "":
            return "."
        if "'" in s:
            return '"' + s + '"'
        return s

    serial = 1
    for ch in _flatten(atoms):
        for a in ch:
            rec = "HETATM" if a.resname in hetatm_for else a.record
            el = a.element or _element(a.name)
            out.append(
                " ".join(
                    [
                        rec, str(serial), el, q(a.name), q(a.altloc.strip()) if a.altloc.strip() else ".",
                        a.resname, q(a.chain.strip()) if a.chain.strip() else ".", "1", str(a.resseq),
                        q(a.icode.strip()) if a.icode.strip() else "?",
                        f"{a.x:.3f}", f"{a.y:.3f}", f"{a.z:.3f}", f"{a.occ:.2f}", f"{a.bfac:.2f}",
                        "?", str(a.resseq), a.resname, q(a.chain.strip()) if a.chain.strip() else ".",
                        q(a.name), "1",
                    ]
                )
            )
            serial += 1
    out.append("#")
    return "\n".join(out) + "\n"


# ---------------------------------------------------------------------------
# running pdb2pqr


class _ListHandler(logging.Handler):
    def __init__(self, level):
        super().__init__(level)
        self.records: list[logging.LogRecord] = []

    def emit(self, record):
        self.records.append(record)


@contextlib.contextmanager
def capture_pdb2pqr_log(level: int = logging.WARNING):
    """Temporarily collect records at `level`+ of the 'pdb2pqr' logger tree AND
    of pdb2pqr.main's own logger (which is named 'PDB2PQR<version>', outside
    that tree).  Nothing is propagated to the root handlers meanwhile."""
    from pdb2pqr import main as pmain

    h = _ListHandler(level)
    loggers = [logging.getLogger("pdb2pqr"), pmain._LOGGER]
    old = [(lg.level, lg.propagate) for lg in loggers]
    for lg in loggers:
        lg.addHandler(h)
        lg.setLevel(level)
        lg.propagate = False
    try:
        yield h.records
    finally:
        for lg, (lv, pr) in zip(loggers, old):
            lg.removeHandler(h)
            lg.setLevel(lv)
            lg.propagate = pr


def run_pdb2pqr(pdb_text: str, args: Sequence[str], *, workdir, log_level: int = logging.WARNING,
                input_name: str = "input.pdb", output_name: str = "output.pqr") -> dict:
    """Run pdb2pqr.main.main_driver on `pdb_text` with command-line options
    `args` (e.g. ['--ff=AMBER']); input/output paths are appended.

    Returns dict(result=(missed, pka_df, biomolecule) | None, exc=BaseException
    | None, pqr_text=str | None, log=[LogRecord at log_level+ from 'pdb2pqr.*'],
    messages=[formatted 'LEVEL:logger:message'], stderr=str, input_path,
    output_path).  Never raises for a failure inside pdb2pqr (SystemExit from
    argparse included).  `workdir` must be a scratch directory outside /repo
    and /verif; input_name may end in .cif to exercise the CIF reader."""
    from pdb2pqr import main as pmain

    wd = Path(workdir)
    wd.mkdir(parents=True, exist_ok=True)
    inp, outp = wd / input_name, wd / output_name
    with open(inp, "w", encoding="utf-8", newline="") as fh:
        fh.write(pdb_text)
    for stale in (outp, outp.with_suffix(".log")):
        if stale.exists():
            stale.unlink()
    res = {"result": None, "exc": None, "pqr_text": None, "log": [], "messages": [],
           "stderr": "", "input_path": str(inp), "output_path": str(outp)}
    err = _io.StringIO()
    with capture_pdb2pqr_log(log_level) as records, contextlib.redirect_stderr(err):
        try:
            ns = pmain.build_main_parser().parse_args([*map(str, args), str(inp), str(outp)])
            res["result"] = pmain.main_driver(ns)
        except BaseException as exc:  # noqa: BLE001 - the caller classifies it
            if isinstance(exc, KeyboardInterrupt):
                raise
            res["exc"] = exc
    res["log"] = list(records)
    res["messages"] = [f"{r.levelname}:{r.name}:{r.getMessage()}" for r in records]
    res["stderr"] = err.getvalue()
    if outp.exists():
        res["pqr_text"] = outp.read_text(encoding="utf-8")
    return res


def setup_biomolecule(pdb_text: str, *, termini: bool = True, log_level: int = logging.WARNING):
    """Parse `pdb_text` with pdb2pqr's reader and build the Biomolecule exactly
    as main_driver does up to (not including) non_trivial: read_pdb ->
    setup_molecule -> set_termini -> update_bonds.  Returns dict(biomolecule,
    definition, pdblist, errlist, missing=num_missing_heavy BEFORE any repair,
    log, messages)."""
    from pdb2pqr import io as pio
    from pdb2pqr import main as pmain
    from pdb2pqr import pdb as ppdb

    with capture_pdb2pqr_log(log_level) as records:
        pdblist, errlist = ppdb.read_pdb(_io.StringIO(pdb_text))
        definition = pio.get_definitions()
        bio, definition, _lig = pmain.setup_molecule(pdblist, definition, None)
        if termini:
            bio.set_termini()
            bio.update_bonds()
        missing = bio.num_missing_heavy
    return {
        "biomolecule": bio, "definition": definition, "pdblist": pdblist, "errlist": errlist,
        "missing": missing, "log": list(records),
        "messages": [f"{r.levelname}:{r.name}:{r.getMessage()}" for r in records],
    }


def parse_pqr(pqr_text: str) -> list[dict]:
    """Whitespace-split ATOM/HETATM lines of a PQR written WITHOUT --keep-chain
    or with it (chain column detected by field count)."""
    out = []
    for ln in pqr_text.splitlines():
        if not ln.startswith(("ATOM", "HETATM")):
            continue
        f = ln.split()
        if len(f) == 11:
            rec, ser, name, resn, chain, resseq, x, y, z, q, r = f
        elif len(f) == 10:
            rec, ser, name, resn, resseq, x, y, z, q, r = f
            chain = ""
        else:
            raise ValueError(f"unparsable PQR line: {ln!r}")
        out.append({"record": rec, "serial": int(ser), "name": name, "resname": resn,
                    "chain": chain, "resseq": resseq, "x": float(x), "y": float(y),
                    "z": float(z), "charge": float(q), "radius": float(r)})
    return out
