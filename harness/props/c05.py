"""C05 - atoms added by pdb2pqr have template-consistent bonded geometry.

Proof: Coq theorems (Properties/C05.v) over the real-number instance of Model/Quatfit.v
(3-point fit on an exact image, +-120 degree completion, rotations through the parent, the
1 A placement) + generated obligations over the topology regenerated from /repo (all-atom
moved set = component beyond the pivot bond; template geometry sane).
Tie: (a) every quatfit.find_coordinates / Residue.rotate_tetrahedral / 1 A placement executed
in real runs is replayed in the PrimFloat instance of the model (bit-exact), every create_atom
call must come from a modelled placement site; (b) Model.Moves.moveable vs the real
set_reference_distance + get_moveable_names for all templates x dihedrals x terminus flags
over ALL atoms.
Search (model-independent): every atom with .added in the final biomolecule of real runs:
bond length to every bonded atom and bond angles vs the residue's template (tolerance scaled
by the measured distortion of the surrounding input atoms), not coincident with another atom
of the residue, still bonded to the parent it was created on."""

import itertools
import json
import math
import subprocess
import sys

import numpy as np

from harness import builder as B
from harness import core
from harness.props import c01, c04, c15

META = {
    "id": "C05",
    "level": "proof",
    "technique": (
        "Coq proofs over R about the arithmetic-generic model of quatfit.py (fit on an exact image, +-120 degree tetrahedral "
        "completion, axis rotations through the parent, 1 A placement) + vm_compute table obligations regenerated from /repo "
        "(all-atom moved set = component beyond the pivot for every template x dihedral x terminus flags; template geometry) + "
        "bit-exact replay of every observed find_coordinates / rotate_tetrahedral call in the PrimFloat instance + exhaustive "
        "moveable-set correspondence + model-independent geometry oracle over every added atom of real runs"
    ),
    "level_text": (
        "Proved for ALL inputs over the reals: if the structure neighbours are an exact proper rigid image of >=3 non-collinear template "
        "atoms (and the eigen-solver meets its contract) the placed atom has exactly the template's distance to each of them and the "
        "template's bond angles; a +-120 degree rotation about the heavy-heavy bond keeps bond length and angle to the axis atom and lands "
        "at squared distance 3 rho^2 (no coincident atoms when rho>0); with two of three hydrogens present (120 degrees apart) the +120/+240 choice of "
        "rebuild_tetrahedral lands at squared distance 3 rho^2 from BOTH; at name level, for any bond graph, add_hydrogens/repair_heavy fit on exactly the first three PRESENT "
        "names of get_nearest_bonds, never on N+1/C-1 when the peptide pointer is absent (chain break, terminus); every rotation about a bond through the parent (all optimisation / "
        "debumping moves) keeps the distances to both axis atoms, the bond angle and all distances among atoms moved together; the no-bond "
        "water hydrogen sits exactly 1 A from O. Generated obligations (vm_compute, lifted with forallb_forall): for every amino-acid "
        "template x dihedral x terminus flags the moved set is, over ALL atoms, exactly the component beyond the pivot bond - hydrogens "
        "move only with their parents (the pre-fix rank-only selection is refuted, finding C05-F6 fixed); every template atom has a parent, "
        "bond lengths 0.9-1.9 A, no two template atoms within 0.8 A (exception NPRO H3/CD). PARTIAL / explored only, not proved: the clause "
        "'within the distortion already present in the input' (structures that are NOT exact images: measured by the search with a tolerance "
        "scaled by the measured distortion), the under-determined 2-point fits (find_coordinates(2,..): bond length and angle are checked on "
        "real runs, the free torsion is not constrained by the property), LEU/ILE methyl staggering, that every pipeline path places atoms "
        "only through the modelled primitives (observed per run by the create_atom monitor), floating-point rounding, Jacobi convergence."
    ),
    "level_note": (
        "Trusted: Coq kernel+vm_compute; stdlib real-number axioms; generators gen/topology.py, gen/moves_table.py, gen/c05_table.py; the "
        "hand models Model/Quatfit.v, Model/Moves.v, Model/Placement.v (tied by differential execution); the monitors (monkeypatches of "
        "create_atom, quatfit.find_coordinates, Residue.rotate_tetrahedral, Optimize.make_atom_with_no_bonds); oracles math.cos/sin, "
        "numpy.linalg.norm; the structure builder (scaffolding)."
    ),
    "design_ref": "DESIGN.md 4 C05",
}

THEOREMS = [
    "C05_fit3_exact_geometry",
    "C05_tetra_120",
    "C05_tetra3_choice",
    "C05_rotation_keeps_parent_geometry",
    "C05_fit_neighbours",
    "C05_fit_skips_absent_pointer",
    "C05_unit_placement",
    "C05_all_atom_subtree_table",
    "C05_hydrogens_move_with_parents",
    "C05_rank_selection_refuted",
    "C05_template_geometry_table",
    "C05_nonvacuous",
]

ALLOWED_AXIOMS = c15.ALLOWED_AXIOMS

HEADER = (
    "From Coq Require Import List ZArith String PrimFloat.\n"
    "From PV Require Import Model.ForceField Model.Topology Model.Moves Model.Quatfit Model.Placement.\n"
    "Import ListNotations.\n"
)

# tolerances of the geometry oracle (see notes/C05.md): base + scale * measured distortion (A)
TOL_BOND = 0.05  # A
TOL_ANGLE = 5.0  # degrees
ANGLE_PER_A = 115.0  # degrees of angle tolerance per A of frame distortion (2 rad lever at 1 A)
COINCIDE = 0.1  # A
PSEUDO = ("N+1", "C-1")

# create_atom call sites and the placement primitive each one uses
SITE_KIND = {
    "Biomolecule.add_hydrogens": "fit",
    "Biomolecule.repair_heavy": "fit",
    "Amino.rebuild_tetrahedral": "fit-or-rotation",
    "Optimize.make_atom_with_no_bonds": "unit",
    "Optimize.make_water_with_one_bond": "fit",
    "Optimize.make_atom_with_one_bond_h": "fit",
    "Optimize.make_atom_with_one_bond_lp": "fit",
    "Optimize.try_positions_with_two_bonds_h": "rotation",
    "Optimize.try_positions_with_two_bonds_lp": "rotation",
    "Optimize.try_positions_three_bonds_h": "rotation",
    "Optimize.try_positions_three_bonds_lp": "rotation",
    "Alcoholic.finalize": "rotation",
    "Water.finalize": "unit-or-rotation",
    "Flip.__init__": "copy",
    "Carboxylic.__init__": "copy",
    "HydrogenRoutines.switchstate": "fit",
    "HydrogenRoutines.pka_switchstate": "fit",
}


# --------------------------------------------------------------------------
# monitor


def _caller_sites(depth=2):
    """qualnames of the pdb2pqr frames above the wrapper, innermost first."""
    f = sys._getframe(depth)
    out = []
    while f is not None and len(out) < 6:
        code = f.f_code
        if "/pdb2pqr/" in code.co_filename:
            out.append((getattr(code, "co_qualname", code.co_name), f))
        f = f.f_back
    return out


def tc(t):
    return (float(t.x), float(t.y), float(t.z))


def angle_deg(a, b, c):
    u = np.asarray(a, float) - np.asarray(b, float)
    v = np.asarray(c, float) - np.asarray(b, float)
    nu, nv = np.linalg.norm(u), np.linalg.norm(v)
    if nu == 0 or nv == 0:
        return float("nan")
    return math.degrees(math.acos(max(-1.0, min(1.0, float(np.dot(u, v) / nu / nv)))))


BONDED = 2.0  # A: two atoms further apart are not bonded, whatever a pointer or a bond list says


def resolve(res, name):
    """The atom a template name stands for. The pseudo atoms N+1 / C-1 are the peptide pointers, but ONLY if
    that atom really is within bonding distance of this residue's C / N: across a chain break there is no
    neighbour (the unchanged code sets the pointers to None there), so no angle or distortion is taken from it."""
    if name in PSEUDO:
        other = getattr(res, "peptide_n" if name == "N+1" else "peptide_c", None)
        mine = res.get_atom("C" if name == "N+1" else "N")
        if other is None or mine is None or math.dist(other.coords, mine.coords) > BONDED:
            return None
        return other
    return res.get_atom(name)


class Monitor:
    """Monkeypatches the placement entry points for the duration of one run."""

    def __init__(self):
        self.fits = []  # find_coordinates calls
        self.rots = []  # rotate_tetrahedral calls
        self.units = []  # 1 A placements
        self.creates = {}  # site -> count
        self.unknown_sites = {}
        self.last_fit = None
        self.seq = 0
        self.recent = []  # last rotate_tetrahedral calls with the moved atom objects
        self.dihedral_calls = 0
        self.bio = None
        self.dihedral_hist = {}  # (residue, dihedral index) -> numbers of added hydrogens the residue had at the calls
        self.dihedral_fail = []  # Debump.set_dihedral_angle calls whose moved set is not the current subtree
        self.choices = []  # rebuild_tetrahedral numbonds == 3: the +120 / +240 choice

    def __enter__(self):
        from pdb2pqr import aa, na
        from pdb2pqr import quatfit as qf
        from pdb2pqr import residue as presidue
        from pdb2pqr.hydrogens import optimize as popt

        self._saved = []
        mon = self

        def patch(obj, name, new):
            self._saved.append((obj, name, obj.__dict__[name]))
            setattr(obj, name, new)

        for cls in (aa.Amino, aa.WAT, aa.LIG, na.Nucleic):
            if "create_atom" not in cls.__dict__:
                continue
            orig = cls.__dict__["create_atom"]

            def w_create(self_, atomname, newcoords, *rest, _orig=orig):
                frames = _caller_sites()
                site = frames[0][0] if frames else "?"
                r = _orig(self_, atomname, newcoords, *rest)
                atom = self_.get_atom(atomname)
                mon.creates[site] = mon.creates.get(site, 0) + 1
                if site not in SITE_KIND:
                    mon.unknown_sites[site] = mon.unknown_sites.get(site, 0) + 1
                mon.seq += 1
                info = {"site": site, "name": atomname, "src_bond": 0.0, "src_angle": 0.0, "parent": None, "seq": mon.seq}
                ctxsite = next((q for q, _ in frames[1:] if q.split(".")[0] in ("Water", "Alcoholic", "Flip", "Carboxylic", "Generic")), None)
                if ctxsite and ctxsite != site:
                    info["via"] = ctxsite
                try:
                    mon._annotate(self_, atom, info, frames)
                except Exception as e:  # noqa - diagnostics only
                    info["annot_error"] = repr(e)
                atom._c05 = info
                return r

            patch(cls, "create_atom", w_create)

        orig_fc = qf.find_coordinates

        def w_fc(numpoints, refcoords, defcoords, defatomcoords):
            out = orig_fc(numpoints, refcoords, defcoords, defatomcoords)
            frames = _caller_sites()
            rec = {
                "n": int(numpoints),
                "refs": [[float(v) for v in p] for p in refcoords],
                "defs": [[float(v) for v in p] for p in defcoords],
                "atom": [float(v) for v in defatomcoords],
                "out": [float(v) for v in out],
                "site": frames[0][0] if frames else "?",
            }
            try:
                mon._fit_names(rec, frames)
            except Exception as e:  # noqa - diagnostics only
                rec["names_error"] = repr(e)
            mon.fits.append(rec)
            mon.last_fit = rec
            return out

        patch(qf, "find_coordinates", w_fc)

        orig_rt = presidue.Residue.__dict__["rotate_tetrahedral"].__func__

        def w_rt(cls, atom1, atom2, angle):
            moved = [a for a in atom2.bonds if a != atom1]
            before = [[float(v) for v in a.coords] for a in moved]
            p1 = [float(v) for v in atom1.coords]
            p2 = [float(v) for v in atom2.coords]
            r = orig_rt(cls, atom1, atom2, angle)
            mon.recent.append({"a1": p1, "a2": p2, "angle": float(angle), "atoms": moved, "before": before})
            del mon.recent[:-3]
            if len(mon.rots) < 4000:
                frames = _caller_sites()
                mon.rots.append({"a1": p1, "a2": p2, "angle": float(angle), "before": before, "after": [[float(v) for v in a.coords] for a in moved], "site": frames[0][0] if frames else "?"})
            return r

        patch(presidue.Residue, "rotate_tetrahedral", classmethod(w_rt))

        orig_nb = popt.Optimize.make_atom_with_no_bonds

        def w_nb(self_, atom, closeatom, addname):
            o = [float(v) for v in atom.coords]
            c = [float(v) for v in closeatom.coords]
            r = orig_nb(self_, atom, closeatom, addname)
            new = atom.residue.get_atom(addname)
            mon.units.append({"o": o, "from": o, "to": c, "out": [float(v) for v in new.coords], "site": "Optimize.make_atom_with_no_bonds"})
            return r

        patch(popt.Optimize, "make_atom_with_no_bonds", w_nb)

        from pdb2pqr import debump as pdebump

        orig_sda = pdebump.Debump.__dict__["set_dihedral_angle"]

        def w_sda(self_, residue, anglenum, angle):
            before = {id(a): (a, (a.x, a.y, a.z)) for a in residue.atoms}
            r = orig_sda(self_, residue, anglenum, angle)
            mon.dihedral_calls += 1
            nh = sum(1 for a in residue.atoms if a.name.startswith("H") and getattr(a, "added", 0))
            mon.dihedral_hist.setdefault((id(residue), anglenum), set()).add(nh)
            try:
                why = mon._judge_dihedral(residue, anglenum, before)
            except Exception as e:  # noqa - a residue the oracle cannot read is reported, not fatal
                why = None
                mon.unknown_sites[f"set_dihedral_angle oracle error {type(e).__name__}"] = 1
            if why and len(mon.dihedral_fail) < 50:
                frames = _caller_sites()
                why["caller"] = frames[0][0] if frames else "?"
                mon.dihedral_fail.append(why)
            return r

        patch(pdebump.Debump, "set_dihedral_angle", w_sda)

        from pdb2pqr import biomolecule as pbio

        orig_aff = pbio.Biomolecule.__dict__["apply_force_field"]

        def w_aff(self_, *a, **k):
            # parameter assignment starts only after repair, hydrogen addition, debumping and optimisation are complete:
            # the biomolecule as built, also when the run gives up from here on (e.g. on a non-integral total charge)
            mon.bio = self_
            return orig_aff(self_, *a, **k)

        patch(pbio.Biomolecule, "apply_force_field", w_aff)
        return self

    def __exit__(self, *a):
        for obj, name, old in reversed(self._saved):
            setattr(obj, name, old)

    @staticmethod
    def _judge_dihedral(residue, anglenum, before):
        """Model-independent, at the moment of the call: the atoms whose coordinates actually changed vs the CURRENT
        truth of the residue - residue.get_moveable_names(pivot) computed fresh, and the bond lists as they are now
        (an atom all of whose bonded atoms moved must have moved; a moved atom must be in the fresh set)."""
        names = residue.reference.dihedrals[anglenum].split()
        pivot = names[2]
        changed = {a.name for a, p in before.values() if residue.map.get(a.name) is a and (a.x, a.y, a.z) != p}
        if not changed:
            return None
        disp = max(math.dist((a.x, a.y, a.z), p) for a, p in before.values())
        if disp < 1e-9:
            return None
        fresh = set(residue.get_moveable_names(pivot))
        kind = None
        detail = ""
        # bond-list truth, independent of get_moveable_names: an atom not moved although everything it is bonded to moved
        for a in residue.atoms:
            if a.name in changed or a.name in names[1:3]:
                continue
            own = [b for b in a.bonds if residue.map.get(b.name) is b]
            if own and all(b.name in changed for b in own):
                kind = "hydrogen-left-behind" if a.name.startswith("H") else "atom-left-behind"
                par = own[0]
                detail = f"{a.name} stayed while its bonded atom {par.name} moved (now {math.dist(a.coords, par.coords):.3f} A apart)"
                break
        if kind is None and changed != fresh:
            extra, missing = sorted(changed - fresh), sorted(fresh - changed)
            kind = "extra-atom-moved" if extra else "subtree-atom-not-moved"
            detail = f"moved but not in the current subtree: {extra}; in the current subtree but not moved: {missing}"
        if kind is None:
            return None
        return {"residue": str(residue), "resname": residue.name, "dihedral": " ".join(names), "kind": kind, "detail": detail,
                "moved": sorted(changed), "fresh": sorted(fresh)}

    def _fit_names(self, rec, frames):
        """For add_hydrogens / repair_heavy: which template names the three structure atoms stand for, what
        was present, and the template bond graph (input of the name-level model Model.Placement.fit_names)."""
        if not frames or rec["site"] not in ("Biomolecule.add_hydrogens", "Biomolecule.repair_heavy"):
            return
        fl = frames[0][1].f_locals
        res, x, bondlist = fl.get("residue"), fl.get("atomname"), fl.get("bondlist")
        if res is None or x is None or bondlist is None:
            return
        ref = res.reference
        rec["residue"], rec["x"] = str(res), x
        used, k = [], 0
        for b in bondlist:
            if k < len(rec["defs"]) and b in ref.map and [float(v) for v in ref.map[b].coords] == rec["defs"][k]:
                used.append(b)
                k += 1
        rec["used"] = used if k == len(rec["defs"]) else None
        rec["graph"] = {an: list(a.bonds) for an, a in ref.map.items()}
        rec["bondlist"] = list(bondlist)
        rec["present"] = [a.name for a in res.atoms]
        rec["has_pn"] = getattr(res, "peptide_n", None) is not None
        rec["has_pc"] = getattr(res, "peptide_c", None) is not None

    def _annotate(self, res, atom, info, frames):
        """parent at creation; for copies (Flip) the source atom's own deviation from the template."""
        ref = getattr(res, "reference", None)
        name = info["name"]
        base = name[:-4] if name.endswith("FLIP") else name
        if ref is not None and base in ref.map:
            for b in ref.map[base].bonds:
                if resolve(res, b) is not None or res.has_atom(b + "FLIP"):
                    info["parent"] = b
                    break
        if info["parent"] is None and atom.bonds:
            info["parent"] = atom.bonds[0].name
        # the parent as an OBJECT (names are swapped later by Flip / Carboxylic.rename)
        pobj = None
        if info["parent"]:
            pobj = (res.get_atom(info["parent"] + "FLIP") if name.endswith("FLIP") and res.has_atom(info["parent"] + "FLIP") else None) or resolve(res, info["parent"])
        info["parent_obj"] = pobj if (pobj is not None and getattr(pobj, "residue", None) is res) else None
        if info["site"] == "Flip.__init__" and ref is not None and base in ref.map:
            src = res.get_atom(base)
            if src is not None:
                bd, ad = 0.0, 0.0
                for b in ref.map[base].bonds:
                    pb = resolve(res, b)
                    if pb is None or b not in ref.map:
                        continue
                    bd = max(bd, abs(math.dist(src.coords, pb.coords) - math.dist(tc(ref.map[base]), tc(ref.map[b]))))
                    for nb in ref.map[b].bonds:
                        pn = resolve(res, nb)
                        if nb == base or pn is None or nb not in ref.map:
                            continue
                        a1 = angle_deg(pn.coords, pb.coords, src.coords)
                        a0 = angle_deg(tc(ref.map[nb]), tc(ref.map[b]), tc(ref.map[base]))
                        if a1 == a1 and a0 == a0:
                            ad = max(ad, abs(a1 - a0))
                info["src_bond"], info["src_angle"] = bd, ad
        if info["site"] == "Amino.rebuild_tetrahedral" and frames and frames[0][1].f_locals.get("numbonds") == 3:
            fl = frames[0][1].f_locals
            hat = fl.get("hatoms") or []
            rec = self.recent
            if len(hat) == 2 and len(rec) == 3 and all(r["angle"] == 120.0 for r in rec) and any(x is hat[0] for x in rec[0]["atoms"]):
                i = next(k for k, x in enumerate(rec[0]["atoms"]) if x is hat[0])
                self.choices.append({
                    "a1": rec[0]["a1"], "a2": rec[0]["a2"], "h0": rec[0]["before"][i],
                    "h1": [float(v) for v in hat[1].coords],
                    "n1": [float(v) for v in fl["newcoords1"]], "n2": [float(v) for v in fl["newcoords2"]],
                    "out": [float(v) for v in atom.coords], "site": "Amino.rebuild_tetrahedral[numbonds=3]",
                    "residue": str(res), "name": info["name"],
                })
            else:
                self.choices.append({"unmodelled": True, "site": "Amino.rebuild_tetrahedral[numbonds=3]", "residue": str(res), "name": info["name"]})
        if info["site"] == "Water.finalize" and len(frames) and "closeatom" in frames[0][1].f_locals:
            fl = frames[0][1].f_locals
            ca, oa = fl.get("closeatom"), fl.get("atom")
            if oa is not None and len(oa.bonds) <= 1 and fl.get("newcoords") is not None and len(fl["newcoords"]) == 3:
                o = [float(v) for v in oa.coords]
                if ca is not None:
                    self.units.append({"o": o, "from": [float(v) for v in ca.coords], "to": o, "out": [float(v) for v in fl["newcoords"]], "site": "Water.finalize"})


# --------------------------------------------------------------------------
# the model-independent geometry oracle


def local_delta(res, ref, center, exclude):
    """max |d_struct - d_template| over bonded (1-2) and geminal (1-3) pairs among the INPUT (not added)
    atoms within two template bonds of `center` (`exclude` left out): the distortion, already present in
    the input, of the frame an atom bonded to `center` is placed in."""
    if center not in ref.map:
        return 0.0
    names = [center]
    for n1 in ref.map[center].bonds:
        if n1 != exclude and n1 in ref.map and n1 not in names:
            names.append(n1)
    for n1 in list(names[1:]):
        for n2 in ref.map[n1].bonds:
            if n2 != exclude and n2 in ref.map and n2 not in names:
                names.append(n2)
    atoms = {}
    for n in names:
        a = resolve(res, n)
        if a is not None and not getattr(a, "added", 0):
            atoms[n] = a
    d = 0.0
    for u, v in itertools.combinations(atoms, 2):
        bu, bv = ref.map[u].bonds, ref.map[v].bonds
        if not (v in bu or u in bv or set(bu) & set(bv)):
            continue
        d = max(d, abs(math.dist(atoms[u].coords, atoms[v].coords) - math.dist(tc(ref.map[u]), tc(ref.map[v]))))
    return d


def frame_delta(res, ref, partner, x, depth=0):
    """distortion relevant for atom x bonded to `partner`; if the partner was itself added, the
    distortion of the frame IT was placed in counts too (placement errors propagate along rebuilt chains)."""
    d = local_delta(res, ref, partner, x)
    pa = resolve(res, partner)
    if pa is not None and getattr(pa, "added", 0) and depth < 4 and partner in ref.map:
        for b in ref.map[partner].bonds:
            if b != x and b in ref.map and resolve(res, b) is not None:
                d = max(d, frame_delta(res, ref, b, partner, depth + 1))
                break
    return d


def position_class(res):
    nt = bool(getattr(res, "is_n_term", 0))
    ct = bool(getattr(res, "is_c_term", 0))
    return "NC" if nt and ct else "N" if nt else "C" if ct else "-"


def check_added_atoms(ctx, bio, label, case, stats=None):
    """Every atom with .added in the final biomolecule. Returns number of failures reported."""
    nfail = 0
    for res in bio.residues:
        ref = getattr(res, "reference", None)
        # no atom present twice under its aliases (template altnames; OP1/OP2 are the v3 spellings of O1P/O2P)
        if ref is not None:
            for alt, tgt in list(getattr(ref, "altnames", {}).items()) + [("OP1", "O1P"), ("OP2", "O2P")]:
                x, y = res.get_atom(alt), res.get_atom(tgt)
                if x is not None and y is not None and x is not y and (getattr(x, "added", 0) or getattr(y, "added", 0)):
                    new = x if getattr(x, "added", 0) else y
                    inf = getattr(new, "_c05", None) or {"site": "unmonitored"}
                    nfail += 1
                    ctx.fail({"site": inf["site"], "field": "alias-duplicate", "condition": "atom-present-under-two-names", "atom": "H" if new.name.startswith("H") else "heavy"},
                             f"{label}: {res} carries {alt} and {tgt} (the same template atom; {new.name} was added at {inf['site']}, {math.dist(x.coords, y.coords):.3f} A apart)",
                             dict(case, residue=str(res), atom=new.name, field="alias-duplicate"))
        for a in res.atoms:
            if not getattr(a, "added", 0):
                continue
            info = getattr(a, "_c05", None) or {"site": "unmonitored", "src_bond": 0.0, "src_angle": 0.0, "parent": None, "seq": 0}
            site = info["site"] + (">" + info["via"] if info.get("via") else "")
            kind = "H" if a.name.startswith("H") else "heavy"
            key = (res.name, a.name, site, position_class(res))

            def fail(field, cond, what, extra=None):
                nonlocal nfail
                nfail += 1
                sig = {"site": site, "field": field, "condition": cond, "atom": kind, "residue-class": type(res).__name__ if type(res).__name__ in ("WAT", "LIG") else ("nucleic" if type(res).__module__.endswith(".na") else "amino")}
                ctx.fail(sig, f"{label}: {res} {a.name} (added at {site}): {what}", dict(case, residue=str(res), atom=a.name, field=field, **(extra or {})))

            # (1) not coincident with another atom of its residue
            md, mo = min(((math.dist(a.coords, o.coords), o.name) for o in res.atoms if o is not a), default=(9.0, None))
            if md <= COINCIDE:
                fail("coincident", "within-0.1A", f"coincides with {mo} ({md:.3f} A)", {"other": mo, "distance": md})
            if ref is None or a.name not in ref.map:
                ctx.count("added-atom-without-template")
                ctx.evaluated(key, False)
                continue
            ta = ref.map[a.name]
            partners = [b for b in ta.bonds if b in ref.map and resolve(res, b) is not None]
            if not partners:
                fail("parent", "no-bonded-atom-present", f"none of its template bond partners {ta.bonds} exists in the residue")
                ctx.evaluated(key, False)
                continue
            nangles = 0
            worst = (0.0, 0.0)
            for b in partners:
                pb = resolve(res, b)
                tb = ref.map[b]
                if getattr(pb, "added", 0) and getattr(pb, "_c05", {}).get("seq", 0) > info.get("seq", 0):
                    continue  # the bond was made when the LATER atom was placed: judged there
                delta = frame_delta(res, ref, b, a.name)
                d, td = math.dist(a.coords, pb.coords), math.dist(tc(ta), tc(tb))
                tol = TOL_BOND + delta + info["src_bond"]
                worst = (max(worst[0], abs(d - td)), worst[1])
                if not abs(d - td) <= tol:
                    cond = "too-long" if d > td else "too-short"
                    if d > 1.5 * td:
                        cond = "detached"
                    fail("bond-length", cond, f"distance to bonded {b} is {d:.3f} A, template {td:.3f} A (tolerance {tol:.3f} = {TOL_BOND} + distortion {delta:.3f})", {"partner": b, "observed": d, "template": td, "tolerance": tol})
                    break
                atol = TOL_ANGLE + ANGLE_PER_A * delta + info["src_angle"]
                bad = None
                for nb in tb.bonds:
                    if nb == a.name or nb not in ref.map:
                        continue
                    pn = resolve(res, nb)
                    if pn is None:
                        continue
                    if getattr(pn, "added", 0) and getattr(pn, "_c05", {}).get("seq", 0) > info.get("seq", 0):
                        continue  # the angle was made when the LATER atom was placed: judged there
                    if nb in PSEUDO and angle_deg(tc(ref.map[nb]), tc(tb), tc(ta)) < 90.0:
                        # template artefact: the pseudo atom C-1 of the PRO templates sits 66.7 degrees from CD
                        # (no bond angle between real template atoms is below 90); not a prescription for CD
                        ctx.count(f"template-pseudo-atom-artefact:{res.name} {nb}-{b}-{a.name}")
                        continue
                    a1 = angle_deg(pn.coords, pb.coords, a.coords)
                    a0 = angle_deg(tc(ref.map[nb]), tc(tb), tc(ta))
                    if a1 != a1 or a0 != a0:
                        continue
                    nangles += 1
                    # an added neighbour placed in its own (possibly distorted) frame widens the tolerance
                    atol_nb = atol + (ANGLE_PER_A * frame_delta(res, ref, b, nb) if getattr(pn, "added", 0) else 0.0)
                    worst = (worst[0], max(worst[1], abs(a1 - a0)))
                    if not abs(a1 - a0) <= atol_nb:
                        bad = (nb, a1, a0, atol_nb)
                        break
                if bad:
                    nb, a1, a0, t = bad
                    # deterministic diagnosis: the angle a 120-degree rotation of the sibling about a third bond at the
                    # template angle a0 from it produces (tetrahedral completion on a non-tetrahedral template angle)
                    c0 = math.cos(math.radians(a0))
                    phi = math.degrees(math.acos(max(-1.0, min(1.0, c0 * c0 + (1 - c0 * c0) * -0.5))))
                    fail("bond-angle", "tetrahedral-120-image" if abs(a1 - phi) < 0.5 else "off-template", f"angle {nb}-{b}-{a.name} is {a1:.1f}, template {a0:.1f} degrees (tolerance {t:.1f})", {"partner": b, "neighbour": nb, "observed": a1, "template": a0, "tolerance": t})
                    break
            # (3a) its OWN bond list, under the FINAL names: every listed atom of this residue must be a template
            #      bond partner of this atom (an H whose list names the other carboxyl oxygen is attached to the wrong atom)
            own = [bo for bo in a.bonds if res.map.get(bo.name) is bo]
            wrong = [bo.name for bo in own if bo.name not in ta.bonds and not bo.name.startswith("LP")]
            if wrong:
                fail("parent", "bond-list-names-non-template-partner", f"its bond list names {wrong}, its template bond partners are {list(ta.bonds)} (distance {math.dist(a.coords, own[0].coords):.3f} A to {own[0].name})", {"listed": wrong})
            elif kind == "H" and not own and not any(b in PSEUDO for b in ta.bonds):
                fail("parent", "bond-list-empty", "is in no bond list of its residue")
            # (3b) the atom OBJECT it was created on: must still be there, bonded, and be the template parent under its final name
            pobj = info.get("parent_obj")
            if pobj is not None and site.split(">")[0] not in ("Flip.__init__",):
                if res.map.get(pobj.name) is not pobj:
                    fail("parent", "parent-removed", f"the atom it was created on (now named {pobj.name}) is no longer in the residue")
                elif pobj.name not in ta.bonds:
                    fail("parent", "parent-renamed-away", f"the atom it was created on is now named {pobj.name}, which is not a template bond partner of {a.name} ({list(ta.bonds)})")
            # (3) still attached to the parent it was created on
            parent = info.get("parent")
            if parent and parent.endswith("FLIP"):
                parent = parent[:-4]
            if parent and parent in ref.map and parent in ta.bonds:
                pp = resolve(res, parent)
                if pp is None:
                    fail("parent", "parent-removed", f"the atom {parent} it was created on no longer exists")
                elif not (pp in a.bonds and a in pp.bonds) and parent not in PSEUDO:
                    fail("parent", "bond-list-lost", f"no longer in the bond lists with its parent {parent}")
            ctx.evaluated(key, nangles > 0)
            if stats is not None:
                s = stats.setdefault(site, [0, 0.0, 0.0])
                s[0] += 1
                s[1] = max(s[1], worst[0])
                s[2] = max(s[2], worst[1])
    return nfail


def check_fit_neighbours(ctx, fits, label, case):
    """Model-independent oracle on the recorded find_coordinates calls: two fitted points that are BONDED in the
    template (template distance < 1.95 A) must be within bonding distance (2.0 A) in the structure - else a
    structure atom stands for a template atom it is not (wrong neighbour list, stale pointer across a break)."""
    nfail = 0
    for r in fits:
        n = r["n"]
        bad = None
        for i in range(n):
            for j in range(i + 1, n):
                dt = math.dist(r["defs"][i], r["defs"][j])
                ds = math.dist(r["refs"][i], r["refs"][j])
                if dt < 1.95 and ds > BONDED:
                    bad = (i, j, dt, ds)
        ctx.evaluated(("fit-neighbours", r["site"], n, r.get("x"), (r.get("residue") or "").split(" ")[0], r.get("has_pn"), r.get("has_pc")), n >= 3)
        if bad:
            nfail += 1
            i, j, dt, ds = bad
            names = r.get("used") or ["?"] * n
            who = f"{r.get('residue', '?')} {r.get('x', '?')}"
            ctx.fail(
                {"site": r["site"], "field": "fit-neighbour", "condition": "not-bonded-in-structure", "points": n},
                f"{label}: placement of {who} at {r['site']}: fitted points {names[i] if i < len(names) else i} and {names[j] if j < len(names) else j} are bonded in the template ({dt:.2f} A) but {ds:.2f} A apart in the structure",
                dict(case, residue=r.get("residue"), atom=r.get("x"), field="fit-neighbour"),
            )
    return nfail


def check_dihedral_moves(ctx, mon, label, case):
    ctx.count("set_dihedral_angle:calls-judged", mon.dihedral_calls)
    both = sum(1 for v in mon.dihedral_hist.values() if len(v) > 1)
    ctx.count("history:same-dihedral-rotated-with-different-hydrogen-sets", both)
    if mon.dihedral_calls:
        ctx.evaluated(("set_dihedral_angle-moves", label), True, mon.dihedral_calls)
    seen = set()
    for w in mon.dihedral_fail:
        k = (w["residue"], w["dihedral"], w["kind"])
        if k in seen:
            continue
        seen.add(k)
        ctx.fail(
            {"site": "Debump.set_dihedral_angle", "condition": "moved-set-differs-from-current-subtree", "kind": w["kind"]},
            f"{label}: {w['residue']} dihedral {w['dihedral']} (called from {w['caller']}): {w['detail']}; moved {w['moved']}, current subtree {w['fresh']}",
            dict(case, residue=w["residue"], atom=None, field="set_dihedral_angle", dihedral=w["dihedral"]),
        )
    return len(seen)


def judge_run(ctx, bio, mon, label, case, stats=None):
    if getattr(mon, "aborted", None):
        ctx.count("run:judged-as-built-after-abort")
        label = f"{label} (run gave up after placement: {mon.aborted})"
        case = dict(case, aborted=mon.aborted)
    return check_dihedral_moves(ctx, mon, label, case) + check_fit_neighbours(ctx, mon.fits, label, case) + check_added_atoms(ctx, bio, label, case, stats)


# --------------------------------------------------------------------------
# runs


def run_text(ctx, pdb_text, args):
    wd = ctx.scratch_dir() / "run"
    with Monitor() as mon:
        r = B.run_pdb2pqr(pdb_text, args, workdir=wd)
    bio = r["result"][2] if r["result"] else None
    mon.aborted = None
    if bio is None and mon.bio is not None and r["exc"] is not None:
        # the run gave up AFTER atoms were placed (charge check, parameter assignment): the placements are judged as built
        cause = getattr(r["exc"], "__cause__", None) or r["exc"]
        mon.aborted = f"{type(cause).__name__}: {str(cause)[:100]}"
        bio = mon.bio
    return bio, mon, r["exc"]


def run_file(ctx, name, args):
    return run_text(ctx, (core.REPO / "tests" / "data" / name).read_text(), args)


OPTION_SETS = [
    ["--ff=AMBER"],
    ["--ff=PARSE", "--nodebump"],
    ["--ff=CHARMM", "--noopt"],
    ["--ff=SWANSON", "--nodebump", "--noopt"],
    ["--ff=PARSE", "--neutraln", "--neutralc"],
    ["--ff=TYL06"],
    ["--ff=PARSE", "--neutraln", "--neutralc", "--noopt"],
    ["--ff=AMBER", "--titration-state-method=propka", "--with-ph=2.0"],
    ["--ff=PARSE", "--titration-state-method=propka", "--with-ph=12.5"],
]


def build_cases(ctx):
    """Deterministic (for a seed) list of (label, pdb_text, args, kind)."""
    rng = ctx.rng
    nrng = np.random.default_rng(rng.randrange(1 << 30))
    cases = []
    aa20 = list(B.STANDARD_AA)
    rng.shuffle(aa20)
    groups = [aa20[i : i + 4] for i in range(0, 20, 4)]
    groups.append(["ASH", "GLH", "HIP", "LYN"])
    groups.append(["CYM", "TYM", "AR0", "HID", "HIE"])
    k = 0
    for g in groups:
        for rot in range(3 if not ctx.thorough else len(g)):
            seq = g[rot:] + g[:rot]
            phi = rng.choice([-120.0, -60.0, -140.0])
            psi = rng.choice([130.0, -45.0, 150.0])
            atoms = B.build_peptide(seq, phi=phi, psi=psi, rotation=B.random_rotation(nrng), origin=tuple(nrng.uniform(-30, 30, 3)))
            opts = [OPTION_SETS[k % 6], OPTION_SETS[(k + 3) % 6]] if not ctx.thorough else None
            for args in (opts if opts else OPTION_SETS[:7]):
                cases.append((f"peptide {'-'.join(seq)}", B.to_pdb(atoms), args, "peptide"))
            k += 1
    # titration through propka (state switching re-places hydrogens)
    for seq, args in [(["ASP", "HIS", "LYS", "TYR", "GLU", "CYS"], OPTION_SETS[7]), (["LYS", "TYR", "ARG", "CYS", "ASP", "HIS"], OPTION_SETS[8])]:
        cases.append((f"peptide {'-'.join(seq)}", B.to_pdb(B.build_peptide(seq)), args, "titration"))
    # nucleic acids
    for seq, rna in [("ACGT", False), ("ACGU", True), ("GATC", False)][: 3 if ctx.thorough else 2]:
        atoms = B.build_strand(list(seq), rna=rna, rotation=B.random_rotation(nrng))
        cases.append((f"{'RNA' if rna else 'DNA'} {seq}", B.to_pdb(atoms), ["--ff=AMBER"], "nucleic"))
        if ctx.thorough:
            cases.append((f"{'RNA' if rna else 'DNA'} {seq}", B.to_pdb(atoms), ["--ff=CHARMM", "--nodebump"], "nucleic"))
    # waters: hydrogen-bonded to the solute, to each other, isolated, and alone
    pep = B.build_peptide(["SER", "ASP", "LYS", "THR", "TYR", "ASN"], rotation=B.random_rotation(nrng))
    og = next(a for a in pep if a.name == "OG")
    wat = B.waters(6, around=pep, rng=nrng, near=og, near_dist=2.8, min_dist=2.9)
    cases.append(("peptide + 6 waters", B.to_pdb(pep + wat), ["--ff=AMBER"], "water"))
    cases.append(("peptide + 6 waters", B.to_pdb(pep + wat), ["--ff=PARSE", "--nodebump"], "water"))
    cases.append(("peptide + 6 waters", B.to_pdb(pep + wat), ["--ff=CHARMM", "--noopt"], "water"))
    # waters that see only each other (a cluster 12 A away from the solute) and isolated ones (no neighbour within 9 A)
    small = B.build_peptide(["GLY", "ALA", "GLY"])
    cl = B.rigid(B.waters(5, around=[], rng=nrng, min_dist=2.8, chain="X"), None, (25.0, 0.0, 0.0))
    cases.append(("5 clustered waters far from the solute", B.to_pdb(small + cl), ["--ff=AMBER"], "water"))
    far = B.rigid(B.waters(3, around=[], rng=nrng, min_dist=9.0, chain="Y"), None, (0.0, 40.0, 0.0))
    cases.append(("3 isolated waters", B.to_pdb(small + far), ["--ff=PARSE"], "water"))
    wh = B.waters(4, around=pep, rng=nrng, min_dist=2.8, hydrogens=True)
    partial = [a for i, a in enumerate(wh) if not (a.name == "H2" and a.resseq % 2 == 0)]
    cases.append(("waters with input hydrogens (some H2 missing)", B.to_pdb(pep + partial), ["--ff=AMBER"], "water"))
    # deleted side-chain heavy atoms: repair_heavy rebuilds them
    dels = [
        (["LYS", "PHE", "ARG", "ALA"], {("LYS", "CE"), ("LYS", "NZ"), ("PHE", "CZ"), ("ARG", "NH1"), ("ARG", "CZ"), ("ARG", "NH2")}),
        (["GLU", "TRP", "ILE", "MET"], {("GLU", "CD"), ("GLU", "OE1"), ("GLU", "OE2"), ("TRP", "CH2"), ("TRP", "CZ2"), ("ILE", "CD1"), ("MET", "CE")}),
        (["TYR", "LEU", "HIS", "VAL", "GLN"], {("TYR", "OH"), ("LEU", "CD1"), ("LEU", "CD2"), ("HIS", "NE2"), ("VAL", "CG2"), ("GLN", "NE2"), ("GLN", "OE1"), ("GLN", "CD")}),
        (["SER", "THR", "ASP", "ASN", "CYS", "PRO"], {("SER", "OG"), ("THR", "OG1"), ("ASP", "CG"), ("ASP", "OD1"), ("ASP", "OD2"), ("ASN", "ND2"), ("CYS", "SG"), ("PRO", "CG")}),
    ]
    pad = ["GLY", "ALA", "SER", "VAL", "ALA", "GLY", "THR", "ALA"]  # keeps the missing fraction under REPAIR_LIMIT (10 %)
    for i, (seq, gone) in enumerate(dels if ctx.thorough else dels[: 3 + (ctx.seed % 2)]):
        full = pad[:4] + seq + pad[4:]
        atoms = B.build_peptide(full, rotation=B.random_rotation(nrng))
        atoms = B.reserial(B.delete_atoms(atoms, lambda a, gone=gone: (a.resname, a.name) in gone))
        cases.append((f"missing heavy atoms {'-'.join(seq)}", B.to_pdb(atoms), OPTION_SETS[i % 3], "repair"))
    # the last residue without OXT, the first without side chain
    atoms = B.build_peptide(["ARG", "GLY", "LYS"], cterm_oxt=False)
    cases.append(("no OXT", B.to_pdb(atoms), ["--ff=AMBER"], "repair"))
    # packed pairs: bumps between added hydrogens and the partner force debumping
    packs = [(["ILE", "THR", "LEU", "LYS"], ["MET", "ILE", "THR", "GLN"]), (["ASH", "THR", "ILE", "GLH"], ["LEU", "ILE", "VAL", "ARG"]), (["LYS", "ILE", "SER", "TYR"], ["THR", "ASN", "ILE", "PHE"])]
    for i, (s1, s2) in enumerate(packs):
        a = B.build_peptide(s1, chain="A")
        b = B.build_peptide(s2, chain="B", rotation=B.random_rotation(nrng))
        for gap in ([2.0, 2.6] if ctx.thorough else [2.0 + 0.3 * ((ctx.seed + i) % 3)]):
            try:
                bb = B.pack_against(a, b, gap, direction=nrng.normal(size=3))
            except ValueError:
                continue
            cases.append((f"packed {'-'.join(s1)} | {'-'.join(s2)} gap {gap}", B.to_pdb(a + bb), OPTION_SETS[i % 2 * 5], "packed"))
    # helices (different backbone conformation, side chains relaxed by the builder)
    for seq in (["ALA", "LEU", "LYS", "GLU", "MET", "GLN", "ARG", "PHE"], ["SER", "ILE", "THR", "VAL", "ASN", "TRP", "TYR", "HIS"]):
        cases.append((f"helix {'-'.join(seq)}", B.to_pdb(B.build_peptide(seq, helix=True, rotation=B.random_rotation(nrng))), OPTION_SETS[len(cases) % 3], "helix"))
    cases += break_cases(ctx, rng, nrng)
    cases += threshold_cases(ctx, rng, nrng)
    cases += history_cases(ctx, rng, nrng)
    cases += nucleotide_cases(ctx, rng, nrng)
    cases += hydrogen_pattern_cases(ctx, rng, nrng)
    cases += truncation_cases(ctx, rng, nrng)
    return cases


# ---- inputs that ALREADY carry hydrogens, with every subset of each hydrogen group missing ---------

SUBSETS = {1: [(0,)], 2: [(0,), (1,), (0, 1)], 3: [(0,), (1,), (2,), (0, 1), (0, 2), (1, 2), (0, 1, 2)]}


def hydrogen_groups(atoms):
    """[(residue key, parent name, [hydrogen names in input order])] of a built structure with hydrogens:
    hydrogens grouped by the heavy atom they are bonded to (nearest heavy atom of the residue)."""
    out = []
    for res in B.residues_of(atoms):
        heavy = [a for a in res if not a.is_hydrogen]
        groups = {}
        for h in res:
            if not h.is_hydrogen or not heavy:
                continue
            par = min(heavy, key=lambda a: float(np.linalg.norm(a.xyz - h.xyz)))
            groups.setdefault(par.name, []).append(h.name)
        for par, hs in groups.items():
            out.append((res[0].reskey, par, hs))
    return out


def drop_pattern(atoms, k):
    """Delete, in EVERY hydrogen group of the structure, the k-th non-empty subset of its hydrogens
    (k mod number of subsets; groups of 1, 2, 3 hydrogens have 1, 3, 7 subsets)."""
    gone = set()
    waters = {a.reskey for a in atoms if a.resname in ("HOH", "WAT")}
    for key, par, hs in hydrogen_groups(atoms):
        subs = SUBSETS.get(len(hs))
        if not subs:
            continue
        if key in waters:
            # a water that keeps H2 but lacks H1 is never completed (Water.finalize returns when H2 exists) and the
            # run aborts on its non-integral charge: nothing is added, nothing for C05 to judge - H2 or both are dropped
            subs = [tuple(i for i, h in enumerate(hs) if h != "H1")] if k % 2 else [tuple(range(len(hs)))]
        for i in subs[k % len(subs)]:
            gone.add((key, hs[i]))
    return B.reserial(B.delete_atoms(atoms, lambda a: (a.reskey, a.name) in gone))


def alias_names(atoms, rng):
    """Rename hydrogens to one of the template's alternative names (1HB, 2HZ, HN, HW ...) where the alias is unambiguous."""
    dmap = B.definitions().map
    out = []
    n = 0
    for a in atoms:
        ref = dmap.get("WAT" if a.resname in ("HOH", "WAT") else a.resname)
        if ref is not None and a.is_hydrogen:
            cands = sorted(alt for alt, tgt in ref.altnames.items() if tgt == a.name and alt not in ref.map and len(alt) <= 4 and (alt[0].isdigit() or alt in ("HN",)))
            if cands and rng.random() < 0.8:
                a = B.replace(a, name=rng.choice(cands))
                n += 1
        out.append(a)
    return out, n


def hydrogen_pattern_cases(ctx, rng, nrng):
    cases = []
    aa20 = list(B.STANDARD_AA)
    rng.shuffle(aa20)
    # PRO first in one group (N-terminal PRO has H, H2 only), the other first residues carry an NH3+ group
    aa20.remove("PRO")
    groups = [["PRO"] + aa20[:3]] + [aa20[i : i + 4] for i in range(3, 19, 4)]
    groups.append(["LYN", "HIP", "ASH", "GLH", "CYM"])
    k0 = rng.randrange(7)
    for gi, g in enumerate(groups):
        pep = B.build_peptide(g, hydrogens=True, rotation=B.random_rotation(nrng), origin=tuple(nrng.uniform(-20, 20, 3)))
        extra = []
        if gi % 2 == 0:
            extra = B.waters(3, around=pep, rng=nrng, min_dist=3.0, hydrogens=True)
        full = pep + extra
        for k in range(7):
            atoms = drop_pattern(full, k)
            label = f"input hydrogens, subset {k} of every H group missing: {'-'.join(g)}" + (" + 3 waters" if extra else "")
            sets = OPTION_SETS[:7] if ctx.thorough else [OPTION_SETS[(k0 + k + gi) % 7], OPTION_SETS[(k0 + k + gi + 3) % 7]]
            for args in sets:
                cases.append((label, B.to_pdb(B.reserial(atoms)), args, "input-H"))
        # alias hydrogen names (old PDB style), subset 1 and 4 missing
        for k in (1, 4) if not ctx.thorough else range(7):
            atoms, n = alias_names(drop_pattern(full, k), rng)
            if n:
                cases.append((f"input hydrogens with alias names ({n} renamed), subset {k} missing: {'-'.join(g)}", B.to_pdb(B.reserial(atoms)), OPTION_SETS[(k + gi) % 6], "input-H-alias"))
    # nucleotides that already carry hydrogens (3-point fits only: Nucleic has no rebuild_tetrahedral)
    for seq, rna in (("ACGT", False), ("ACGU", True)):
        st = B.build_strand(list(seq), rna=rna, hydrogens=True, rotation=B.random_rotation(nrng))
        for k in range(7) if ctx.thorough else ((k0 + (1 if rna else 0)) % 7, (k0 + 3) % 7, (k0 + 5) % 7):
            cases.append((f"{'RNA' if rna else 'DNA'} {seq} with input hydrogens, subset {k} missing", B.to_pdb(B.reserial(drop_pattern(st, k))), ["--ff=AMBER"] if k % 2 else ["--ff=CHARMM", "--nodebump"], "input-H-nucleic"))
    return cases


def break_cases(ctx, rng, nrng):
    """Chains with INTERNAL breaks: k residues deleted from the middle under one chain id, no TER (no terminus patch
    at the break: the C-1 / N+1 neighbours are simply absent there), and numbering gaps WITHOUT a geometric break."""
    cases = []
    pool = ["ALA", "SER", "LEU", "LYS", "GLY", "THR", "VAL", "ASP", "PHE", "ASN", "GLU", "ILE", "TYR", "MET", "GLN", "ARG"]

    def add(label, atoms, k):
        cases.append((label, B.to_pdb(B.reserial(atoms)), OPTION_SETS[k % 7], "break"))

    n = 0
    for k in (1, 2, 3):
        for after in ("any", "PRO"):
            seq = rng.sample(pool, 9)
            cut = list(range(4, 4 + k))  # 1-based residue numbers removed
            if after == "PRO":
                seq[4 + k - 1] = "PRO"  # first residue after the break
            for hyd in (False, True):
                full = B.build_peptide(seq, hydrogens=hyd, rotation=B.random_rotation(nrng))
                broken = B.delete_atoms(full, lambda a, cut=cut: a.resseq in cut)
                add(f"break: residues {cut} of {'-'.join(seq)} missing{' (input hydrogens)' if hyd else ''}", broken, n)
                n += 1
                if hyd:
                    # the N-side hydrogens of the residue after the break are missing (amide H must be rebuilt without C-1)
                    nxt = cut[-1] + 1
                    add(f"break: residues {cut} missing, input hydrogens but no H on residue {nxt}: {'-'.join(seq)}", B.delete_atoms(broken, lambda a, nxt=nxt: a.resseq == nxt and a.name in ("H", "HN")), n)
                else:
                    # the carbonyl O before the break is missing too (rebuilt without N+1)
                    add(f"break: residues {cut} missing and no O on residue {cut[0] - 1}: {'-'.join(seq)}", B.delete_atoms(broken, lambda a, c=cut[0] - 1: a.resseq == c and a.name == "O"), n + 3)
                n += 1
    # break next to either terminus, and two breaks in one chain
    seq = rng.sample(pool, 8)
    full = B.build_peptide(seq, rotation=B.random_rotation(nrng))
    add(f"break after the first residue: {'-'.join(seq)}", B.delete_atoms(full, lambda a: a.resseq == 2), 0)
    add(f"break before the last residue: {'-'.join(seq)}", B.delete_atoms(full, lambda a: a.resseq == 7), 1)
    add(f"two breaks: {'-'.join(seq)}", B.delete_atoms(full, lambda a: a.resseq in (3, 6)), 2)
    # numbering gaps WITHOUT a geometric break: must behave exactly as a complete chain
    add(f"numbering gap, contiguous chain: {'-'.join(seq)}", B.renumber(full, lambda c, r, i: r if r < 4 else r + 10), 3)
    add(f"numbering gap + insertion codes, contiguous chain: {'-'.join(seq)}", B.renumber(full, lambda c, r, i: (r, "") if r < 5 else (5, "ABCD"[r - 5])), 5)
    # nucleic strands: a missing nucleotide (O3'-P break), with and without input hydrogens; numbering gap
    for rna in (False, True):
        sq = list("ACGUA" if rna else "ACGTA")
        for hyd in (False, True):
            st = B.build_strand(sq, rna=rna, hydrogens=hyd, rotation=B.random_rotation(nrng))
            cases.append((f"{'RNA' if rna else 'DNA'} {''.join(sq)} nucleotide 3 missing{' (input hydrogens)' if hyd else ''}", B.to_pdb(B.reserial(B.delete_atoms(st, lambda a: a.resseq == 3))), ["--ff=AMBER"], "break-nucleic"))
        st = B.build_strand(sq, rna=rna, rotation=B.random_rotation(nrng))
        cases.append((f"{'RNA' if rna else 'DNA'} numbering gap, contiguous strand", B.to_pdb(B.renumber(st, lambda c, r, i: r if r < 3 else r + 7)), ["--ff=CHARMM"], "break-nucleic"))
    return cases


def set_bond_length(atoms, resseq, chain, pivot, moved, length):
    """Move atom `moved` of one residue along pivot -> moved so that the bond is `length` A long."""
    pv = next(a for a in atoms if a.resseq == resseq and a.chain == chain and a.name == pivot).xyz
    out = []
    for a in atoms:
        if a.resseq == resseq and a.chain == chain and a.name == moved:
            u = a.xyz - pv
            a = a.at(pv + u / np.linalg.norm(u) * length)
        out.append(a)
    return out


def threshold_cases(ctx, rng, nrng):
    """Inputs on BOTH sides of the geometric thresholds that select a code path in hydrogens/structures.py,
    optimize.py, aa.py, biomolecule.py: carboxyl C-O length difference 0.05 A (Carboxylic.__init__ longflag), hydrogen-bond
    distance 3.3 A / angle cutoffs (partners at 2.6 .. 3.5 A), PEPTIDE_DIST 1.7 A, the cyclic test 1.35 A, the S-S test 2.5 A,
    bump distances (packed pairs, separate generator)."""
    cases = []
    n = 0
    carb = {"ASH": ("CG", "OD1", "OD2"), "GLH": ("CD", "OE1", "OE2"), "ASP": ("CG", "OD1", "OD2"), "GLU": ("CD", "OE1", "OE2")}
    ffsets = [["--ff=AMBER"], ["--ff=PARSE"], ["--ff=CHARMM"], ["--ff=TYL06"], ["--ff=SWANSON"], ["--ff=AMBER", "--nodebump"]]
    for rn in ("ASH", "GLH"):
        piv, o1, o2 = carb[rn]
        for l1, l2 in ((1.32, 1.21), (1.21, 1.32), (1.27, 1.23), (1.23, 1.29)):
            for wat in (False, True):
                seq = [rng.choice(["ALA", "GLY", "SER"]), rn, rng.choice(["ALA", "VAL", "THR"]), "ALA"]
                pep = B.build_peptide(seq, rotation=B.random_rotation(nrng))
                pep = set_bond_length(set_bond_length(pep, 2, "A", piv, o1, l1), 2, "A", piv, o2, l2)
                extra = []
                if wat:  # a water the proton can hydrogen-bond to, next to the LONGER oxygen (Carboxylic.fix path)
                    tgt = next(a for a in pep if a.resseq == 2 and a.name == (o1 if l1 > l2 else o2))
                    extra = B.waters(1, around=pep, near=tgt, near_dist=2.7, rng=nrng)
                cases.append((f"{rn} with C-O lengths {o1} {l1} / {o2} {l2}{' + water at the longer O' if wat else ''}: {'-'.join(seq)}", B.to_pdb(B.reserial(pep + extra)), ffsets[n % len(ffsets)], "threshold-carboxyl"))
                n += 1
    # the same through propka at low pH (ASP / GLU become ASH / GLH), real propka
    for rn in ("ASP", "GLU"):
        piv, o1, o2 = carb[rn]
        for l1, l2 in ((1.32, 1.21), (1.21, 1.32)):
            seq = ["ALA", rn, "SER", rn, "ALA"]
            pep = B.build_peptide(seq)
            for r_ in (2, 4):
                pep = set_bond_length(set_bond_length(pep, r_, "A", piv, o1, l1 if r_ == 2 else l2), r_, "A", piv, o2, l2 if r_ == 2 else l1)
            cases.append((f"{rn} x2 with C-O lengths {l1}/{l2} and {l2}/{l1}, propka pH 1: {'-'.join(seq)}", B.to_pdb(pep), [["--ff=AMBER"], ["--ff=PARSE"]][n % 2] + ["--titration-state-method=propka", "--with-ph=1.0"], "threshold-carboxyl"))
            n += 1
    # neutral C-terminus (HO on O / OXT), both choices of the longer C-O
    for l1, l2 in ((1.32, 1.21), (1.21, 1.32), (1.25, 1.25)):
        seq = ["SER", "LEU", rng.choice(["ALA", "LYS", "PHE"])]
        pep = B.build_peptide(seq)
        pep = set_bond_length(set_bond_length(pep, 3, "A", "C", "O", l1), 3, "A", "C", "OXT", l2)
        cases.append((f"neutral C-terminus with C-O {l1} / C-OXT {l2}: {'-'.join(seq)}", B.to_pdb(pep), ["--ff=PARSE", "--neutralc"], "threshold-carboxyl"))
    # hydrogen-bond partner (a water) on both sides of DIST_CUTOFF 3.3 A from donors / acceptors of optimisable groups
    targets = [("SER", "OG"), ("THR", "OG1"), ("TYR", "OH"), ("ASH", "OD2"), ("HIS", "ND1"), ("ASN", "OD1"), ("GLN", "NE2"), ("LYS", "NZ"), ("CYS", "SG")]
    for i, (rn, an) in enumerate(targets):
        for dist in ((2.6, 3.2, 3.4) if ctx.thorough else ((3.2, 3.4) if (i + ctx.seed) % 2 else (2.6, 3.4))):
            seq = ["ALA", rn, "GLY"]
            pep = B.build_peptide(seq, rotation=B.random_rotation(nrng))
            tgt = next(a for a in pep if a.resseq == 2 and a.name == an)
            w = B.waters(2, around=pep, near=tgt, near_dist=dist, rng=nrng, min_dist=dist + 0.2)
            cases.append((f"water {dist} A from {rn} {an}", B.to_pdb(B.reserial(pep + w)), ffsets[(i + n) % 3], "threshold-hbond"))
    # peptide bond stretched to just below / above PEPTIDE_DIST (1.7 A): complete chain vs break
    for d in (1.65, 1.75):
        seq = rng.sample(["ALA", "SER", "LEU", "LYS", "THR", "VAL", "ASP", "PHE"], 6)
        pep = B.build_peptide(seq, rotation=B.random_rotation(nrng))
        c3 = next(a for a in pep if a.resseq == 3 and a.name == "C").xyz
        n4 = next(a for a in pep if a.resseq == 4 and a.name == "N").xyz
        shift = (n4 - c3) / np.linalg.norm(n4 - c3) * (d - np.linalg.norm(n4 - c3))
        pep = [a.at(a.xyz + shift) if a.resseq >= 4 else a for a in pep]
        cases.append((f"peptide bond 3-4 stretched to {d} A: {'-'.join(seq)}", B.to_pdb(pep), ["--ff=AMBER"], "threshold-peptide"))
    # cyclic peptide (assign_termini cyclic test) and cysteine pairs on both sides of the S-S test
    try:
        ring = B.ring_peptide(["GLY", "ALA", "SER", "GLY", "LEU", "GLY", "ASN", "GLY"])
        cases.append(("cyclic peptide (8 residues)", B.to_pdb(ring), ["--ff=AMBER"], "threshold-cyclic"))
    except Exception as e:  # noqa - the builder may find no closed ring for a sequence
        ctx.notes.append(f"ring_peptide: {type(e).__name__}: {e}")
    for d in (2.04, 2.45, 2.6):
        a_, b_ = B.disulfide_pair(d, rng=nrng)
        cases.append((f"two cysteines with SG-SG {d} A", B.to_pdb(a_ + b_), ["--ff=AMBER"] if d != 2.45 else ["--ff=PARSE"], "threshold-ss"))
    return cases


KEEP_AFTER_CB = {"N", "CA", "C", "O", "CB", "OXT", "H", "HA", "HN", "H1", "H2", "H3"}


def truncate_pdb_residue(text, chain, resseq, icode=" "):
    """PDB text with one residue cut back to backbone + CB (repair_heavy rebuilds the side chain in place)."""
    out = []
    for ln in text.splitlines():
        if ln.startswith(("ATOM", "HETATM", "ANISOU")) and ln[21] == chain and ln[22:26].strip() == str(resseq) and ln[26] == icode:
            if ln[12:16].strip() not in KEEP_AFTER_CB:
                continue
        out.append(ln)
    return "\n".join(out) + "\n"


def first_model(text):
    out = []
    for ln in text.splitlines():
        if ln.startswith("ENDMDL"):
            break
        out.append(ln)
    return "\n".join(out) + "\n"


def file_residues(text):
    """[(chain, resseq, resname)] of the polymer residues of a PDB text that have side-chain atoms beyond CB."""
    seen, order = {}, []
    for ln in text.splitlines():
        if ln.startswith("ATOM") and ln[26] == " ":
            k = (ln[21], int(ln[22:26]), ln[17:20].strip())
            if k not in seen:
                seen[k] = set()
                order.append(k)
            seen[k].add(ln[12:16].strip())
    return [k for k in order if k[2] in B.STANDARD_AA and len({n for n in seen[k] if not n.startswith("H")} - KEEP_AFTER_CB) >= 2]


def history_cases(ctx, rng, nrng):
    """Histories in which the SAME residue is rotated both before and after hydrogens exist: a side chain missing after CB
    is rebuilt INTO other atoms (first debump pass rotates it without hydrogens), then hydrogens are added and the same
    dihedral is rotated again (second debump pass, or the ASN / GLN / HIS flip)."""
    cases = []
    # (1) builder: the rebuilt atoms land on waters placed where the deleted atoms were
    long_chain = ["LYS", "ARG", "GLU", "GLN", "MET", "LEU", "ILE", "PHE", "TYR", "HIS", "ASN", "ASP", "TRP", "THR", "VAL", "SER"]
    pick = long_chain if ctx.thorough else rng.sample(long_chain[:12], 6)
    for i, rn in enumerate(pick):
        dep = side_chain_depths(rn)
        gone = {a for a, x in dep.items() if x >= 2}
        if not gone:
            continue
        npad = max(4, (len(gone) * 11) // 10 + 1)
        seq = ["ALA"] * npad + [rn] + ["ALA"] * npad
        full = B.build_peptide(seq, rotation=B.random_rotation(nrng))
        pos = npad + 1
        lost = [a for a in full if a.resseq == pos and a.name in gone]
        cut = B.delete_atoms(full, lambda a, pos=pos, gone=gone: a.resseq == pos and a.name in gone)
        for variant in range(2 if not ctx.thorough else 4):
            blockers = []
            for j, la in enumerate(lost[: 3 + variant]):
                u = nrng.normal(size=3)
                p = la.xyz + u / np.linalg.norm(u) * (0.6 + 0.5 * ((j + variant) % 3))
                blockers.append(B.AtomRec("HETATM", 0, "O", "", "HOH", "W", 1 + j, "", float(p[0]), float(p[1]), float(p[2]), 1.0, 0.0, "O"))
            cases.append((f"{rn} cut after CB, {len(blockers)} waters where the rebuilt atoms land (variant {variant})", B.to_pdb(B.reserial(cut + blockers)), OPTION_SETS[0] if variant % 2 == 0 else ["--ff=PARSE"], "history"))
    # (2) real proteins: one residue at a time cut back to CB; its rebuilt side chain clashes with the packed neighbours
    for name, every in (("1AJJ.pdb", 1), ("1BX8.pdb", 1)) if ctx.thorough else (("1AJJ.pdb", 0),):
        path = core.REPO / "tests" / "data" / name
        if not path.exists():
            continue
        text = first_model(path.read_text())
        residues = file_residues(text)
        if not every:
            residues = rng.sample(residues, min(10, len(residues)))
        for ch, rs, rn in residues:
            cases.append((f"{name} with {rn} {ch} {rs} cut after CB", truncate_pdb_residue(text, ch, rs), ["--ff=AMBER"], "history-file"))
    return cases


def nucleotide_cases(ctx, rng, nrng):
    """Heavy-atom rebuilds and hydrogen placement on NUCLEOTIDES: DNA and RNA strands (5', internal, 3' positions), every
    single heavy atom removed in turn (one atom in each nucleotide per run, different atoms), some bonded pairs, in the
    naming conventions pdb2pqr accepts and their mixes: OP1/OP2 (v3, handled by name in biomolecule.py), O1P/O2P (template),
    one of each, O5* ... for O5' ... and C5M for C7 (template altnames)."""
    cases = []
    styles = ("v3", "template", "mixed", "star")

    def restyle(atoms, style):
        out = []
        for a in atoms:
            nm = a.name
            if style == "mixed":
                if a.resseq == 2 and nm == "OP2":
                    nm = "O2P"
                if a.resseq == 3 and nm == "OP1":
                    nm = "O1P"
            if style == "star":
                nm = "C5M" if nm == "C7" else nm.replace("'", "*")
            out.append(a if nm == a.name else B.replace(a, name=nm))
        return out

    n = 0
    for rna in (False, True):
        base = list("ACGU" if rna else "ACGT")
        rng.shuffle(base)
        for arrangement in range(2 if ctx.thorough else 1):
            seq = base[arrangement:] + base[:arrangement]
            probe = B.build_strand(seq, rna=rna)
            nmax = max(len(r) for r in B.residues_of(probe))
            for k in range(nmax):
                style = styles[(k + arrangement) % 4]
                args = [["--ff=CHARMM"], ["--ff=AMBER"], ["--ff=CHARMM", "--nodebump", "--noopt"], ["--ff=AMBER", "--nodebump"]][n % 4]
                st = restyle(B.build_strand(seq, rna=rna, phosphate_names="O_P" if style == "template" else "OP", five_prime_phosphate=(k % 5 == 4 and "AMBER" in args[0]), rotation=B.random_rotation(nrng)), style)
                gone = set()
                for i, res in enumerate(B.residues_of(st)):
                    names = [a.name for a in res]
                    gone.add((res[0].resseq, names[(k + 6 * i) % len(names)]))
                cut = B.reserial(B.delete_atoms(st, lambda a, gone=gone: (a.resseq, a.name) in gone))
                lab = f"{'RNA' if rna else 'DNA'} {''.join(seq)} ({style} names) without " + ", ".join(f"{nm}({rs})" for rs, nm in sorted(gone))
                cases.append((lab, B.to_pdb(cut), args, "nucleotide"))
                n += 1
            # bonded pairs missing in the two internal nucleotides
            for k in range(0, nmax - 1, 3 if not ctx.thorough else 1):
                style = styles[(k // 3) % 4]
                st = restyle(B.build_strand(seq, rna=rna, phosphate_names="O_P" if style == "template" else "OP"), style)
                gone = set()
                for i, res in enumerate(B.residues_of(st)):
                    if i in (1, 2):
                        names = [a.name for a in res]
                        gone |= {(res[0].resseq, names[(k + 5 * i) % len(names)]), (res[0].resseq, names[(k + 5 * i + 1) % len(names)])}
                cut = B.reserial(B.delete_atoms(st, lambda a, gone=gone: (a.resseq, a.name) in gone))
                lab = f"{'RNA' if rna else 'DNA'} {''.join(seq)} ({style} names) without " + ", ".join(f"{nm}({rs})" for rs, nm in sorted(gone))
                cases.append((lab, B.to_pdb(cut), [["--ff=AMBER"], ["--ff=CHARMM"]][n % 2], "nucleotide-pair"))
                n += 1
    return cases


def side_chain_depths(resname):
    """{heavy side-chain atom: bond distance from CA} (template graph without N, C, O)."""
    bonds = B.template_bonds(resname)
    depth, todo = {"CA": 0}, ["CA"]
    while todo:
        u = todo.pop(0)
        for v in bonds.get(u, []):
            if v in ("N", "C", "O") or v.startswith("H") or v not in bonds or v in depth:
                continue
            depth[v] = depth[u] + 1
            todo.append(v)
    depth.pop("CA")
    return depth


def truncation_cases(ctx, rng, nrng):
    """Each residue type with its side chain cut off at every depth (all heavy atoms >= d bonds from CA missing)."""
    cases = []
    k = 0
    for rn in B.STANDARD_AA:
        dep = side_chain_depths(rn)
        if not dep:
            continue
        for d in range(1, max(dep.values()) + 1):
            k += 1
            if not ctx.thorough and (k + ctx.seed) % 2:
                continue  # quick: every second (residue, depth), alternating with the seed
            gone = {a for a, x in dep.items() if x >= d}
            npad = max(6, (len(gone) * 11) // 5 + 2)  # ALA = 5 heavy atoms; keep the missing fraction below REPAIR_LIMIT
            pos = rng.randrange(1, npad - 1)
            seq = ["ALA"] * pos + [rn] + ["ALA"] * (npad - pos)
            atoms = B.build_peptide(seq, rotation=B.random_rotation(nrng))
            atoms = B.reserial(B.delete_atoms(atoms, lambda a, gone=gone, rn=rn: a.resname == rn and a.name in gone))
            cases.append((f"{rn} side chain missing from depth {d} ({' '.join(sorted(gone))})", B.to_pdb(atoms), OPTION_SETS[k % 4], "truncated"))
    return cases


REAL_QUICK = [("1AJJ.pdb", ["--ff=AMBER"]), ("1A1P.pdb", ["--ff=PARSE"]), ("cterm_hid.pdb", ["--ff=AMBER"]), ("5vav_cyclic_peptide.pdb", ["--ff=AMBER"]), ("1BX8.pdb", ["--ff=CHARMM"])]
REAL_THOROUGH = REAL_QUICK + [
    ("1AFS.pdb", ["--ff=AMBER"]),
    ("1K1I.pdb", ["--ff=PARSE", "--nodebump"]),
    ("1AJJ.pdb", ["--ff=SWANSON", "--titration-state-method=propka", "--with-ph=3.0"]),
    ("1BX8.pdb", ["--ff=TYL06", "--noopt"]),
]


# --------------------------------------------------------------------------
# tie (b): moveable set on all templates, all atoms


def py_beyond(tmpl, b, c):
    """atoms connected to c when the bond b-c is cut (template graph, pseudo atoms dropped), c excluded."""
    ok = lambda n: n in tmpl.map and n not in PSEUDO  # noqa
    seen, todo = {c}, [c]
    while todo:
        u = todo.pop()
        for v in tmpl.map[u].bonds:
            if not ok(v) or v in seen or (u == c and v == b) or (u == b and v == c):
                continue
            seen.add(v)
            todo.append(v)
    seen.discard(c)
    return seen


def diagnose_moved(tmpl, dih, moved):
    a, b, c, d = dih.split()
    M = set(moved)
    want = py_beyond(tmpl, b, c)
    if M == want and b not in M:
        return None
    for h in sorted(M):
        if h.startswith("H"):
            for p in tmpl.map[h].bonds:
                if p in tmpl.map and p not in PSEUDO and p not in M and p != c:
                    return "hydrogens-move-without-parent", f"{h} is rotated but its parent {p} is not"
    for h in sorted(want - M):
        if h.startswith("H"):
            return "hydrogen-left-behind", f"{h} stays although its parent moves"
    if b in M or c in M:
        return "axis-atom-moves", "an axis atom is in the moved set"
    return "moved-set-not-subtree", f"moved {sorted(M)} != beyond-pivot component {sorted(want)}"


def tie_moveable(ctx, definition):
    show = c04.SHOW
    try:
        res = core.run_cases("C05m", c04.HEADER + show, ["show_pairs", "show_moves false false", "show_moves true false", "show_moves false true", "show_moves true true"], timeout=600)
    except core.CoqEvalError as e:
        ctx.broke("correspondence-broken", "template moveable sets: model evaluation failed", str(e))
        return False
    ok = True
    mlabels = res[0].split(";")
    for k, (nt, ct) in enumerate([(False, False), (True, False), (False, True), (True, True)]):
        labels, impl = c04.impl_moves(definition, nt, ct)
        model = res[1 + k].split(";")
        if labels != mlabels:
            ctx.broke("correspondence-broken", "template/dihedral list of the generated table differs from Definition.map", f"{len(labels)} vs {len(mlabels)}")
            return False
        for lab, a, m in zip(labels, impl, model):
            ctx.cov["correspondence_cases"] += 1
            rname, dih = lab.split(":")
            nh = sum(1 for x in a.split() if x.startswith("H"))
            ctx.evaluated(f"moved:{lab}:{nt}:{ct}", nh > 0)
            ctx.count("moveable-set:pairs")
            if a != m:
                ok = False
                ctx.cov["correspondence_disagreements"] += 1
                if sum(x["kind"] == "correspondence-broken" for x in ctx.broken) < 3:
                    ctx.broke("correspondence-broken", "Model.Moves.moveable vs set_reference_distance+get_moveable_names (all atoms)", f"{lab} nterm={nt} cterm={ct}: impl=[{a}] model=[{m}]", {"type": "moved", "template": lab, "nt": nt, "ct": ct})
            if a != "GAP":
                why = diagnose_moved(definition.map[rname], dih, a.split())
                if why:
                    ctx.fail({"site": "Residue.get_moveable_names", "condition": why[0]}, f"{lab} (nterm={nt}, cterm={ct}): {why[1]}; moved set [{a}]", {"type": "moved", "template": lab, "nt": nt, "ct": ct, "moved": a})
    return ok


# --------------------------------------------------------------------------
# tie (a): observed primitive calls vs the PrimFloat instance


def fit_key(r):
    return core.sha([r["n"], r["refs"], r["defs"], r["atom"]])


def tie_primitives(ctx, fits, rots, units, limit, choices=()):
    terms, meta = [], []
    for r in list(choices)[:limit]:
        if r.get("unmodelled"):
            ctx.broke("correspondence-broken", "rebuild_tetrahedral numbonds == 3 no longer has the modelled shape (three 120-degree rotations, two existing hydrogens)", json.dumps(r), {"type": "site", "site": r["site"]})
            continue
        init = np.array(r["a2"]) - np.array(r["a1"])
        nrm = float(np.linalg.norm(init))
        rad = math.pi * 120 / 180.0
        d = float(np.linalg.norm(np.array(r["h1"]) - np.array(r["n1"])))
        terms.append(f"F_rebuild3 {c15.fh(nrm)} {c15.fh(math.cos(rad))} {c15.fh(math.sin(rad))} {c15.fh(d)} {c15.cpt(r['a1'])} {c15.cpt(r['a2'])} {c15.cpt(r['h0'])}")
        meta.append(("rebuild3 (+120/+240 choice)", r, r["out"]))
    for r in fits[:limit]:
        terms.append(f"F_find_coordinates {r['n']} {c15.cpts(r['refs'])} {c15.cpts(r['defs'])} {c15.cpt(r['atom'])}")
        meta.append(("find_coordinates", r, r["out"]))
    for r in rots[: limit // 2]:
        init = np.array(r["a2"]) - np.array(r["a1"])
        nrm = float(np.linalg.norm(init))
        rad = math.pi * r["angle"] / 180.0
        for b, a in list(zip(r["before"], r["after"]))[:2]:
            terms.append(f"F_rotate_tetrahedral {c15.fh(nrm)} {c15.fh(math.cos(rad))} {c15.fh(math.sin(rad))} {c15.cpt(r['a1'])} {c15.cpt(r['a2'])} {c15.cpt(b)}")
            meta.append(("rotate_tetrahedral", {"a1": r["a1"], "a2": r["a2"], "h": b, "angle": r["angle"], "site": r["site"]}, a))
    for r in units[:limit]:
        dist = float(np.linalg.norm(np.array(r["to"]) - np.array(r["from"])))
        terms.append(f"F_unit_place {c15.fh(dist)} {c15.cpt(r['o'])} {c15.cpt(r['from'])} {c15.cpt(r['to'])}")
        meta.append(("unit_place", r, r["out"]))
    if not terms:
        return True
    try:
        outs = core.run_cases("C05p", HEADER, terms, chunk=60)
    except core.CoqEvalError as e:
        ctx.broke("correspondence-broken", "placement primitives: model evaluation failed", str(e))
        return False
    ok = True
    for (what, data, exp), got in zip(meta, outs):
        ctx.cov["correspondence_cases"] += 1
        ctx.count("corr:" + what)
        why = c15.compare({"expected": exp, "mode": "exact"}, got)
        if why:
            ok = False
            ctx.cov["correspondence_disagreements"] += 1
            if sum(x["kind"] == "correspondence-broken" for x in ctx.broken) < 5:
                ctx.broke("correspondence-broken", f"Model {what} (PrimFloat) vs the call observed at {data.get('site')}", why, {"type": "primitive", "what": what, "data": data})
    return ok


NAMES_HEADER = (
    HEADER
    + "From PV Require Import Lib.Decimal.\n"
    + 'Definition show_ids (o : option (list id)) : string := match o with None => "NONE"%string | Some l => String.concat " " (map (fun i => Z_to_string (Zpos i)) l) end.\n'
)


def names_key(r):
    return core.sha([r["x"], r["graph"], sorted(r["present"]), r["has_pn"], r["has_pc"]])


def tie_fit_names(ctx, recs, limit):
    """Model.Placement.fit_names (get_nearest_bonds + the selection loop) vs the names add_hydrogens / repair_heavy used."""
    terms, meta = [], []
    for r in recs[:limit]:
        ids = {}

        def I(n):
            return ids.setdefault(n, len(ids) + 1)

        g = core.coq_list([f"({I(a)}%positive, {core.coq_list([f'{I(b)}%positive' for b in bs])})" for a, bs in r["graph"].items()])
        atoms = core.coq_list([f"{I(a)}%positive" for a in r["present"]])
        terms.append(f"show_ids (fit_names {g} (present_in {I('N+1')}%positive {I('C-1')}%positive {str(r['has_pn']).lower()} {str(r['has_pc']).lower()} {atoms}) {I(r['x'])}%positive)")
        meta.append((r, {v: k for k, v in ids.items()}))
    if not terms:
        return True
    try:
        outs = core.run_cases("C05n", NAMES_HEADER, terms, chunk=40)
    except core.CoqEvalError as e:
        ctx.broke("correspondence-broken", "fit neighbour names: model evaluation failed", str(e))
        return False
    ok = True
    for (r, inv), o in zip(meta, outs):
        ctx.cov["correspondence_cases"] += 1
        ctx.count("corr:fit_names")
        model = None if o == "NONE" else [inv[int(t)] for t in o.split()]
        if model != r["used"]:
            ok = False
            ctx.cov["correspondence_disagreements"] += 1
            if sum(x["kind"] == "correspondence-broken" for x in ctx.broken) < 5:
                ctx.broke("correspondence-broken", f"Model.Placement.fit_names vs the neighbours used at {r['site']}", f"{r['residue']} {r['x']}: impl={r['used']} model={model} (peptide_n {r['has_pn']}, peptide_c {r['has_pc']})", {"type": "primitive", "what": "fit_names", "data": {k: r[k] for k in ('residue', 'x', 'used', 'has_pn', 'has_pc', 'site')}})
    return ok


# --------------------------------------------------------------------------


def run(ctx):
    import logging

    logging.getLogger().setLevel(logging.ERROR)
    sys.path.insert(0, str(core.VERIF / "gen"))
    ctx.cov["rule"] = (
        "search: every atom with .added in the final biomolecule of real pdb2pqr runs on builder structures (5 shuffled groups of the 20 residues + "
        "protonation variants, each residue at N-terminal / internal / C-terminal position through rotations of the sequence; DNA/RNA strands; waters "
        "bonded to the solute, to each other, isolated, alone, with partial input hydrogens; deleted side-chain heavy atoms; packed pairs forcing "
        "debumping; propka titration at pH 2 / 12.5; helices; structures that ALREADY carry hydrogens (peptides of all 20 residues + variants, N-terminal NH3+/PRO NH2+, waters, DNA/RNA) with "
        "every non-empty subset of every hydrogen group (1/2/3 hydrogens on one heavy atom: 1/3/7 subsets) deleted, also written with alias names (1HB, HN ...); every residue "
        "type with its side chain cut off at every depth from CA) x option/force-field sets, plus tests/data proteins; oracle = template bond lengths and angles of "
        "residue.reference with tolerance 0.05 A + d and 5 + 115 d degrees (d = measured distortion of the input atoms around the bonded partner), "
        "min distance 0.1 A, bond lists with the creation parent. tie: exhaustive moveable-set comparison (all templates x dihedrals x 4 flag sets, all "
        "atoms) and bit-exact replay of observed find_coordinates / rotate_tetrahedral / 1 A placements. non-trivial = the added atom has a bonded "
        "partner with at least one further neighbour (a bond angle is checked) / a moved set containing hydrogens. distinct by (template, atom, creation "
        "site, chain position)."
    )
    gen_ok = c01.regenerate(ctx, "ff_tables,topology,moves_table")
    if gen_ok:
        p = subprocess.run([sys.executable, str(core.VERIF / "gen" / "c05_table.py")], capture_output=True, text=True, env={**__import__("os").environ, "VERIF_REPO": str(core.REPO)})
        if p.returncode != 0:
            gen_ok = False
            ctx.broke("generator-broken", "gen/c05_table.py (template geometry from /repo)", (p.stdout + p.stderr)[-2000:])
    ok = core.proof_stage(ctx, "C05", THEOREMS, ALLOWED_AXIOMS) if gen_ok else False
    if not gen_ok:
        ctx.obligations.extend(THEOREMS)
    from common import load_definition

    definition = load_definition()
    # ---- tie (b)
    corr_ok = tie_moveable(ctx, definition) if gen_ok else False
    # ---- corpus first, then generated structures
    cases = []
    cdir = core.CORPUS / "C05"
    if cdir.is_dir():
        for f in sorted(cdir.glob("*.json")):
            c = json.loads(f.read_text())
            cases.append((c.get("label", f.stem), c["pdb_text"], c["args"], "corpus"))
            ctx.count("corpus")
    cases += build_cases(ctx)
    boost = not ok or not corr_ok
    fits, rots, units, choices = {}, [], [], []
    stats = {}
    sites = {}
    unknown = {}
    for label, text, args, kind in cases:
        bio, mon, exc = run_text(ctx, text, args)
        ctx.count(f"run:{kind}")
        if bio is None:
            cause = getattr(exc, "__cause__", None) or exc
            ctx.notes.append(f"{label} {' '.join(args)}: {type(cause).__name__}: {str(cause)[:160]}")
            ctx.count("run:failed")
            continue
        for r in mon.fits:
            fits.setdefault(fit_key(r), r)
        rots += mon.rots[:40]
        units += mon.units
        choices += mon.choices
        for s, n in mon.creates.items():
            sites[s] = sites.get(s, 0) + n
        for s, n in mon.unknown_sites.items():
            unknown[s] = unknown.get(s, 0) + n
        judge_run(ctx, bio, mon, f"{label} [{' '.join(args)}]", {"type": "run", "pdb_text": text, "args": args, "label": label}, stats)
    for name, args in REAL_THOROUGH if (ctx.thorough or boost) else REAL_QUICK:
        path = core.REPO / "tests" / "data" / name
        if not path.exists():
            continue
        bio, mon, exc = run_file(ctx, name, args)
        ctx.count("run:tests-data")
        if bio is None:
            ctx.notes.append(f"{name} {' '.join(args)}: {type(exc).__name__}: {str(exc)[:160]}")
            continue
        for r in mon.fits[:: max(1, len(mon.fits) // 60)]:
            fits.setdefault(fit_key(r), r)
        rots += mon.rots[:20]
        units += mon.units[:20]
        choices += mon.choices[:40]
        for s, n in mon.creates.items():
            sites[s] = sites.get(s, 0) + n
        for s, n in mon.unknown_sites.items():
            unknown[s] = unknown.get(s, 0) + n
        judge_run(ctx, bio, mon, f"{name} [{' '.join(args)}]", {"type": "file", "pdb": name, "args": args}, stats)
    for s, n in sorted(sites.items()):
        ctx.count(f"create_atom@{s}", n)
    for s, n in unknown.items():
        ctx.broke("correspondence-broken", f"create_atom called from an unmodelled placement site {s}", f"{n} calls; modelled sites: {sorted(SITE_KIND)}", {"type": "site", "site": s})
    ctx.cov["per_site_worst"] = {s: {"atoms": v[0], "bond_dev_A": round(v[1], 4), "angle_dev_deg": round(v[2], 2)} for s, v in sorted(stats.items())}
    # ---- tie (a)
    if gen_ok:
        fl = list(fits.values())
        ctx.rng.shuffle(fl)
        two = [r for r in fl if r["n"] == 2]
        three = [r for r in fl if r["n"] != 2]
        lim = 1500 if ctx.thorough else 240
        tie_primitives(ctx, two[: lim // 3] + three[: lim - min(len(two), lim // 3)], rots, units, lim, choices)
        named = {}
        for r in fl:
            if r.get("used") is not None and "graph" in r:
                k = (r["has_pn"], r["has_pc"], r["residue"].split(" ")[0], r["x"], tuple(r["used"]))
                named.setdefault(k, r)
        nl = list(named.values())
        ctx.rng.shuffle(nl)
        # calls next to a break / terminus first (a pointer is absent), then the rest
        nl.sort(key=lambda r: r["has_pn"] and r["has_pc"])
        tie_fit_names(ctx, nl, 600 if ctx.thorough else 160)
        # the fit theorem's hypothesis on observed calls: >= 3 non-collinear template points
        for r in three:
            s = c15.template_sine(r["defs"][: r["n"]])
            ctx.count("fit3:conditioning>=0.05" if s >= 0.05 else "fit3:conditioning<0.05")
            if s < 0.02:
                ctx.fail({"site": r["site"], "field": "fit-template", "condition": "near-collinear"}, f"3-point fit at {r['site']} uses near-collinear template points (conditioning {s:.3g})", {"type": "fit", **r})
    if fits:
        r0 = next(iter(fits.values()))
        ctx.sample({"observed_fit": {k: r0[k] for k in ("site", "n", "refs", "defs", "atom", "out")}})
    if cases:
        ctx.sample({"structure": cases[len(cases) // 2][0], "args": cases[len(cases) // 2][2], "pdb_head": cases[len(cases) // 2][1].splitlines()[:6]})
    ctx.sample({"obligation": "C05_all_atom_subtree_table: forall p in pairs, nt, ct: exact_dihedral hyd nm nt ct (tgraph (fst p)) (snd p) = true"})
    ctx.trusted += [
        "generators gen/topology.py, gen/moves_table.py, gen/c05_table.py (Definition.map dumped through the repo loader; topology cross-checked against the XML text)",
        "eigen-solver contract is a HYPOTHESIS of C05_fit3_exact_geometry (validated per call by C15's monitor); float rounding and the R/binary64 gap are not proved",
        "placement sites are observed (create_atom monitor with a fixed site table), not proved exhaustive",
        "tolerances of the geometry oracle: 0.05 A + d, 5 + 115 d degrees, d = measured input distortion around the bonded partner (see notes/C05.md)",
    ]
    ctx.assumptions += [
        "hydrogen = name starts with 'H'; the template of an added atom is residue.reference at the end of the run",
        "distortion d = max |d_struct - d_template| over 1-2 and 1-3 pairs among input atoms within two template bonds of the bonded partner (propagated along chains of added atoms)",
    ]


def replay(ctx, data):
    import logging

    logging.getLogger().setLevel(logging.ERROR)
    sys.path.insert(0, str(core.VERIF / "gen"))
    case = data["case"]
    t = case.get("type")
    if t == "moved":
        from common import load_definition

        definition = load_definition()
        labels, impl = c04.impl_moves(definition, case["nt"], case["ct"])
        mv = impl[labels.index(case["template"])]
        rname, dih = case["template"].split(":")
        why = None if mv == "GAP" else diagnose_moved(definition.map[rname], dih, mv.split())
        print(f"replay: {case['template']} moved=[{mv}] ->", ("FAILS: " + why[1]) if why else "passes")
        return 1 if why else 0
    if t in ("run", "file"):
        if t == "run":
            bio, mon, exc = run_text(ctx, case["pdb_text"], case["args"])
        else:
            bio, mon, exc = run_file(ctx, case["pdb"], case["args"])
        if bio is None:
            print("replay: run failed:", exc)
            return 1
        c2 = core.Ctx("C05", "quick", data.get("seed", 0))
        c2.known = []
        n = judge_run(c2, bio, mon, "replay", case)
        hit = [f for f in c2.failures if f["case"].get("residue") == case.get("residue") and f["case"].get("atom") == case.get("atom")]
        if case.get("residue"):  # the recorded failure itself, not other (e.g. known) ones of the same run
            n = len(hit)
        print("replay:", "FAILS" if n else "passes", [f["what"] for f in (hit or c2.failures)[:3]])
        ctx.cleanup()
        return 1 if n else 0
    if t == "fit":
        s = c15.template_sine(case["defs"][: case["n"]])
        print("replay: template conditioning", s)
        return 1 if s < 0.02 else 0
    print("replay: correspondence / site case - rerun ./check C05")
    return 1
