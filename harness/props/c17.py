"""C17 - the suggested APBS grid encloses the molecule and is multigrid-legal.

Model: coq/Model/Psize.v (psize.Psize after commit 54cff74 and the repairs of findings
C17-F11 / C17-F12, inputgen Input/Elec as used by io.dump_apbs).  Streams:
  A  numeric: PQR texts written by the repo's own writer (1..2000 atoms), atoms read
     back from the text by fixed column positions and handed to the Q model as
     decimal integers; Psize outputs compared (ints exact, rationals <= 1e-9).
  B  text level: small files (<= 30 lines) with fields that fill their columns and run
     together (fixed layout: read by column since C17-F11 was repaired), header/comment
     lines, short and malformed lines; parse_line/parse_lines of the model vs the code.
  C  io.dump_apbs text vs the model's rendering, plus end-to-end main_driver runs.
Search: model-independent oracle on the real code (containment of every atom
sphere, centring, 32k+1 >= 33, fine <= coarse, memory figure vs grid, header
insertion pairs, `mol pqr` names the PQR just written).
"""

import argparse
import io as _io
import json
import math
import os
import re
from decimal import Decimal
from fractions import Fraction
from pathlib import Path

from harness import core

META = {
    "id": "C17",
    "level": "proof",
    "technique": (
        "Coq proofs (induction over line/atom lists, exact rational arithmetic, pure-Z grid reasoning) about an "
        "arithmetic-generic Gallina model of psize.Psize and of the inputgen text written by io.dump_apbs; "
        "differential correspondence model(Q, vm_compute) vs the real code; model-independent search"
    ),
    "level_text": (
        "For ALL boxes and parameter values every ngrid entry is 32k+1 >= 33 (any arithmetic). In exact arithmetic, "
        "for ALL atom lists and cfac >= 1, fadd >= 0: after accumulation every measured sphere is inside [min,max], "
        "the fine and coarse boxes are centred on the midpoint, contain [min,max] hence every sphere, fine <= coarse "
        "(all parameters); set_smallest terminates within a proved fuel bound with integer 32k+1 entries under the "
        "ceiling; reported MB = 200*nx*ny*nz/2^20 for the grid reported (ngrid, or nsmall for a parallel solve), and "
        "for ofrac >= 0 the report is produced for EVERY grid (C17-F12 repaired: no ':d' on a float, no zero divisor). "
        "For ALL line lists a line not starting with ATOM/HETATM changes no output (54cff74). For ALL fixed-column "
        "records whose five numbers fit their 8/8/8/8/7 columns - touching or not - and for all blank-separated "
        "records the line is measured with exactly the numbers written (C17-F11 repaired; float() assumed to ignore "
        "leading blanks). For ALL whitespace-delimited records (decimal points not in the PDB columns 34/42/50, as in "
        "every --whitespace layout) the LAST five words after column 30 are measured whatever precedes them, e.g. the "
        "insertion code at index 30 (C17-F13 repaired). The .in text names Path(pqr).name and carries ngrid/coarse/fine. "
        "Console entry points (fresh process per command line, option lattice of both parsers): what psize prints and "
        "inputgen writes must be the sizing for the parameters the command line states - tied to the model for the "
        "printed psize report and the mg-auto numbers; mg-para/mg-manual/--asynch/--split texts are not in the Coq model "
        "and are judged by the oracle and the library only; pdb2pqr.psize has no main() (upstream #181): its "
        "build_parser() is driven as Psize(**options). inputgen.main raises on every command line (C17-F14). "
        "Histories with 2-3 sizing objects alive at once, one object sized with two files, and repeated rendering: every "
        "attribute, str() and the inputgen.Input texts of an object must equal those of the same structure sized alone "
        "(the model has no state besides the lines and parameters). Not covered: numbers wider than their columns (truncated by the writer: C08 overflow finding); --whitespace "
        "records written by a print_pqr that leaves z|q|r touching (before the C08 repairs) with |q| >= 100 or r >= 10."
    ),
    "level_note": (
        "Trusted: Coq kernel+vm_compute; float() and '%.4f' are oracles (python-filled table / exact half-even "
        "rendering in the executable instance); float rounding is not verified (measured: rationals agree <= 1e-9, "
        "int() sites within 1e-9 of a rounding boundary are counted and excluded); log() is modelled exactly for "
        "0 < redfac < 1 only; that nsmall/proc_grid entries are python ints is a typing fact of the model checked on "
        "every correspondence case; APBS's reading of `mol 1` as the psize centre is assumed."
    ),
    "design_ref": "DESIGN.md 4 C17, 5 F3",
}

THEOREMS = [
    "C17_grid_form",
    "C17_grid_form_set_all",
    "C17_boxes_contain",
    "C17_boxes_contain_guard_needed",
    "C17_fine_le_coarse",
    "C17_centered",
    "C17_minmax_contains_all",
    "C17_spheres_in_boxes",
    "C17_double_parse_same_box",
    "C17_smallest_terminates",
    "C17_smallest_succeeds",
    "C17_mem_estimate",
    "C17_report_total",
    "C17_report_parallel_witness",
    "C17_header_lines_ignored",
    "C17_header_lines_filtered",
    "C17_fixed_columns_measured",
    "C17_separated_fields_measured",
    "C17_fixed_columns_witness",
    "C17_ws_tail_measured",
    "C17_ws_tail_witness",
    "C17_input_names_pqr",
    "C17_basename",
    "C17_input_grid_lines",
    "C17_nonvacuous",
]
ALLOWED_AXIOMS: list = []

HEADER = (
    "From Coq Require Import String List ZArith QArith.\n"
    "From PV Require Import Lib.Strings Model.Psize.\n"
    "Import ListNotations.\nOpen Scope string_scope.\n"
)

SIG_GLUED = {"site": "Psize.parse_lines", "condition": "adjacent-fields-glued"}
SIG_HEADER = {"site": "Psize.parse_lines", "condition": "non-coordinate-line-parsed"}
SIG_REPORT = {"site": "Psize.__str__", "condition": "parallel-report-raises"}
SIG_FILE = {"site": "Psize.parse_input", "condition": "file-route-differs-from-string-route"}
SIG_ICODE = {"site": "Psize.parse_lines", "condition": "insertion-code-read-as-number"}

DEFAULTS = dict(cfac=1.7, fadd=20.0, space=0.5, gmemfac=200, gmemceil=400, ofrac=0.1, redfac=0.25)
PKEYS = ["cfac", "fadd", "space", "gmemfac", "gmemceil", "ofrac", "redfac"]

HEADER_LINES = [
    "REMARK   1 PQR file generated by PDB2PQR (Version Monson-Dev BRANCH )",
    "REMARK   1",
    "REMARK   1 Command line used to generate this file:",
    "REMARK   1 --ff=AMBER --apbs-input --whitespace --typemap --include_header tests\\complete-test\\1AFS.pdb out.pqr",
    "REMARK   5 Warning: H1 in HOH A 333 skipped when optimizing H2 in HOH A 334",
    "REMARK   6 Total charge on this biomolecule: -4.0000 e",
    "REMARK   7 words after column thirty 1.0 2.0 3.0 4.0 5.0 6.0",
    "HEADER    OXIDOREDUCTASE                          13-MAR-97   1AFS",
    "COMPND   2 MOLECULE: 3-ALPHA-HYDROXYSTEROID DEHYDROGENASE; 1 2 3 4 5 6",
    "JRNL        AUTH   M.J.BENNETT,R.H.ALBERT,J.M.JEZ,H.MA,T.M.PENNING, a b c d e",
    "# comment line that is long enough to reach past column 30 with 1.0 2.0 3.0 4.0 5.0",
    "TER",
    "END",
    "ENDMDL",
    "END   ",
    "MODEL        2",
    "",
    "   ",
    "atom      1  N   ALA     1       1.000   2.000   3.000  0.1000 1.5000",
    " ATOM     1  N   ALA     1       1.000   2.000   3.000  0.1000 1.5000",
    "CONECT    1    2    3    4    5    6    7    8    9   10   11   12",
]


# --------------------------------------------------------------------------
# building PQR text with the repo's own writer


ICODES = ["A", "1", "B", "9", "Z", "0"]


def gen_deco(rng):
    """What stands before the numbers: chain ids written or not, insertion codes (letters and
    digits) on none / some / all residues, residue numbers of up to four characters."""
    return {
        "chain": rng.random() < 0.5,
        "icode": rng.choice(["none", "rare", "some", "all"]),
        "resbase": rng.choice([1, 1, 95, 995, 9990, -105, -12]),
    }


def _atoms(spec, deco=None):
    from pdb2pqr.structures import Atom

    deco = deco or {"chain": False, "icode": "rare", "resbase": 1}
    out = []
    for k, (het, x, y, z, q, r) in enumerate(spec):
        a = Atom()
        a.type = "HETATM" if het else "ATOM"
        a.serial = k + 1
        a.name = ["N", "CA", "C", "O", "HB1", "1HG2"][k % 6]
        a.res_name = ["ALA", "LIG", "HOH", "NTRP"][(k // 7) % 4] if het else "ALA"
        a.chain_id = "A"
        a.res_seq = max(-999, min(9999, deco["resbase"] + (k // 6) % 9999))
        if deco["icode"] == "rare":
            a.ins_code = "A" if k % 53 == 52 else ""
        elif deco["icode"] == "none":
            a.ins_code = ""
        else:
            a.ins_code = ICODES[k % len(ICODES)] if (deco["icode"] == "all" or k % 3 == 0) else ""
        a.x, a.y, a.z = x, y, z
        a.ffcharge = q
        a.radius = r
        out.append(a)
    return out


def write_pqr(ctx, spec, whitespace, path=None, deco=None):
    """PQR text for the atoms as pdb2pqr writes it (print_biomolecule_atoms +
    main.print_pqr).  Returns the list of lines as file.readlines() gives them."""
    from pdb2pqr import io as pio
    from pdb2pqr import main as pmain

    lines = pio.print_biomolecule_atoms(_atoms(spec, deco), bool(deco and deco["chain"]))
    p = Path(path) if path else ctx.scratch_dir() / "w.pqr"
    p.parent.mkdir(parents=True, exist_ok=True)
    args = argparse.Namespace(output_pqr=str(p), whitespace=whitespace)
    pmain.print_pqr(args, lines, [], [], False)
    with open(p, encoding="utf-8") as fh:
        return fh.readlines()


COLS_FIXED = [(30, 38), (38, 46), (46, 54), (54, 62), (62, 69)]
# --whitespace layout of the tree under test (print_pqr decides where blanks go); probe_layout() sets it
LAYOUT = {"ws": [(32, 40), (41, 49), (50, 58), (58, 66), (66, 73)], "ws_icode": 28}
ICODE_FIXED = 26


def probe_layout(ctx):
    """Where print_pqr --whitespace puts the five numbers and the insertion code: one atom
    with recognisable values is written and the fields are located in the text."""
    deco = {"chain": True, "icode": "all", "resbase": 7}
    from pdb2pqr import io as pio
    from pdb2pqr import main as pmain

    atoms = _atoms([(False, 1.111, 2.222, 3.333, 0.4444, 5.5555)], deco)
    atoms[0].ins_code = "Q"
    lines = pio.print_biomolecule_atoms(atoms, True)
    p = ctx.scratch_dir() / "probe.pqr"
    pmain.print_pqr(argparse.Namespace(output_pqr=str(p), whitespace=True), lines, [], [], False)
    l = p.read_text().splitlines()[0]
    cols = []
    for tok, width in (("1.111", 8), ("2.222", 8), ("3.333", 8), ("0.4444", 8), ("5.5555", 7)):
        end = l.index(tok) + len(tok)
        cols.append((end - width, end))
    LAYOUT["ws"] = cols
    LAYOUT["ws_icode"] = l.index("Q")
    return cols


def is_coord(line):
    return line.startswith("ATOM") or line.startswith("HETATM")


def cols_of(whitespace):
    if isinstance(whitespace, (list, tuple)):  # explicit column table (corpus cases)
        return [tuple(c) for c in whitespace]
    return LAYOUT["ws"] if whitespace else COLS_FIXED


def fields_of(line, whitespace):
    return [line[a:b] for a, b in cols_of(whitespace)]


def read_back(lines, whitespace):
    """Independent reader: the five numbers of every coordinate line by column
    position, as exact decimals.  Returns (atoms, glued_flags) or None if some
    field is not a plain decimal."""
    atoms, glued = [], []
    for l in lines:
        if not is_coord(l):
            continue
        f = fields_of(l.rstrip("\n"), whitespace)
        try:
            vals = [Decimal(s.strip()) for s in f]
        except Exception:
            return None
        g = False
        # neighbours that share a border (fixed layout: all; --whitespace: those print_pqr does not separate)
        cols = cols_of(whitespace)
        for i in (1, 2, 3, 4):
            if cols[i - 1][1] != cols[i][0]:
                continue
            sep = f[i - 1].endswith(" ") or f[i].startswith(" ") or f[i].strip().startswith("-")
            g = g or not sep
        atoms.append((l.startswith("HETATM"), *vals))
        glued.append(g)
    return atoms, glued


# --------------------------------------------------------------------------
# running the real code


def run_impl(lines, params, twice=False):
    """Psize on the given lines.  Returns a dict (status OK) or {'status': 'ERR:..'}"""
    from pdb2pqr.psize import Psize

    p = Psize(**params)
    try:
        p.parse_lines(lines)
        if twice:
            p.parse_lines(lines)
    except ValueError as e:
        return {"status": "ERR:ValueError-float", "msg": str(e)[:80], "stage": "parse"}
    except Exception as e:  # noqa
        return {"status": f"ERR:{type(e).__name__}", "msg": str(e)[:80], "stage": "parse"}
    try:
        p.set_all()
    except TypeError as e:
        return {"status": "ERR:TypeError-None", "msg": str(e)[:80], "stage": "set_all", "gotatom": p.gotatom, "gothet": p.gothet}
    except ZeroDivisionError as e:
        return {"status": "ERR:ZeroDivisionError", "msg": str(e)[:80], "stage": "set_all"}
    except ValueError as e:
        kind = "log" if "math domain" in str(e) else ("ceiling" if e.args and isinstance(e.args[0], (int, float)) else "other")
        return {"status": f"ERR:ValueError-{kind}", "msg": str(e)[:80], "stage": "set_all"}
    except Exception as e:  # noqa
        return {"status": f"ERR:{type(e).__name__}", "msg": str(e)[:80], "stage": "set_all"}
    try:
        text = str(p)
        rep = parse_report(text)
    except ValueError as e:
        rep = "ERR:ValueError-fmt-d" if "format code 'd'" in str(e) else f"ERR:ValueError:{e}"
    except ZeroDivisionError:
        rep = "ERR:ZeroDivisionError"
    except Exception as e:  # noqa
        rep = f"ERR:{type(e).__name__}:{e}"
    return {
        "status": "OK",
        "gotatom": p.gotatom,
        "gothet": p.gothet,
        "charge": p.charge,
        "min": list(p.minlen),
        "max": list(p.maxlen),
        "mol": list(p.mol_length),
        "coarse": list(p.coarse_length),
        "fine": list(p.fine_length),
        "center": list(p.center),
        "ngrid": list(p.ngrid),
        "nsmall": list(p.nsmall),
        "nproc": list(p.proc_grid),
        "nfocus": p.nfocus,
        "report": rep,
        "gmemceil": p.gmemceil,
    }


def parse_report(text):
    if text.startswith("No ATOM entries"):
        return "NOATOM"
    m = re.search(r"Estimated mem\. required for (sequential|parallel) solve = ([-\d.]+) MB", text)
    m2 = re.search(r"Memory per processor = ([-\d.]+) MB", text)
    if not m or not m2:
        return "ERR:unparsed-report"
    return ("seq" if m.group(1) == "sequential" else "par", m.group(2), m2.group(1))


# --------------------------------------------------------------------------
# model terms


def qlit(fr: Fraction) -> str:
    n, d = fr.numerator, fr.denominator
    return f"(Qmake ({n}) {d})"


def params_term(params):
    vals = [Fraction(*float(params[k]).as_integer_ratio()) for k in PKEYS]
    return "(mkP " + " ".join(qlit(v) for v in vals) + ")"


def atomsZ_term(atoms):
    items = []
    for het, x, y, z, q, r in atoms:
        zs = []
        for v in (x, y, z, q, r):
            s = v * 10000
            assert s == s.to_integral_value(), v
            zs.append(core.coq_Z(int(s)))
        items.append(f"({'true' if het else 'false'}, {', '.join(zs)})")
    return core.coq_list(items)


def coq_bool(b):
    return "true" if b else "false"


def float_table(lines):
    toks = set()
    for l in lines:
        for k in (0, 28, 29, 30, 31, 32):
            s = l[k:]
            toks.update(s.split())
            toks.update(s.replace("-", " -").split())
        # the fixed-column fallback hands whole columns (blanks included) to float()
        toks.update(w for w in (l[a:b] for a, b in COLS_FIXED) if w.strip())
    items = []
    for t in sorted(toks):
        if any(ord(ch) > 126 for ch in t):
            continue
        key = core.coq_string_bytes(t)
        try:
            f = float(t)
        except ValueError:
            items.append(f"({key}, None)")
            continue
        if math.isnan(f) or math.isinf(f):
            return None
        items.append(f"({key}, Some {qlit(Fraction(*f.as_integer_ratio()))})")
    return core.coq_list(items)


def lines_term(lines):
    return core.coq_list([core.coq_string_bytes(l) for l in lines])


# --------------------------------------------------------------------------
# comparing a model result string with the implementation


def fr(s):
    n, d = s.split("/")
    return Fraction(int(n), int(d))


def frs(s):
    return [fr(x) for x in s.split(",")]


def close(model: Fraction, impl: float, scale: float) -> bool:
    m = float(model)
    return abs(m - impl) <= 1e-9 * max(abs(m), scale)


def near_int(v: float) -> bool:
    return abs(v - round(v)) <= 1e-9 * max(1.0, abs(v))


def compare(mout: str, impl: dict, params) -> tuple[list, bool]:
    """Returns (list of differences, boundary_flag).  boundary_flag = some int()
    site of the model is within 1e-9 of a rounding boundary."""
    if mout.startswith("ERR:") or impl["status"] != "OK":
        if mout.startswith("ERR:") and impl["status"] == mout:
            return [], False
        return [f"status impl={impl['status']} model={mout[:60]}"], False
    f = mout.split("|")
    diffs = []
    (_, ga, gh, ch, mn, mx, mol, co, fi, ce, ng, ns, npr, nf, sites, rep) = f
    if int(ga) != impl["gotatom"] or int(gh) != impl["gothet"]:
        diffs.append(f"counts impl={impl['gotatom']},{impl['gothet']} model={ga},{gh}")
    scale = max([abs(v) for v in impl["min"] + impl["max"]] + [1e-3])
    if not close(fr(ch), impl["charge"], max(1.0, 1e-3 * (impl["gotatom"] + impl["gothet"]))):
        diffs.append(f"charge impl={impl['charge']} model={float(fr(ch))}")
    for name, s, sc in (("min", mn, scale), ("max", mx, scale), ("center", ce, scale), ("mol", mol, 0.0), ("coarse", co, 0.0), ("fine", fi, 0.0)):
        for i, (a, b) in enumerate(zip(frs(s), impl[name])):
            if not close(a, b, sc):
                diffs.append(f"{name}[{i}] impl={b!r} model={float(a)!r}")
    # integer outputs
    idiffs = []
    if [int(x) for x in ng.split(",")] != impl["ngrid"]:
        idiffs.append(f"ngrid impl={impl['ngrid']} model={ng}")
    for i, (a, b) in enumerate(zip(ns.split(","), impl["nsmall"])):
        tag = "i" if isinstance(b, int) else "f"
        val = Fraction(int(a[1:])) if a[0] == "i" else fr(a[1:])
        if a[0] != tag or val != Fraction(b):
            idiffs.append(f"nsmall[{i}] impl={b!r} model={a}")
    for i, (a, b) in enumerate(zip(npr.split(","), impl["nproc"])):
        tag = "i" if isinstance(b, int) else "f"
        val = Fraction(int(a[1:])) if a[0] == "i" else fr(a[1:])
        if a[0] != tag or abs(float(val) - b) > 1e-9 * max(1.0, abs(b)):
            idiffs.append(f"nproc[{i}] impl={b!r} model={a}")
    if int(nf) != impl["nfocus"]:
        idiffs.append(f"nfocus impl={impl['nfocus']} model={nf}")
    # report
    irep = impl["report"]
    if rep.startswith("ERR:") or rep == "NOATOM" or isinstance(irep, str):
        if rep != irep:
            idiffs.append(f"report impl={irep} model={rep}")
    else:
        kind, est, per = rep.split(";")
        if kind != irep[0] or abs(float(fr(est)) - float(irep[1])) > 5.1e-4 or abs(float(fr(per)) - float(irep[2])) > 5.1e-4:
            idiffs.append(f"report impl={irep} model={kind},{float(fr(est))},{float(fr(per))}")
    # rounding sites
    boundary = False
    g1, g2, g3 = sites.split(";")
    for v in frs(g1) + frs(g2):
        if near_int(float(v)):
            boundary = True
    rf = float(params["redfac"])
    for x in frs(g3):
        xf = float(x)
        if xf > 0 and 0 < rf < 1:
            t = math.log(xf) / math.log(rf)
            if near_int(t) and t > 1e-12:
                boundary = True
    return diffs + idiffs, boundary and not diffs and bool(idiffs)


# --------------------------------------------------------------------------
# generators


def gen_params(rng, allow_bad=True):
    r = rng.random()
    if r < 0.35:
        return dict(DEFAULTS), None
    p = dict(DEFAULTS)
    p["cfac"] = rng.choice([1.0, 1.1, 1.5, 1.7, 2.0, 3.0, round(rng.uniform(1, 4), 3)])
    p["fadd"] = rng.choice([0.0, 5.0, 20.0, 40.0, round(rng.uniform(0, 50), 2)])
    p["space"] = rng.choice([0.2, 0.25, 0.3, 0.5, 0.5, 0.75, 1.0, 2.0, round(rng.uniform(0.15, 2), 3)])
    p["gmemfac"] = rng.choice([200, 100, 400])
    p["gmemceil"] = rng.choice([400, 400, 100, 50, 10, 1, 1000, 4000, 200.0 * 33**3 / 1048576, 200.0 * 65**3 / 1048576, 200.0 * 97 * 65 * 33 / 1048576, round(rng.uniform(1, 500), 2)])
    p["ofrac"] = rng.choice([0.1, 0.0, 0.2, 0.5, round(rng.uniform(0, 0.5), 3)])
    p["redfac"] = rng.choice([0.25, 0.1, 0.5, 0.75, round(rng.uniform(0.05, 0.9), 3)])
    bad = None
    if allow_bad and r > 0.93:
        bad = rng.choice(["space0", "redfac1", "redfac0", "redfacneg", "ceil-tiny", "cfac0", "cfac<1", "fadd<0", "ofrac<0"])
        if bad == "space0":
            p["space"] = 0.0
        elif bad == "redfac1":
            p["redfac"] = 1.0
        elif bad == "redfac0":
            p["redfac"] = 0.0
        elif bad == "redfacneg":
            p["redfac"] = -0.25
        elif bad == "ceil-tiny":
            p["gmemceil"] = rng.choice([0.0001, 0, -1])
        elif bad == "cfac0":
            p["cfac"] = 0.0
        elif bad == "cfac<1":
            p["cfac"] = rng.choice([0.5, 0.9])
        elif bad == "fadd<0":
            p["fadd"] = rng.choice([-0.05, -5.0, -1000.0])
        elif bad == "ofrac<0":
            p["ofrac"] = rng.choice([-0.25, -0.5, -1.0])
    return p, bad


EXTENTS = [0.0, 0.05, 0.1, 1.0, 7.5, 30.0, 80.0, 200.0, 1000.0, 10000.0]


# what the fixed-column record can hold (wider numbers are truncated by the writer: C08 overflow finding)
CAP_XYZ = (-999.999, 9999.999)
CAP_Q = (-99.9999, 999.9999)
CAP_R = (0.0, 99.9999)


def gen_spec(rng, n, mode):
    """mode: 'safe' (every |coordinate| < 999 so fixed columns stay apart),
    'cap' (anything the 8/8/8/8/7 columns can hold: coordinates -999.999..9999.999 that
    fill their columns and touch their neighbours; sometimes charges >= 100 / radii >= 10),
    'any' (offsets to +-1e5, extents to 1e4: beyond the columns, --whitespace only)"""
    ext = [rng.choice(EXTENTS) * rng.choice([1.0, 1.0, 0.3, 0.01]) for _ in range(3)]
    if rng.random() < 0.5:
        ext = [ext[0]] * 3
    if mode == "safe":
        ext = [min(e, 1800.0) for e in ext]
        off = [rng.choice([0.0, -50.0, 12.345, -900.0, 500.0]) for _ in range(3)]
        off = [max(-998.0, min(o, 998.0 - e)) for o, e in zip(off, ext)]
        off = [max(o, -998.0) for o in off]
    elif mode == "cap":
        off = [rng.choice([0.0, -50.0, 12.345, -900.0, 500.0, 990.0, 999.5, -999.5, 5000.0, 9990.0]) for _ in range(3)]
        ext = [min(e, CAP_XYZ[1] - o) for e, o in zip(ext, off)]
    else:
        off = [rng.choice([0.0, -50.0, 500.0, 990.0, 999.5, -999.5, 5000.0, -5000.0, 9990.0, 1e5, -1e5]) for _ in range(3)]
    spec = []
    # record-type mix per file: mostly ATOM with a few HETATM, ATOM only, HETATM ONLY (a ligand-only PQR: the
    # ligand leg of a binding-energy calculation), half and half
    het_p = rng.choice([0.1, 0.1, 0.0, 1.0, 1.0, 0.5])
    rad0 = rng.random() < 0.1
    # charges / radii that fill their columns: wherever the layout keeps or reads them apart
    ws_all_apart = all(a[1] != b[0] for a, b in zip(LAYOUT["ws"], LAYOUT["ws"][1:]))
    wide_qr = (mode == "cap" or (mode == "any" and ws_all_apart)) and rng.random() < 0.15
    for k in range(n):
        xyz = [round(o + rng.random() * e, 3) for o, e in zip(off, ext)]
        if mode == "safe":
            xyz = [max(-998.9, min(v, 998.9)) for v in xyz]
        elif mode == "cap":
            xyz = [max(CAP_XYZ[0], min(v, CAP_XYZ[1])) for v in xyz]
        q = round(rng.uniform(-1, 1), 4)
        r = 0.0 if rad0 else round(rng.choice([0.0, 0.6, 1.0, 1.2, 1.5, 1.8, 2.0, 2.2, rng.uniform(0.5, 3)]), 4)
        if wide_qr and rng.random() < 0.5:
            q = round(rng.choice([100.0, CAP_Q[0], CAP_Q[1], -10.0, rng.uniform(100, 999)]), 4)
            r = round(rng.choice([10.0, CAP_R[1], r, rng.uniform(10, 99)]), 4)
        spec.append((rng.random() < het_p, xyz[0], xyz[1], xyz[2], q, r))
    return spec, ext, off


def over_capacity(spec):
    """Some number of the atoms does not fit its fixed column (the writer truncates it)."""
    for _, x, y, z, q, r in spec:
        if not all(CAP_XYZ[0] - 0.0004 <= v < CAP_XYZ[1] + 0.0005 for v in (x, y, z)):
            return True
        if not (CAP_Q[0] - 0.00004 <= q < CAP_Q[1] + 0.00005 and r < CAP_R[1] + 0.00005):
            return True
    return False


def two_parts(rng, n, mode):
    """Two clouds of atoms (protein + ligand, two models) for a file with several sections."""
    s1, e1, o1 = gen_spec(rng, max(1, n // 2), mode)
    s2, e2, o2 = gen_spec(rng, max(1, n - n // 2), mode)
    return [s1, s2], [max(a, b) for a, b in zip(e1, e2)], [min(a, b) for a, b in zip(o1, o2)]


def not_enclosed(res, atoms):
    """Atoms (read back by column) whose sphere is outside the fine box of a sizing result."""
    if res.get("status") != "OK":
        return None
    for a in atoms:
        for i in range(3):
            c, r = float(a[1 + i]), abs(float(a[5]))
            tol = 1e-9 * max(1.0, abs(c))
            if c - r < res["center"][i] - res["fine"][i] / 2 - tol or c + r > res["center"][i] + res["fine"][i] / 2 + tol:
                return f"atom sphere {c}+-{r} on axis {i} is outside the fine box (centre {res['center'][i]!r}, length {res['fine'][i]!r})"
    return None


def route_check(ctx, lines, params, atoms, ws, route, twice=False):
    """ctx.fail when the file route gives another sizing than the string route for the same text;
    says whether the molecule is then no longer enclosed.  Returns True on a difference."""
    diff = route_difference(lines, params, twice)
    ctx.count("file-route-vs-string-route")
    if diff is None:
        return False
    miss = not_enclosed(file_route(lines, params, twice), atoms) if atoms else None
    what = f"{route}: the file and the same text as lines/string are sized differently ({diff[:500]})" + (f"; from the file, {miss}" if miss else "")
    ctx.fail(dict(SIG_FILE), what, {"kind": "file-route", "route": route, "lines": lines, "params": params, "whitespace": ws, "twice": twice})
    return True


def sectioned(rng, blocks):
    """Several coordinate sections in one file, as in two concatenated PQR files (protein +
    ligand, each closed by TER / END) or a multi-model PQR (MODEL n ... ENDMDL)."""
    style = rng.choice(["concat", "models", "end-only"])
    out = []
    for n, b in enumerate(blocks):
        coords = [l for l in b if is_coord(l)]
        if style == "models":
            out += [f"MODEL     {n + 1:4d}\n"] + coords + ["TER\n", "ENDMDL\n"]
        elif style == "concat":
            out += [f"REMARK   1 part {n + 1}\n"] + coords + ["TER\n", "END\n"]
        else:
            out += coords + ["END\n"]
    if style == "models":
        out.append("END\n")
    return out


def file_route(lines, params, twice=False):
    """The same text through the FILE route of the sizing (Psize.run_psize = parse_input + set_all;
    io.dump_apbs calls parse_input before it): run_impl-like dict."""
    import tempfile

    from pdb2pqr.psize import Psize

    with tempfile.TemporaryDirectory(prefix="pv_C17_route_") as d:
        path = os.path.join(d, "route.pqr")
        with open(path, "w", encoding="utf-8") as fh:
            fh.writelines(lines)
        p = Psize(**params)
        try:
            if twice:
                p.parse_input(path)
            p.run_psize(path)
        except Exception as e:  # noqa
            return {"status": f"ERR:{type(e).__name__}"}
    return {"status": "OK", "gotatom": p.gotatom, "gothet": p.gothet, "charge": p.charge, "min": list(p.minlen), "max": list(p.maxlen), "center": list(p.center), "fine": list(p.fine_length), "coarse": list(p.coarse_length), "ngrid": list(p.ngrid), "nsmall": list(p.nsmall), "nproc": list(p.proc_grid), "nfocus": p.nfocus}


ROUTE_KEYS = ("status", "gotatom", "gothet", "charge", "min", "max", "center", "fine", "coarse", "ngrid", "nsmall", "nproc", "nfocus")


def route_difference(lines, params, twice=False):
    """None, or a description of how the file route differs from the string route (parse_lines
    on the same lines, parse_string on the same text).  A line that starts with neither ATOM
    nor HETATM changes no output (C17_header_lines_ignored): the three routes must agree."""
    from pdb2pqr.psize import Psize

    s = run_impl(lines, params, twice)
    f = file_route(lines, params, twice)
    norm = lambda d: {k: (d.get(k) if d["status"] == "OK" else None) for k in ROUTE_KEYS if k != "status"} if d["status"] == "OK" else {"status": d["status"].split("-")[0]}
    ns, nf = norm(s), norm(f)
    if s["status"] != f["status"] and "OK" in (s["status"], f["status"]):
        return f"run_psize(file) -> {f['status']}, parse_lines(lines) -> {s['status']}" + (f" (gotatom/gothet {s['gotatom']}/{s['gothet']}, centre {s['center']})" if s["status"] == "OK" else "")
    if ns != nf:
        keys = [k for k in set(ns) | set(nf) if ns.get(k) != nf.get(k)]
        return "run_psize(file) vs parse_lines(lines): " + "; ".join(f"{k}: file={nf.get(k)!r} lines={ns.get(k)!r}" for k in sorted(keys)[:5])
    p = Psize(**params)
    try:
        p.parse_string("".join(lines))
        if twice:
            p.parse_string("".join(lines))
        g = (p.gotatom, p.gothet, p.minlen, p.maxlen)
    except Exception as e:  # noqa
        g = f"ERR:{type(e).__name__}"
    if s["status"] == "OK" and g != (s["gotatom"], s["gothet"], s["min"], s["max"]):
        return f"parse_string(text) vs parse_lines(lines): {g!r} vs {(s['gotatom'], s['gothet'], s['min'], s['max'])!r}"
    return None


def insert_headers(rng, lines, how):
    """how: 'none' | 'top' | 'mixed'"""
    if how == "none":
        return list(lines)
    out = list(lines)
    hs = [h + "\n" for h in rng.sample(HEADER_LINES, rng.randint(1, 6))]
    if how == "top":
        return hs + out
    for h in hs:
        out.insert(rng.randrange(len(out) + 1), h)
    return out


# --------------------------------------------------------------------------
# model-independent oracle


def unglue(lines, whitespace):
    """The same records with the five numbers kept apart by blanks."""
    out = []
    for l in lines:
        if is_coord(l):
            f = fields_of(l.rstrip("\n"), whitespace)
            out.append(l[:30].ljust(30) + "  " + "  ".join(x.strip() for x in f) + "\n")
        else:
            out.append(l)
    return out


def icode_col(whitespace):
    """Index of the insertion code: always four columns before the x field."""
    return cols_of(whitespace)[0][0] - 4


def blank_icodes(lines, whitespace):
    c = icode_col(whitespace)
    return [(l[:c] + " " + l[c + 1 :]) if is_coord(l) and len(l) > c + 1 else l for l in lines]


def oracle(impl, atoms, glued, params, lines, has_headers, whitespace=False):
    """atoms: exact decimals read back by column position.  Returns a list of
    (signature, what)."""
    out = []
    any_glued = any(glued)
    repaired_conds = None
    noicode_conds = None
    any_icode = bool(whitespace) and any(is_coord(l) and l[icode_col(whitespace) : icode_col(whitespace) + 1].strip() for l in lines)

    def diag(cond, site="Psize.set_all"):
        nonlocal repaired_conds, noicode_conds
        if any_icode:
            # blamed on the insertion code standing at index 30 of a --whitespace record only if
            # the failure goes away once the insertion codes are blanked
            if noicode_conds is None:
                bl = blank_icodes(lines, whitespace)
                bi = run_impl(bl, params)
                noicode_conds = {s["condition"] for s, _ in oracle(bi, atoms, [False] * len(atoms), params, bl, has_headers)}
            if cond not in noicode_conds:
                return dict(SIG_ICODE)
        if any_glued:
            # the failure is attributed to fused fields only if it goes away
            # once the same numbers are written with blanks between them
            if repaired_conds is None:
                rl = unglue(lines, whitespace)
                ri = run_impl(rl, params)
                repaired_conds = {s["condition"] for s, _ in oracle(ri, atoms, [False] * len(atoms), params, rl, has_headers)}
            if cond not in repaired_conds:
                return dict(SIG_GLUED)
        if has_headers:
            stripped = [l for l in lines if is_coord(l)]
            again = run_impl(stripped, params)
            if again != impl:
                return dict(SIG_HEADER)
        return {"site": site, "condition": cond}

    well = params["space"] > 0 and params["cfac"] > 0 and 0 < params["redfac"] < 1 and params["gmemceil"] > 200.0 / 1048576 and params["ofrac"] >= 0 and params["fadd"] >= 0
    if impl["status"] != "OK":
        if atoms and well:
            out.append((diag("raises-" + impl["status"][4:], "Psize." + impl.get("stage", "?")), f"sizing raised {impl['status']} ({impl.get('msg')}) on a PQR with {len(atoms)} atoms"))
        elif not atoms and impl["status"] not in ("ERR:TypeError-None",) and well:
            out.append((diag("raises-" + impl["status"][4:], "Psize." + impl.get("stage", "?")), f"no-atom file raised {impl['status']}"))
        return out
    if not atoms:
        return out
    lo = [min(float(a[1 + i] - a[5]) for a in atoms) for i in range(3)]
    hi = [max(float(a[1 + i] + a[5]) for a in atoms) for i in range(3)]
    scale = max([abs(v) for v in lo + hi] + [1.0])
    tol = 1e-9 * scale
    # centred on the molecule
    for i in range(3):
        if abs(impl["center"][i] - (lo[i] + hi[i]) / 2) > tol:
            out.append((diag("not-centred"), f"centre[{i}]={impl['center'][i]!r} but the atom spheres span [{lo[i]}, {hi[i]}] (midpoint {(lo[i]+hi[i])/2})"))
            break
    # containment of every sphere (direct, per atom)
    if params["cfac"] >= 1 and params["fadd"] >= 0:
        bad = None
        for a in atoms:
            for i in range(3):
                c, r = float(a[1 + i]), abs(float(a[5]))
                for name in ("fine", "coarse"):
                    L = impl[name][i]
                    if c - r < impl["center"][i] - L / 2 - tol or c + r > impl["center"][i] + L / 2 + tol:
                        bad = (name, i, c, r)
                        break
                if bad:
                    break
            if bad:
                break
        if bad:
            name, i, c, r = bad
            out.append((diag(f"{name}-box-misses-atom"), f"{name} box axis {i}: centre {impl['center'][i]!r} length {impl[name][i]!r} does not contain sphere {c}+-{r}"))
    # fine <= coarse
    for i in range(3):
        if impl["fine"][i] > impl["coarse"][i] * (1 + 1e-12) + 1e-12:
            out.append((diag("fine-exceeds-coarse", "Psize.set_fine_grid_dims"), f"fine[{i}]={impl['fine'][i]} > coarse[{i}]={impl['coarse'][i]}"))
            break
    # grid form
    for i, n in enumerate(impl["ngrid"]):
        if not (isinstance(n, int) and n >= 33 and (n - 1) % 32 == 0):
            out.append((diag("grid-form", "Psize.set_fine_grid_points"), f"ngrid[{i}]={n!r} is not 32k+1 >= 33"))
            break
    # grid resolves the requested spacing within the rounding to 32k+1 (sanity of the count itself)
    # memory estimate
    rep = impl["report"]
    ng = impl["ngrid"]
    gmem = 200.0 * ng[0] * ng[1] * ng[2] / 1024 / 1024
    if isinstance(rep, str):
        if rep == "ERR:ValueError-fmt-d" and gmem > impl["gmemceil"]:
            out.append((dict(SIG_REPORT), f"str(Psize) raises ValueError (':d' on a float) because a parallel solve is needed ({gmem:.1f} MB > {impl['gmemceil']} MB)"))
        elif rep == "NOATOM":
            if any(not a[0] for a in atoms) and not any_glued:
                out.append((diag("report-no-atom", "Psize.__str__"), "report says no ATOM entries although ATOM records exist"))
        elif well:
            # (an overlap fraction < 0 is outside the parameter domain: nproc can be 1 on a reduced axis
            # and fine / (xglob - 1) a division by zero; model and code agree on it - correspondence)
            out.append(({"site": "Psize.__str__", "condition": rep[:40]}, f"report failed: {rep}"))
    else:
        kind, est, per = rep
        grid = ng if kind == "seq" else impl["nsmall"]
        want = 200.0 * grid[0] * grid[1] * grid[2] / 1024 / 1024
        if abs(float(est) - want) > 5.1e-4 or abs(float(per) - want) > 5.1e-4 or (kind == "seq") != (gmem <= impl["gmemceil"]):
            out.append((diag("memory-figure", "Psize.__str__"), f"reported {rep} but 200*{grid}/2^20 = {want:.3f} (ceiling {impl['gmemceil']})"))
    return out


# --------------------------------------------------------------------------
# corpus


def corpus_cases():
    d = core.CORPUS / "C17"
    out = []
    if d.exists():
        for f in sorted(d.glob("*.json")):
            c = json.loads(f.read_text())
            c["file"] = f.name
            out.append(c)
    return out


def repo_header_files():
    return sorted((core.REPO / "tests" / "data").glob("*include-header*.pqr"))


# --------------------------------------------------------------------------
# the check


def run(ctx):
    import logging

    logging.getLogger().setLevel(logging.CRITICAL)
    ctx.cov["rule"] = (
        "PQR texts written by the repo's own writer (print_biomolecule_atoms + print_pqr; fixed and --whitespace layout), "
        "1..2000 atoms, extents 0..1e4 A, offsets to +-1e5 (--whitespace) or anything the 8/8/8/8/7 fixed columns hold "
        "(coordinates -999.999..9999.999, charges to 999.9999, radii to 99.9999, so that neighbouring fields touch), radius 0, "
        "HETATM mix, header/REMARK/TER/END/blank lines inserted, "
        "x sizing parameters through the Psize constructor (7% out-of-domain); non-trivial = at least one atom measured and "
        "sizing returned; distinct by (layout, atom-count bucket, extent bucket, offset bucket, header mode, parameter tuple)"
    )
    ok = core.proof_stage(ctx, "C17", THEOREMS, ALLOWED_AXIOMS)
    rng = ctx.rng
    probe_layout(ctx)
    ctx.count("whitespace-layout:x-at-%d,icode-at-%d" % (LAYOUT["ws"][0][0], LAYOUT["ws_icode"]))
    mult = 10 if ctx.thorough else 1

    # ---------------- build cases ---------------------------------------
    A_cases, B_cases, S_cases = [], [], []

    # corpus first
    for c in corpus_cases():
        lines = c["lines"]
        params = dict(DEFAULTS, **(c.get("params") or {}))
        B_cases.append({"lines": lines, "params": params, "twice": bool(c.get("twice")), "tag": "corpus:" + c["file"], "ws": c.get("cols") or bool(c.get("whitespace")), "hdr": "corpus", "sizing": bool(c.get("sizing"))})
    for f in repo_header_files():
        full = f.read_text().splitlines(keepends=True)
        hdr = [l for l in full if not is_coord(l)]
        coord = [l for l in full if is_coord(l)]
        small = hdr[:22] + coord[:6]
        B_cases.append({"lines": small, "params": dict(DEFAULTS), "twice": True, "tag": "repo-header-file-head", "ws": True, "hdr": "corpus"})
        S_cases.append({"lines": full, "params": dict(DEFAULTS), "tag": "repo-header-file", "oracle_atoms": "split"})

    # stream A: numeric, separated layouts
    nA = 480 * mult
    sizes = [1, 1, 2, 2, 3, 5, 8, 13, 21, 34, 55, 90, 150]
    for k in range(nA):
        if k < 8:
            n = [1, 2, 500, 1000, 2000, 1500, 300, 700][k] if not ctx.thorough else [1, 2, 5000, 20000, 2000, 100000, 300, 700][k]
        else:
            n = rng.choice(sizes)
        ws = rng.random() < 0.5
        spec, ext, off = gen_spec(rng, n, "any" if ws else rng.choice(["cap", "cap", "safe"]))
        params, bad = gen_params(rng)
        hdr = rng.choice(["none", "none", "top", "mixed"])
        A_cases.append({"spec": spec, "ws": ws, "params": params, "bad": bad, "hdr": hdr, "ext": ext, "off": off, "twice": rng.random() < 0.3, "deco": gen_deco(rng)})

    # rounding-boundary probes: exact arithmetic and binary64 fall on different sides of
    # int(fine/space + 0.5) here (fine = L exactly, L/space = 32k + 16.5), so ngrid differs;
    # they must be recognised as boundary cases and excluded, which exercises that accounting
    for sp, L in ((0.45, 21.825), (0.9, 72.45), (1.1, 53.35), (0.55, 97.075)):
        spec = [(False, 0.0, 5.0, 5.0, 0.0, 0.0), (False, L, 5.0, 5.0, 0.0, 0.0)]
        params = dict(DEFAULTS, cfac=1.0, fadd=0.0, space=sp)
        A_cases.append({"spec": spec, "ws": False, "params": params, "bad": None, "hdr": "none", "ext": [L, 0.0, 0.0], "off": [0.0, 5.0, 5.0], "twice": False, "probe": True})

    # stream B: text level, small
    nB = 420 * mult
    for k in range(nB):
        n = rng.choice([0, 1, 1, 2, 3, 4, 6, 9, 14])
        ws = rng.random() < 0.4
        # fixed layout beyond the columns ('any') stays in the text correspondence only: the writer has
        # already truncated those numbers (C08), the sizing oracle does not judge them
        spec, ext, off = gen_spec(rng, n, "any" if ws or rng.random() < 0.25 else "cap")
        params, bad = gen_params(rng)
        hdr = rng.choice(["none", "top", "mixed", "mixed"])
        cB = {"spec": spec, "ws": ws, "params": params, "bad": bad, "hdr": hdr, "ext": ext, "off": off, "twice": rng.random() < 0.4, "mal": rng.random() < 0.2, "deco": gen_deco(rng)}
        if n >= 2 and k % 7 == 3:
            cB["parts"], cB["ext"], cB["off"] = two_parts(rng, n, "any" if ws else "cap")
            cB["spec"], cB["hdr"], cB["mal"] = cB["parts"][0] + cB["parts"][1], "sections", False
        B_cases.append(cB)

    # ---------------- materialise texts, run the implementation ---------
    def materialise(c):
        if "lines" in c:
            return
        if c.get("parts"):
            lines = sectioned(rng, [write_pqr(ctx, sp, c["ws"], deco=c.get("deco")) for sp in c["parts"]])
        else:
            base = write_pqr(ctx, c["spec"], c["ws"], deco=c.get("deco"))
            lines = insert_headers(rng, base, c["hdr"])
        if c.get("mal"):
            m = rng.choice(["short", "junk", "exp", "trunc", "extra", "nonl", "atomonly"])
            c["malkind"] = m
            coords = [i for i, l in enumerate(lines) if is_coord(l)]
            if m == "atomonly":
                lines.insert(rng.randrange(len(lines) + 1), rng.choice(["ATOM\n", "HETATM\n", "ATOMS are listed below, five or more words 1 2 3 4 5 6\n", "HETATM   99  O   HOH    99\n"]))
            elif m == "nonl":
                lines = [l.rstrip("\n") for l in lines]
            elif coords:
                i = rng.choice(coords)
                l = lines[i].rstrip("\n")
                if m == "short":
                    l = l[: rng.choice([4, 20, 30, 31, 45, 60])]
                elif m == "junk":
                    l = l[:46] + "  abc   " + l[54:]
                elif m == "exp":
                    l = l[:54] + " 1.0e-05" + l[62:]
                elif m == "trunc":
                    l = l[: rng.randint(55, 68)]
                elif m == "extra":
                    l = l + "  extra 7.5 words"
                lines[i] = l + "\n"
        c["lines"] = lines

    for c in A_cases + B_cases:
        materialise(c)
        c["impl"] = run_impl(c["lines"], c["params"], c.get("twice", False))

    # ---------------- correspondence ------------------------------------
    termsA, keepA = [], []
    for c in A_cases:
        rb = read_back(c["lines"], c["ws"])
        c["rb"] = rb
        if rb is None or (c["ws"] and any(rb[1])):
            # --whitespace keeps x|y|z apart only; touching z|q|r there are still skipped by the code
            ctx.count("A:skipped-not-separated")
            continue
        termsA.append(f"run_atoms {params_term(c['params'])} {coq_bool(c['twice'])} {atomsZ_term(rb[0])}")
        keepA.append(c)
    termsB, keepB = [], []
    for c in B_cases:
        tab = float_table(c["lines"])
        try:
            lt = lines_term(c["lines"])
        except ValueError:
            tab = None
        if tab is None:
            ctx.count("B:skipped-unrepresentable")
            continue
        termsB.append(f"run_text {params_term(c['params'])} {coq_bool(c['twice'])} {tab} {lt}")
        keepB.append(c)

    corr_broken = False
    nbound = 0

    def corr(name, what, terms, keep, chunk):
        nonlocal corr_broken, nbound
        try:
            res = core.run_cases(name, HEADER, terms, chunk=chunk)
        except core.CoqEvalError as e:
            corr_broken = True
            ctx.broke("correspondence-broken", f"{what}: model evaluation failed", str(e))
            return
        for c, mout in zip(keep, res):
            ctx.cov["correspondence_cases"] += 1
            c["model"] = mout
            if "MODEL-" in mout:
                corr_broken = True
                ctx.cov["correspondence_disagreements"] += 1
                ctx.broke("correspondence-broken", f"{what}: model left its domain ({mout[:60]})", "", {"lines": c["lines"][:40], "params": c["params"]})
                continue
            diffs, boundary = compare(mout, c["impl"], c["params"])
            if diffs and boundary:
                nbound += 1
                ctx.count("rounding-boundary-excluded")
                continue
            if diffs:
                ctx.cov["correspondence_disagreements"] += 1
                corr_broken = True
                if len([b for b in ctx.broken if b["kind"] == "correspondence-broken"]) < 4:
                    ctx.broke("correspondence-broken", what, "; ".join(diffs)[:1500], {"lines": c["lines"][:60], "params": c["params"], "twice": c.get("twice", False), "whitespace": c["ws"]})

    corr(f"C17A{os.getpid()}", "Model.Psize.run_atoms (run_events/set_all/report over Q) vs psize.Psize.parse_lines/set_all/__str__", termsA, keepA, 24)
    corr(f"C17B{os.getpid()}", "Model.Psize.run_text (parse_line/parse_lines/set_all over Q) vs psize.Psize.parse_lines/set_all/__str__", termsB, keepB, 24)
    ctx.cov["rounding_boundary_excluded"] = nbound

    # ---------------- stream C: io.dump_apbs text ------------------------
    dump_cases = dump_apbs_stream(ctx, 14 * mult)
    termsC = []
    keepC = []
    for c in dump_cases:
        tab = float_table(c["lines"])
        if tab is None or c["text"] is None:
            continue
        termsC.append(f"run_dump_text {params_term(DEFAULTS)} {tab} {core.coq_string(c['pqrpath'])} {lines_term(c['lines'])}")
        keepC.append(c)
    try:
        resC = core.run_cases(f"C17C{os.getpid()}", HEADER, termsC, chunk=8)
        for c, mout in zip(keepC, resC):
            ctx.cov["correspondence_cases"] += 1
            if mout != c["text"] and fmt4_tie_only(c["text"], mout, c["lines"]):
                # an exact x.xxxx5 tie of cglen/fglen: '%.4f' of the binary64 value and of the exact
                # rational legitimately fall on different sides (same class as the int() boundaries)
                nbound += 1
                ctx.count("rounding-boundary-excluded")
                ctx.cov["rounding_boundary_excluded"] = nbound
                continue
            if mout != c["text"]:
                ctx.cov["correspondence_disagreements"] += 1
                corr_broken = True
                ctx.broke("correspondence-broken", "Model.Psize.dump_apbs_text vs io.dump_apbs (inputgen.Input/Elec.__str__)", first_diff(c["text"], mout), {"pqrpath": c["pqrpath"], "lines": c["lines"]})
    except core.CoqEvalError as e:
        corr_broken = True
        ctx.broke("correspondence-broken", "dump_apbs_text: model evaluation failed", str(e))

    # ---------------- search with the independent oracle ------------------
    search_cases = [c for c in A_cases + B_cases if "spec" in c]
    extra_n = 0
    if not ok or corr_broken:
        extra_n = 4000
    else:
        extra_n = 1500 * mult
    for k in range(extra_n):
        n = rng.choice([1, 1, 2, 3, 5, 8, 20, 60])
        ws = rng.random() < 0.4
        spec, ext, off = gen_spec(rng, n, "any" if ws else "cap")
        params, bad = gen_params(rng, allow_bad=False)
        c = {"spec": spec, "ws": ws, "params": params, "bad": bad, "hdr": rng.choice(["none", "top", "mixed"]), "ext": ext, "off": off, "twice": False, "deco": gen_deco(rng)}
        if n >= 2 and k % 8 == 5:
            c["parts"], c["ext"], c["off"] = two_parts(rng, n, "any" if ws else "cap")
            c["spec"], c["hdr"] = c["parts"][0] + c["parts"][1], "sections"
        materialise(c)
        c["impl"] = run_impl(c["lines"], c["params"])
        search_cases.append(c)

    for c in search_cases:
        if c.get("mal"):
            ctx.count("malformed:" + c.get("malkind", "?"))
            ctx.evaluated(("mal", c.get("malkind")), False)
            continue
        if not c["ws"] and over_capacity(c["spec"]):
            ctx.count("fixed-layout-beyond-columns:not-judged(C08)")
            continue
        rb = c.get("rb") or read_back(c["lines"], c["ws"])
        if rb is None:
            ctx.count("unreadable-by-columns")
            continue
        atoms, glued = rb
        impl = c["impl"]
        if c.get("twice"):
            impl = run_impl(c["lines"], c["params"])
        has_hdr = c["hdr"] != "none"
        layout = "ws" if c["ws"] else "fixed"
        ctx.count(f"layout={layout}")
        deco = c.get("deco") or {}
        if deco.get("icode") in ("some", "all"):
            ctx.count(f"insertion-codes:{layout}")
        if deco.get("chain"):
            ctx.count("chain-ids-written")
        if deco.get("resbase") in (995, 9990, -105):
            ctx.count("four-character-residue-numbers")
        ctx.count(f"headers={c['hdr']}")
        ctx.count("natoms<=" + str(next(b for b in (1, 10, 100, 1000, 10**9) if len(atoms) <= b)))
        if c.get("bad"):
            ctx.count("param-out-of-domain:" + c["bad"])
        if any(glued):
            ctx.count("glued-fields")
        key = (layout, len(atoms) if len(atoms) < 4 else int(math.log2(len(atoms))) + 10, tuple(int(math.log10(e + 1e-3)) for e in c["ext"]), tuple(int(o) for o in c["off"]), c["hdr"], tuple(c["params"][k] for k in PKEYS))
        ctx.evaluated(key, impl["status"] == "OK" and len(atoms) > 0)
        for sig, what in oracle(impl, atoms, glued, c["params"], c["lines"], has_hdr, c["ws"]):
            ctx.fail(sig, what, {"lines": c["lines"][:400], "params": c["params"], "whitespace": c["ws"], "kind": "sizing"})
        # header insertion pair (metamorphic): result must not depend on non-coordinate lines
        if has_hdr:
            bare = run_impl([l for l in c["lines"] if is_coord(l)], c["params"])
            if bare != impl:
                ctx.fail(dict(SIG_HEADER), f"header/comment lines change the result: with={summ(impl)} without={summ(bare)}", {"lines": c["lines"][:400], "params": c["params"], "whitespace": c["ws"], "kind": "header-pair"})
            # ... on the file route as well: run_psize(file) / parse_string(text) = parse_lines(lines)
            route_check(ctx, c["lines"], c["params"], atoms, c["ws"], "Psize.run_psize")

    # corpus / repo header file through the search as well
    for c in S_cases + [b for b in B_cases if str(b.get("tag", "")).startswith(("corpus", "repo"))]:
        impl = run_impl(c["lines"], c["params"])
        bare = run_impl([l for l in c["lines"] if is_coord(l)], c["params"])
        ctx.evaluated(("corpus", c.get("tag")), impl["status"] == "OK")
        ctx.count("corpus-case")
        if bare != impl:
            ctx.fail(dict(SIG_HEADER), f"header/comment lines change the result: with={summ(impl)} without={summ(bare)}", {"lines": c["lines"][:60], "params": c["params"], "whitespace": True, "kind": "header-pair"})
        if c.get("oracle_atoms") == "split":
            atoms = []
            for l in c["lines"]:
                if is_coord(l):
                    w = l.split()[-5:]
                    atoms.append((l.startswith("HETATM"), *[Decimal(x) for x in w]))
            for sig, what in oracle(impl, atoms, [False] * len(atoms), c["params"], c["lines"], True):
                ctx.fail(sig, what, {"lines": c["lines"][:60], "params": c["params"], "whitespace": True, "kind": "sizing"})
        elif c.get("sizing"):
            # regression inputs of repaired findings: the full sizing oracle, atoms read by column
            rb = read_back(c["lines"], c["ws"])
            if rb is None:
                ctx.broke("generator-broken", f"corpus case {c.get('tag')} is not readable by columns", "")
                continue
            for sig, what in oracle(impl, rb[0], rb[1], c["params"], c["lines"], any(not is_coord(l) for l in c["lines"]), c["ws"]):
                ctx.fail(sig, what, {"lines": c["lines"][:60], "params": c["params"], "whitespace": c["ws"], "kind": "sizing"})

    # dump_apbs / inputgen oracle + end-to-end runs
    for c in dump_cases:
        ctx.evaluated(("dump", c["pqrpath"].split("/")[-1], len(c["lines"])), c["text"] is not None)
        for sig, what in dump_oracle(c):
            ctx.fail(sig, what, {"kind": "dump_apbs", "pqrpath_rel": c["rel"], "lines": c["lines"], "inrel": c["inrel"]})
        if any(not is_coord(l) for l in c["lines"]):
            rbc = read_back(c["lines"], c["ws"])
            route_check(ctx, c["lines"], dict(DEFAULTS), rbc[0] if rbc else [], c["ws"], "io.dump_apbs (parse_input + run_psize)", twice=True)
    end_to_end(ctx)

    # ---------------- stream "entry": console entry points in fresh processes ----
    termsE, keepE = entry_stream(ctx, 14 * (5 if ctx.thorough else 1))
    if entry_correspondence(ctx, termsE, keepE):
        corr_broken = True

    # ---------------- stream "history": several sizing objects, interleaved ----
    history_stream(ctx, 60 * mult)

    # ---------------- samples etc. ----------------------------------------
    for c in (A_cases[8:9] + B_cases[-1:]):
        ctx.sample({"lines_head": c["lines"][:6], "params": c["params"], "impl": {k: c["impl"].get(k) for k in ("status", "ngrid", "nsmall", "nproc", "nfocus", "center", "fine", "coarse", "report")}, "model": c.get("model", "")[:300]})
    ctx.sample({"obligation": "C17_spheres_in_boxes: forall evs st sz, cfac>=1 -> fadd>=0 -> run_events = Ok st -> set_all = Ok sz -> every EvAtom sphere (r>=0) is inside centre +- fine/2 and centre +- coarse/2"})
    ctx.trusted += [
        "oracles: float() (python-filled word table in the text stream), '%.4f' (exact half-even rendering of the rational in the executable instance), math.log (modelled exactly via powers for 0<redfac<1, x<=1)",
        "float rounding is not verified: theorems are about exact rationals; measured here: rational outputs agree <= 1e-9 relative, integer outputs identical except cases within 1e-9 of an int() rounding boundary (counted: rounding_boundary_excluded)",
        "modelled, not verified: psize.Psize.parse_lines/set_*/__str__ memory lines, inputgen.Input/Elec.__str__ for method mg-auto potdx=True, pathlib name (hand model Model/Psize.v tied by differential runs)",
        "APBS reads `cgcent/fgcent mol 1` as the centre psize computed (not part of /repo)",
    ]
    ctx.assumptions += [
        "PQR lines are ASCII; coordinate records are those pdb2pqr writes (Atom.get_pqr_string, print_pqr with/without --whitespace)",
        "sizing parameters in the stated domain for containment: cfac >= 1, fadd >= 0; space > 0",
    ]


def summ(impl):
    if impl["status"] != "OK":
        return impl["status"]
    return {k: impl[k] for k in ("gotatom", "gothet", "ngrid", "center")}


def fmt4_tie_only(impl_text, model_text, lines):
    """True iff the two .in texts differ only in cglen/fglen numbers by one unit of the 4th
    decimal, and each such number of the implementation sits (within 1e-9) on a x.xxxx5 tie."""
    A, B = impl_text.split("\n"), model_text.split("\n")
    if len(A) != len(B):
        return False
    size = run_impl(lines, dict(DEFAULTS), True)
    if size["status"] != "OK":
        return False
    vals = {"cglen": size["coarse"], "fglen": size["fine"]}
    for la, lb in zip(A, B):
        if la == lb:
            continue
        wa, wb = la.split(), lb.split()
        if len(wa) != 4 or len(wb) != 4 or wa[0] != wb[0] or wa[0] not in vals:
            return False
        for i in range(3):
            if wa[1 + i] == wb[1 + i]:
                continue
            v = vals[wa[0]][i] * 1e4
            if abs(float(wa[1 + i]) - float(wb[1 + i])) > 1.0001e-4 or abs(v - math.floor(v) - 0.5) > 1e-5:
                return False
    return True


def first_diff(a, b):
    for i, (x, y) in enumerate(zip(a, b)):
        if x != y:
            return f"first difference at char {i}: impl={a[max(0,i-40):i+40]!r} model={b[max(0,i-40):i+40]!r}"
    return f"length impl={len(a)} model={len(b)}: impl tail={a[-60:]!r} model tail={b[-60:]!r}"


# --------------------------------------------------------------------------
# io.dump_apbs on generated files


REL_PATHS = [
    ("out.pqr", "out.in"),
    ("d1/sub.dir/m.0.1.pqr", "d1/sub.dir/m.0.1.in"),
    ("d2/x.y.z/../x.y.z/name.with.dots.pqr", "d2/other/apbs.in"),
    ("d3/./a-b_c.pqr", "d3/a-b_c.in"),
    ("d4/noext", "d4/noext.in"),
    ("d5/.hidden.pqr", "d5/in.put.in"),
]


def dump_apbs_stream(ctx, n):
    from pdb2pqr import io as pio

    rng = ctx.rng
    root = ctx.scratch_dir() / "dump"
    out = []
    for k in range(n):
        rel, inrel = REL_PATHS[k % len(REL_PATHS)]
        pqr = str(root / f"c{k}") + "/" + rel
        inp = root / f"c{k}" / inrel
        # make sure every directory named in the (un-normalised) path exists
        cur = Path("/")
        for comp in pqr.split("/")[1:-1]:
            if comp in (".", ""):
                continue
            if comp == "..":
                cur = cur.parent
                continue
            cur = cur / comp
            cur.mkdir(exist_ok=True)
        inp.parent.mkdir(parents=True, exist_ok=True)
        nat = rng.choice([1, 2, 3, 5, 8, 12])
        ws = rng.random() < 0.5
        spec, ext, off = gen_spec(rng, nat, "any" if ws else "cap")
        lines = write_pqr(ctx, spec, ws, path=pqr, deco=gen_deco(rng))
        if k % 3 == 1 and nat >= 2:
            parts, _, _ = two_parts(rng, nat, "any" if ws else "cap")
            deco = gen_deco(rng)
            lines = sectioned(rng, [write_pqr(ctx, sp, ws, deco=deco) for sp in parts])
            with open(pqr, "w", encoding="utf-8") as fh:
                fh.writelines(lines)
        elif rng.random() < 0.5:
            lines = insert_headers(rng, lines, "mixed")
            with open(pqr, "w", encoding="utf-8") as fh:
                fh.writelines(lines)
        try:
            pio.dump_apbs(pqr, str(inp))
            text = inp.read_text()
        except Exception as e:  # noqa
            text = None
            err = f"{type(e).__name__}: {e}"
        c = {"pqrpath": pqr, "rel": rel, "inrel": inrel, "lines": lines, "text": text, "ws": ws}
        if text is None:
            c["err"] = err
        out.append(c)
    return out


def dump_oracle(c):
    """Independent checks of the written .in file."""
    out = []
    if c["text"] is None:
        rb = read_back(c["lines"], c["ws"])
        if c["ws"] and run_impl(c["lines"], dict(DEFAULTS), True)["status"] != "OK" and run_impl(blank_icodes(c["lines"], c["ws"]), dict(DEFAULTS), True)["status"] == "OK":
            sig = dict(SIG_ICODE)
        elif rb and any(rb[1]):
            sig = dict(SIG_GLUED)
        elif run_impl(c["lines"], dict(DEFAULTS), True)["status"] != "OK" and run_impl([l for l in c["lines"] if is_coord(l)], dict(DEFAULTS), True)["status"] == "OK":
            sig = dict(SIG_HEADER)
        else:
            sig = {"site": "io.dump_apbs", "condition": "raises-" + c["err"].split(":")[0]}
        out.append((sig, f"dump_apbs raised {c['err']}"))
        return out
    L = c["text"].split("\n")
    want = os.path.basename(os.path.normpath(c["pqrpath"]))
    mol = [l for l in L if l.strip().startswith("mol pqr")]
    if len(mol) != 1 or mol[0] != f"    mol pqr {want}":
        out.append(({"site": "inputgen.Input.__str__", "condition": "mol-pqr-name"}, f"input file names {mol!r}, PQR written is {want!r}"))
    # grid lines against an independent Psize-free computation
    rb = read_back(c["lines"], c["ws"])
    if rb and rb[0]:
        atoms, glued = rb
        lo = [min(float(a[1 + i] - a[5]) for a in atoms) for i in range(3)]
        hi = [max(float(a[1 + i] + a[5]) for a in atoms) for i in range(3)]
        try:
            dime = [int(x) for x in next(l for l in L if l.strip().startswith("dime")).split()[1:]]
            cg = [float(x) for x in next(l for l in L if l.strip().startswith("cglen")).split()[1:]]
            fg = [float(x) for x in next(l for l in L if l.strip().startswith("fglen")).split()[1:]]
            cent = [l.strip() for l in L if l.strip().startswith(("cgcent", "fgcent"))]
        except (StopIteration, ValueError):
            out.append(({"site": "inputgen.Elec.__str__", "condition": "grid-lines-missing"}, "no dime/cglen/fglen in the input file"))
            return out
        sig = dict(SIG_GLUED) if any(glued) else {"site": "inputgen.Elec.__str__", "condition": "grid-lines"}
        if route_difference(c["lines"], dict(DEFAULTS), True) is not None:
            sig = dict(SIG_FILE)
        if c["ws"] and summ(run_impl(c["lines"], dict(DEFAULTS), True)) != summ(run_impl(blank_icodes(c["lines"], c["ws"]), dict(DEFAULTS), True)):
            sig = dict(SIG_ICODE)
        if cent != ["cgcent mol 1", "fgcent mol 1"]:
            out.append((sig, f"boxes not centred on the molecule: {cent}"))
        for i in range(3):
            need = hi[i] - lo[i]
            if cg[i] + 1e-4 < need or fg[i] + 1e-4 < need or fg[i] > cg[i] + 1e-9:
                out.append((sig, f"axis {i}: molecule spans {need:.4f} but cglen={cg[i]} fglen={fg[i]}"))
                break
            if not (dime[i] >= 33 and (dime[i] - 1) % 32 == 0):
                out.append((sig, f"dime[{i}]={dime[i]}"))
                break
    return out


def end_to_end(ctx):
    """pdb2pqr main_driver with --apbs-input on a small PDB; the .in must name
    the PQR just written and its boxes must hold every atom of that PQR."""
    from pdb2pqr.main import build_main_parser, main_driver

    src = core.REPO / "tests" / "data" / "1AJJ.pdb"
    if not src.exists():
        ctx.notes.append("end-to-end skipped: tests/data/1AJJ.pdb missing")
        return
    root = ctx.scratch_dir() / "e2e"
    root.mkdir(parents=True, exist_ok=True)
    # the same structure moved by +985 A along y: part of its y coordinates fill their eight
    # columns in the fixed layout (end-to-end regression of C17-F11)
    shifted = root / "1AJJ_y985.pdb"
    out = []
    for l in src.read_text().splitlines(keepends=True):
        if l.startswith(("ATOM", "HETATM")):
            l = l[:38] + f"{float(l[38:46]) + 985.0:8.3f}" + l[46:]
        out.append(l)
    shifted.write_text("".join(out))
    runs = [
        (["--ff=AMBER"], "o1/res.ult.pqr", "o1/res.ult.in", False, src),
        (["--ff=PARSE", "--whitespace"], "o2/deep.er/dir/x.pqr", "o2/deep.er/dir/x.in", True, src),
        (["--ff=AMBER"], "o4/far.pqr", "o4/far.in", False, shifted),
    ]
    if ctx.thorough:
        runs.append((["--ff=CHARMM", "--keep-chain"], "o3/k.pqr", "o3/k.in", False, src))
    cwd = os.getcwd()
    for opts, prel, irel, ws, pdb in runs:
        pqr, inp = root / prel, root / irel
        pqr.parent.mkdir(parents=True, exist_ok=True)
        case = {"kind": "e2e", "opts": opts, "pqr_rel": prel, "in_rel": irel}
        try:
            os.chdir(root)
            args = build_main_parser().parse_args(opts + ["--apbs-input", str(inp), str(pdb), str(pqr)])
            main_driver(args)
        except BaseException as e:  # noqa
            ctx.evaluated(("e2e", prel), False)
            ctx.fail({"site": "main.main_driver", "condition": "apbs-input-raises-" + type(e).__name__}, f"--apbs-input run raised {type(e).__name__}: {e}", case)
            continue
        finally:
            os.chdir(cwd)
        ctx.evaluated(("e2e", prel), True)
        ctx.count("end-to-end-run")
        text = inp.read_text() if inp.exists() else None
        lines = pqr.read_text().splitlines(keepends=True) if pqr.exists() else []
        c = {"pqrpath": str(pqr), "rel": prel, "inrel": irel, "lines": lines, "text": text, "ws": ws, "err": "no .in file written"}
        for sig, what in dump_oracle(c):
            ctx.fail(sig, "end-to-end: " + what, case)


# --------------------------------------------------------------------------
# stream "entry": the console entry points, each run in a fresh process
#
#   psize    pdb2pqr.psize.main() when the module has one; upstream removed the psize command
#            line (#181) and left build_parser(): then the driver is the obvious one,
#            Psize(**parsed options).run_psize(mol_path); print(psize)
#   inputgen pdb2pqr.inputgen.main()  (console script `inputgen`)
#
# Reference = the sizing library evaluated in-process with the parameters THE COMMAND LINE
# STATES (which stream A/B tie to the Coq model, and which is compared with the model here
# as well); what the entry point prints / writes must be that, and must pass the property's
# own oracle (atoms read back by column).

import subprocess
import sys as _sys
from concurrent.futures import ThreadPoolExecutor

OPT_TYPES = {"cfac": float, "fadd": float, "space": float, "gmemfac": int, "gmemceil": int, "ofrac": float, "redfac": float}

PSIZE_DRIVER = (
    "import sys, json\n"
    "sys.argv = ['psize'] + json.loads(sys.argv[1])\n"
    "import pdb2pqr.psize as m\n"
    "if hasattr(m, 'main'):\n"
    "    m.main()\n"
    "else:\n"
    "    kw = vars(m.build_parser().parse_args())\n"
    "    path = kw.pop('mol_path')\n"
    "    p = m.Psize(**kw)\n"
    "    p.run_psize(path)\n"
    "    print(p)\n"
)
INPUTGEN_DRIVER = (
    "import sys, json\n"
    "sys.argv = ['inputgen'] + json.loads(sys.argv[1])\n"
    "import pdb2pqr.inputgen as m\n"
    "m.main()\n"
)


def run_entry(driver, argv, cwd):
    env = dict(os.environ, PYTHONPATH=str(core.REPO), PYTHONHASHSEED="0")
    try:
        r = subprocess.run([_sys.executable, "-c", driver, json.dumps(argv)], cwd=str(cwd), env=env, capture_output=True, text=True, timeout=180)
    except subprocess.TimeoutExpired:
        return {"rc": -9, "out": "", "err": "timeout"}
    return {"rc": r.returncode, "out": r.stdout, "err": r.stderr}


def gen_cli(rng, k):
    """A point of the option lattice: option omitted (= parser default) / boundary / random legal
    value.  Values of different options never coincide, so that a swap is visible."""
    choices = {
        "cfac": [1.0, 1.7, 3.0, 2.5, round(rng.uniform(1.05, 4), 3)],
        "fadd": [0.0, 20.0, 40.0, 7.25, round(rng.uniform(5, 50), 2)],
        "space": [0.2, 0.5, 1.0, 2.0, 0.75, round(rng.uniform(0.3, 2), 3)],
        "gmemfac": [200, 100, 400],
        "gmemceil": [400, 1, 10, 50, 100, 1000, rng.randint(2, 500)],
        "ofrac": [0.1, 0.0, 0.2, 0.5, round(rng.uniform(0.01, 0.45), 3)],
        "redfac": [0.25, 0.1, 0.5, 0.75, round(rng.uniform(0.05, 0.9), 3)],
    }
    mode = ("defaults", "all", "some", "one")[k % 4]
    given = {}
    for o in PKEYS:
        take = {"defaults": False, "all": True, "some": rng.random() < 0.5, "one": False}[mode]
        if take:
            given[o] = rng.choice(choices[o])
    if mode == "one":
        o = PKEYS[(k // 4) % len(PKEYS)]
        given[o] = rng.choice(choices[o][1:])
    return given


def cli_argv(given):
    argv = []
    for o, v in given.items():
        argv += ["--" + o, repr(v)]
    return argv


def cli_params(given):
    return dict(DEFAULTS, **{o: OPT_TYPES[o](v) for o, v in given.items()})


_NUM = r"(-?[\d.]+(?:e[-+]?\d+)?|nan|inf)"


def parse_printed(text):
    """The report of Psize.__str__ parsed back (numbers as printed)."""
    if "No ATOM entries in file" in text:
        return {"noatom": True}
    out = {}

    def three(label, unit=r" Å"):
        m = re.search(label + r" = " + _NUM + unit + " x " + _NUM + unit + " x " + _NUM, text)
        return [float(x) for x in m.groups()] if m else None

    def one(label, conv=float):
        m = re.search(label + r" = " + _NUM, text)
        return conv(m.group(1)) if m else None

    out["natom"] = one(r"Number of ATOM entries", int)
    out["nhet"] = one(r"Number of HETATM entries \(ignored\)", int)
    out["charge"] = one(r"Total charge")
    for key, label in (("mol", "Dimensions"), ("center", "Center"), ("lower", "Lower corner"), ("upper", "Upper corner"), ("coarse", "Course grid dims"), ("fine", "Fine grid dims"), ("ngrid", r"Num\. fine grid pts\.")):
        out[key] = three(label)
    out["parallel"] = "Parallel solve required" in text
    out["nproc"] = three(r"Proc\. grid", "")
    out["nsmall"] = three(r"Grid pts\. on each proc\.", "")
    m = re.search(r"Estimated mem\. required for (sequential|parallel) solve = " + _NUM, text)
    out["kind"], out["mem"] = (m.group(1), float(m.group(2))) if m else (None, None)
    out["nfocus"] = one(r"Number of focusing operations", int)
    out["memproc"] = one(r"Memory per processor")
    if any(out[k] is None for k in ("natom", "mol", "center", "coarse", "fine", "ngrid", "mem", "nfocus", "memproc")):
        return {"unparsed": True}
    return out


def direct_text(lines, params):
    """str(Psize) of the library, in-process, for the given parameters."""
    from pdb2pqr.psize import Psize

    p = Psize(**params)
    try:
        p.parse_lines(lines)
        p.set_all()
        return str(p)
    except Exception as e:  # noqa
        return f"ERR:{type(e).__name__}"


def printed_oracle(rep, atoms, params):
    """The property itself on the printed report (3 decimals printed: tolerances accordingly)."""
    out = []
    if rep.get("noatom") or not atoms:
        return out
    lo = [min(float(a[1 + i] - a[5]) for a in atoms) for i in range(3)]
    hi = [max(float(a[1 + i] + a[5]) for a in atoms) for i in range(3)]
    for i in range(3):
        if abs(rep["center"][i] - (lo[i] + hi[i]) / 2) > 1.1e-3:
            out.append(("not-centred", f"printed centre[{i}]={rep['center'][i]} but the atom spheres span [{lo[i]}, {hi[i]}]"))
            break
    for name in ("fine", "coarse"):
        bad = [i for i in range(3) if rep["center"][i] - rep[name][i] / 2 > lo[i] + 2.1e-3 or rep["center"][i] + rep[name][i] / 2 < hi[i] - 2.1e-3]
        if bad and params["cfac"] >= 1 and params["fadd"] >= 0:
            out.append((f"{name}-box-misses-atom", f"printed {name} box (centre {rep['center']}, lengths {rep[name]}) does not hold the spheres [{lo}, {hi}]"))
    if any(rep["fine"][i] > rep["coarse"][i] + 1.1e-3 for i in range(3)):
        out.append(("fine-exceeds-coarse", f"printed fine {rep['fine']} > coarse {rep['coarse']}"))
    ng = rep["ngrid"]
    if any(n != int(n) or n < 33 or (int(n) - 1) % 32 for n in ng):
        out.append(("grid-form", f"printed grid {ng} is not 32k+1 >= 33"))
    gmem = 200.0 * ng[0] * ng[1] * ng[2] / 1024 / 1024
    grid = rep["nsmall"] if rep["parallel"] and rep["nsmall"] else ng
    want = 200.0 * grid[0] * grid[1] * grid[2] / 1024 / 1024
    if abs(rep["mem"] - want) > 5.1e-4 or abs(rep["memproc"] - want) > 5.1e-4 or rep["parallel"] != (gmem > params["gmemceil"]) or (rep["kind"] == "parallel") != rep["parallel"]:
        out.append(("memory-figure", f"printed {rep['kind']} {rep['mem']} / {rep['memproc']} MB but 200*{grid}/2^20 = {want:.3f} (grid {gmem:.3f} MB, ceiling {params['gmemceil']})"))
    return out


def blame_option(given, matches):
    """Which option explains a report that is not the one for the command line: `matches(params)`
    says whether the entry point's output is what the library gives for `params`."""
    base = cli_params(given)
    for o in given:
        if matches(dict(base, **{o: DEFAULTS[o]})):
            return "option-ignored", "--" + o
    if given and matches(dict(DEFAULTS)):
        return "options-ignored", ",".join("--" + o for o in sorted(given))
    for a in PKEYS:
        for b in PKEYS:
            if a < b and base[a] != base[b] and matches(dict(base, **{a: base[b], b: base[a]})):
                return "options-swapped", f"--{a}/--{b}"
    for o in given:
        if int(base[o]) != base[o] and matches(dict(base, **{o: int(base[o])})):
            return "option-truncated", "--" + o
    return "not-the-grid-for-the-command-line", ",".join("--" + o for o in sorted(given)) or "(defaults)"


def parse_in(text):
    """ELEC blocks of an APBS input file: list of dicts."""
    blocks, cur = [], None
    head = {"mol_pqr": None}
    for l in text.split("\n"):
        w = l.split()
        if not w:
            continue
        if w[0] == "mol" and len(w) == 3 and w[1] == "pqr" and cur is None:
            head["mol_pqr"] = w[2]
        if w[0] == "elec":
            cur = {"method": None}
            blocks.append(cur)
            first = True
            continue
        if cur is None:
            continue
        if first:  # the line after `elec` names the method
            cur["method"], first = w[0], False
        elif w[0] == "end":
            cur = None
        elif w[0] in ("dime", "pdime"):
            cur[w[0]] = [int(x) for x in w[1:]]
        elif w[0] in ("cglen", "fglen", "glen"):
            cur[w[0]] = w[1:]
        elif w[0] in ("cgcent", "fgcent", "gcent"):
            cur[w[0]] = " ".join(w[1:])
        elif w[0] in ("ofrac", "async"):
            cur[w[0]] = w[1]
    return head, blocks


def expected_in(size, given, method_opt, params):
    """What the ELEC section must carry for the library's sizing `size` (run_impl dict)."""
    ng = size["ngrid"]
    gmem = 200.0 * ng[0] * ng[1] * ng[2] / 1024 / 1024
    method = {"auto": "mg-auto", "para": "mg-para", "manual": "mg-manual", "async": "mg-para"}.get(method_opt) or ("mg-para" if gmem > params["gmemceil"] else "mg-auto")
    exp = {"method": method, "dime": [int(x) for x in (size["nsmall"] if method == "mg-para" else ng)]}
    if method == "mg-manual":
        exp["glen"] = [f"{v:.3f}" for v in size["coarse"]]
        exp["gcent"] = "mol 1"
    else:
        exp["cglen"] = [f"{v:.4f}" for v in size["coarse"]]
        exp["fglen"] = [f"{v:.4f}" for v in size["fine"]]
        exp["cgcent"] = exp["fgcent"] = "mol 1"
    if method == "mg-para":
        exp["pdime"] = [int(x) for x in size["nproc"]]
        exp["ofrac"] = f"{params['ofrac']:.1f}"
    return exp


def in_matches(blocks, exp):
    return bool(blocks) and all(all(b.get(k) == v for k, v in exp.items()) for b in blocks)


def entry_files(rng, ctx, n):
    """Generated PQR files for the entry points: small, both layouts, headers, HETATM-only."""
    root = ctx.scratch_dir() / "entry"
    files = []
    for k in range(n):
        d = root / f"e{k}"
        sub = ["", "d.ir", "a/b.c"][k % 3]
        (d / sub).mkdir(parents=True, exist_ok=True)
        ws = rng.random() < 0.5
        spec, ext, off = gen_spec(rng, rng.choice([1, 2, 3, 5, 9, 20]), rng.choice(["safe", "safe", "cap"]))
        kind = "hetatm-only" if k % 7 == 5 else "sections" if k % 4 == 2 and len(spec) >= 2 else "mixed"
        if kind == "hetatm-only":
            spec = [(True, *a[1:]) for a in spec]
        rel = (sub + "/" if sub else "") + ["m.pqr", "na.me.pqr", "noext"][(k // 3) % 3]
        lines = write_pqr(ctx, spec, ws, path=str(d / rel), deco=gen_deco(rng))
        if kind == "sections":
            parts, _, _ = two_parts(rng, len(spec), "safe")
            deco = gen_deco(rng)
            lines = sectioned(rng, [write_pqr(ctx, sp, ws, deco=deco) for sp in parts])
            (d / rel).write_text("".join(lines))
            spec = parts[0] + parts[1]
        elif k % 2:
            lines = insert_headers(rng, lines, "mixed")
            (d / rel).write_text("".join(lines))
        files.append({"dir": d, "rel": rel, "lines": lines, "ws": ws, "spec": spec, "kind": kind})
    return files


def judge_psize(f, given, res):
    """Failures [(signature, what)] of one psize command line."""
    params = cli_params(given)
    if res["rc"] != 0:
        last = (res["err"].strip().split("\n") or [""])[-1][:160]
        ref = direct_text(f["lines"], params)
        if ref.startswith("ERR:") and ref[4:] in res["err"]:
            return []  # the library itself raises for these parameters: not the entry point's doing
        opt = next(("--" + o for o in PKEYS if ("--" + o) in last or f"'{o}'" in last), "(any)")
        cond = "legal-value-rejected" if "error: argument" in last else "raises-" + (last.split(":")[0] or "exit")
        return [({"site": "psize.main", "condition": cond, "option": opt}, f"psize {' '.join(cli_argv(given))} exited {res['rc']}: {last}")]
    rep = parse_printed(res["out"] + res["err"])
    if rep.get("unparsed"):
        return [({"site": "psize.main", "condition": "no-report-printed", "option": "(any)"}, f"no size report in the output: {res['out'][:200]!r}")]
    fails = []
    want = parse_printed(direct_text(f["lines"], params))
    if rep != want:
        cond, opt = blame_option(given, lambda q: parse_printed(direct_text(f["lines"], q)) == rep)
        diff = [k for k in rep if rep.get(k) != want.get(k)]
        rd = route_difference(f["lines"], params)
        if rd is not None:
            return [(dict(SIG_FILE), f"psize {' '.join(cli_argv(given))} <file>: printed {({k: rep[k] for k in diff})}, the same text as lines gives {({k: want.get(k) for k in diff})} ({rd[:300]})")]
        fails.append(({"site": "psize.main", "condition": cond, "option": opt}, f"psize {' '.join(cli_argv(given))}: printed {({k: rep[k] for k in diff})}, the sizing for these options is {({k: want.get(k) for k in diff})}"))
    rb = read_back(f["lines"], f["ws"])
    if rb and not any(rb[1]):
        if not fails:
            fails += [({"site": "psize.main", "condition": cond, "option": "(report)"}, what) for cond, what in printed_oracle(rep, rb[0], params)]
    return fails


def judge_inputgen(f, given, extra, res, cwd):
    """extra: {'method': .., 'asynch': bool, 'potdx': bool, 'istrng': str|None}"""
    params = cli_params(given)
    argv_s = " ".join(cli_argv(given) + extra_argv(extra))
    if res["rc"] != 0:
        err_lines = res["err"].strip().split("\n")
        last = (err_lines or [""])[-1][:160]
        exc = last.split(":")[0] or "exit"
        blob = res["err"]
        opt = "--istrng" if "istrng" in blob else "--asynch+--potdx" if "asyncflag" in blob else ("--method" if ("getSmallest" in blob or "method" in last) else next(("--" + o for o in PKEYS if ("--" + o) in last), "(any)"))
        size = run_impl(f["lines"], params)
        if size["status"] != "OK" and size["status"].split(":")[1].split("-")[0] in blob:
            return []
        if "error: argument" in last:
            exc = "legal-value-rejected"
            opt = next(("--" + o for o in list(PKEYS) + ["method", "istrng"] if ("--" + o) in last), opt)
            return [({"site": "inputgen.main", "condition": exc, "option": opt}, f"inputgen {argv_s} exited {res['rc']}: {last}")]
        return [({"site": "inputgen.main", "condition": "raises-" + exc, "option": opt}, f"inputgen {argv_s} exited {res['rc']}: {last}")]
    size = run_impl(f["lines"], params)
    if size["status"] != "OK":
        return [({"site": "inputgen.main", "condition": "writes-although-sizing-raises", "option": "(any)"}, f"inputgen {argv_s} succeeded but the sizing raises {size['status']}")]
    stem = Path(f["rel"]).stem
    exp = expected_in(size, given, extra.get("method"), params)
    asyn = extra.get("asynch") or extra.get("method") == "async"
    if asyn:
        nproc = int(size["nproc"][0] * size["nproc"][1] * size["nproc"][2])
        paths = [(cwd / f"{stem}-para.in", None)] + [(cwd / f"{stem}-PE{i}.in", str(i)) for i in range(nproc)]
    else:
        paths = [((cwd / f["rel"]).parent / f"{stem}.in", None)]
    fails = []
    for path, asy in paths:
        if not path.exists():
            fails.append(({"site": "inputgen.main", "condition": "input-file-missing", "option": "--asynch" if asyn else "(any)"}, f"inputgen {argv_s}: {path.name} was not written"))
            break
        head, blocks = parse_in(path.read_text())
        want_name = Path(f["rel"]).name
        if head["mol_pqr"] != want_name:
            fails.append(({"site": "inputgen.main", "condition": "mol-pqr-name", "option": "filename"}, f"{path.name} names {head['mol_pqr']!r}, the PQR is {want_name!r}"))
        nb = 1 if extra.get("potdx") else 2
        if len(blocks) != nb:
            fails.append(({"site": "inputgen.main", "condition": "elec-count", "option": "--potdx"}, f"{path.name} has {len(blocks)} ELEC sections, expected {nb}"))
        e = dict(exp)
        if asy is not None and e["method"] == "mg-para":
            e["async"] = asy
        if not in_matches(blocks, e):
            got = [{k: b.get(k) for k in e} for b in blocks][:1]

            def matches(q, _e=e, _blocks=blocks):
                sz = run_impl(f["lines"], q)
                if sz["status"] != "OK":
                    return False
                e2 = expected_in(sz, given, extra.get("method"), q)
                if "async" in _e:
                    e2["async"] = _e["async"]
                return in_matches(_blocks, e2)

            rd = route_difference(f["lines"], params)
            if rd is not None:
                return [(dict(SIG_FILE), f"inputgen {argv_s}: {path.name} has {got}, the same text as lines gives {e} ({rd[:300]})")]
            if blocks and blocks[0].get("method") != e["method"]:
                cond, opt = "elec-method", "--method"
            else:
                cond, opt = blame_option(given, matches)
            fails.append(({"site": "inputgen.main", "condition": cond, "option": opt}, f"inputgen {argv_s}: {path.name} has {got}, the sizing for these options gives {e}"))
            break
    # the property itself on the (first) file: boxes hold the molecule, dime legal
    rb = read_back(f["lines"], f["ws"])
    if not fails and rb and rb[0] and not any(rb[1]) and paths[0][0].exists() and params["cfac"] >= 1 and params["fadd"] >= 0:
        atoms = rb[0]
        need = [max(float(a[1 + i] + a[5]) for a in atoms) - min(float(a[1 + i] - a[5]) for a in atoms) for i in range(3)]
        _, blocks = parse_in(paths[0][0].read_text())
        for b in blocks:
            kmin = 0 if b["method"] == "mg-para" else 1  # per-processor grid of a parallel run: 32k+1, k >= 0
            if any((d - 1) % 32 or d < 32 * kmin + 1 for d in b.get("dime", [0])):
                fails.append(({"site": "inputgen.main", "condition": "grid-form", "option": "(file)"}, f"dime {b.get('dime')} in a {b['method']} section"))
                break
            lens = [b[k] for k in ("cglen", "fglen", "glen") if k in b]
            if any(float(L[i]) + 1e-3 < need[i] for L in lens for i in range(3)) or ("fglen" in b and any(float(b["fglen"][i]) > float(b["cglen"][i]) + 1e-9 for i in range(3))):
                fails.append(({"site": "inputgen.main", "condition": "box-misses-molecule", "option": "(file)"}, f"molecule spans {need} but the section has {lens}"))
                break
            if [b.get(k) for k in ("cgcent", "fgcent", "gcent") if k in b] not in (["mol 1", "mol 1"], ["mol 1"]):
                fails.append(({"site": "inputgen.main", "condition": "not-centred", "option": "(file)"}, f"centres {[b.get(k) for k in ('cgcent', 'fgcent', 'gcent')]}"))
                break
    return fails


def extra_argv(extra):
    a = []
    if extra.get("method"):
        a += ["--method", extra["method"]]
    if extra.get("asynch"):
        a.append("--asynch")
    if extra.get("potdx"):
        a.append("--potdx")
    if extra.get("istrng") is not None:
        a += ["--istrng", extra["istrng"]]
    return a


def judge_split(para_text, stem, nproc, res, cwd):
    if res["rc"] != 0:
        last = (res["err"].strip().split("\n") or [""])[-1][:160]
        return [({"site": "inputgen.main", "condition": "raises-" + (last.split(":")[0] or "exit"), "option": "--split"}, f"inputgen --split exited {res['rc']}: {last}")]
    fails = []
    for i in range(nproc):
        p = cwd / f"{stem}-PE{i}.in"
        want = para_text.replace("mg-para\n", f"mg-para\n    async {i}\n")
        if not p.exists() or p.read_text() != want:
            fails.append(({"site": "inputgen.main", "condition": "split-file-differs", "option": "--split"}, f"{p.name}: " + ("missing" if not p.exists() else first_diff(p.read_text(), want))))
            break
    return fails


def entry_stream(ctx, n):
    """Returns the number of command lines run."""
    rng = ctx.rng
    files = entry_files(rng, ctx, n)
    jobs = []
    methods = [None, "auto", "para", "manual", "async"]
    for k, f in enumerate(files):
        given = gen_cli(rng, k)
        jobs.append({"tool": "psize", "f": f, "given": given, "argv": cli_argv(given) + [f["rel"]], "driver": PSIZE_DRIVER})
        given2 = gen_cli(rng, k + 1)
        if k % 5 in (2, 4) and "gmemceil" not in given2:
            given2["gmemceil"] = rng.choice([1, 2, 5])  # parallel runs that really are parallel
        extra = {"method": methods[k % 5], "asynch": k % 4 == 3, "potdx": k % 3 == 1, "istrng": [None, "0.15", "0"][k % 3]}
        jobs.append({"tool": "inputgen", "f": f, "given": given2, "extra": extra, "argv": cli_argv(given2) + extra_argv(extra) + [f["rel"]], "driver": INPUTGEN_DRIVER})
    with ThreadPoolExecutor(max_workers=6) as ex:
        results = list(ex.map(lambda j: run_entry(j["driver"], j["argv"], j["f"]["dir"]), jobs))
    terms, keep = [], []
    for j, res in zip(jobs, results):
        f = j["f"]
        params = cli_params(j["given"])
        case = {"kind": "entry", "tool": j["tool"], "argv": j["argv"], "lines": f["lines"], "rel": f["rel"], "whitespace": f["ws"], "given": j["given"], "extra": j.get("extra")}
        if j["tool"] == "psize":
            fails = judge_psize(f, j["given"], res)
        else:
            fails = judge_inputgen(f, j["given"], j["extra"], res, f["dir"])
        ctx.count(f"entry:{j['tool']}")
        ctx.count("entry-options=" + (str(len(j["given"])) if len(j["given"]) < 3 else "3+"))
        if j["tool"] == "inputgen":
            ctx.count("entry-method=" + str(j["extra"]["method"]))
        ctx.evaluated(("entry", j["tool"], tuple(j["argv"][:-1]), f["kind"], f["ws"]), res["rc"] == 0)
        for sig, what in fails:
            ctx.fail(sig, what, case)
        # the model, evaluated with the parameters the command line states
        if j["tool"] == "psize":
            tab = float_table(f["lines"])
            if tab is not None:
                terms.append(f"run_text {params_term(params)} false {tab} {lines_term(f['lines'])}")
                keep.append({"lines": f["lines"], "params": params, "ws": f["ws"], "impl": run_impl(f["lines"], params), "argv": j["argv"], "printed": parse_printed(res["out"] + res["err"]) if res["rc"] == 0 else None})
        # --split of a parallel input file written by the tool itself
        if j["tool"] == "inputgen" and res["rc"] == 0 and j["extra"]["method"] == "para" and not j["extra"]["asynch"]:
            stem = Path(f["rel"]).stem
            inp = (f["dir"] / f["rel"]).parent / f"{stem}.in"
            if inp.exists():
                text = inp.read_text()
                m = re.search(r"pdime (\d+) (\d+) (\d+)", text)
                nproc = int(m.group(1)) * int(m.group(2)) * int(m.group(3)) if m else 0
                if 0 < nproc <= 64:
                    r2 = run_entry(INPUTGEN_DRIVER, ["--split", str(inp)], f["dir"])
                    ctx.count("entry:inputgen--split")
                    ctx.evaluated(("entry", "split", nproc, f["rel"]), r2["rc"] == 0)
                    for sig, what in judge_split(text, stem, nproc, r2, f["dir"]):
                        ctx.fail(sig, what, dict(case, split=True))
    return terms, keep


def entry_correspondence(ctx, terms, keep):
    """Model (run_text at the command line's parameters) vs the library at those parameters
    (boundary-aware, as stream A/B) and vs the numbers the entry point printed."""
    broken = False
    try:
        res = core.run_cases(f"C17E{os.getpid()}", HEADER, terms, chunk=24)
    except core.CoqEvalError as e:
        ctx.broke("correspondence-broken", "entry stream: model evaluation failed", str(e))
        return True
    for c, mout in zip(keep, res):
        ctx.cov["correspondence_cases"] += 1
        diffs, boundary = compare(mout, c["impl"], c["params"])
        rep = c["printed"]
        if not diffs and rep and not rep.get("noatom") and not rep.get("unparsed") and mout.startswith("OK|"):
            f = mout.split("|")
            ng = [int(x) for x in f[10].split(",")]
            if ng != [int(x) for x in rep["ngrid"]] or int(f[13]) != rep["nfocus"]:
                diffs.append(f"printed ngrid/nfocus {rep['ngrid']}/{rep['nfocus']} model {f[10]}/{f[13]}")
            for name, idx in (("center", 9), ("coarse", 7), ("fine", 8), ("mol", 6)):
                for a, b in zip(frs(f[idx]), rep[name]):
                    if abs(float(a) - b) > 5.1e-4:
                        diffs.append(f"printed {name} {b} model {float(a)}")
        if diffs and boundary:
            ctx.count("rounding-boundary-excluded")
            continue
        if diffs:
            ctx.cov["correspondence_disagreements"] += 1
            broken = True
            if len([b for b in ctx.broken if b["kind"] == "correspondence-broken"]) < 4:
                ctx.broke("correspondence-broken", "Model.Psize.run_text at the command line's parameters vs psize entry point / library", "; ".join(diffs)[:1500], {"argv": c["argv"], "lines": c["lines"][:60], "params": c["params"]})
    return broken


def replay_entry(ctx, case):
    root = ctx.scratch_dir() / "replay_entry"
    p = root / case["rel"]
    p.parent.mkdir(parents=True, exist_ok=True)
    p.write_text("".join(case["lines"]))
    f = {"dir": root, "rel": case["rel"], "lines": case["lines"], "ws": case.get("whitespace", False)}
    if case["tool"] == "psize":
        res = run_entry(PSIZE_DRIVER, case["argv"], root)
        fails = judge_psize(f, case["given"], res)
    else:
        res = run_entry(INPUTGEN_DRIVER, case["argv"], root)
        fails = judge_inputgen(f, case["given"], case.get("extra") or {}, res, root)
        if not fails and case.get("split"):
            stem = Path(case["rel"]).stem
            inp = p.parent / f"{stem}.in"
            text = inp.read_text()
            m = re.search(r"pdime (\d+) (\d+) (\d+)", text)
            nproc = int(m.group(1)) * int(m.group(2)) * int(m.group(3))
            fails = judge_split(text, stem, nproc, run_entry(INPUTGEN_DRIVER, ["--split", str(inp)], root), root)
    print("replay:", case["tool"], " ".join(case["argv"]), "->", ("FAILS: " + "; ".join(w for _, w in fails)[:600]) if fails else "passes")
    ctx.cleanup()
    return 1 if fails else 0


# --------------------------------------------------------------------------
# stream "history": several sizing objects alive in one process, interleaved
#
# The sizing of a structure is a function of its own lines and parameters (the model has
# no other input).  So whatever is observed of object A - every attribute, str(A), the
# APBS input rendered from A, an Input built from A earlier - must be the same whether or
# not other objects were sized in between, and sizing one object with two files must not
# depend on a set_all() in between.

PSIZE_ATTRS = ["minlen", "maxlen", "cfac", "fadd", "space", "gmemfac", "gmemceil", "ofrac", "redfac", "charge", "gotatom", "gothet",
               "mol_length", "center", "coarse_length", "fine_length", "ngrid", "proc_grid", "nsmall", "nfocus"]
INPUT_KINDS = [("mg-auto", True), ("mg-para", False), ("", False), ("mg-manual", True)]


def h_size(lines, params, into=None):
    from pdb2pqr.psize import Psize

    p = into if into is not None else Psize(**params)
    p.parse_lines(lines)
    p.set_all()
    return p


def h_inputs(p, path):
    from pdb2pqr import inputgen

    return [inputgen.Input(path, p, m, 0, potdx=pd) for m, pd in INPUT_KINDS]


def h_observe(p, path, inputs=None):
    """Everything observable of a sized object (deep copies / texts)."""
    import copy

    obs = {"attr:" + k: copy.deepcopy(getattr(p, k, "<missing>")) for k in PSIZE_ATTRS}
    try:
        obs["str"] = str(p)
    except Exception as e:  # noqa
        obs["str"] = f"ERR:{type(e).__name__}"
    for (m, pd), inp in zip(INPUT_KINDS, inputs if inputs is not None else h_inputs(p, path)):
        try:
            obs[f"input:{m or 'ceiling'}:potdx={pd}"] = str(inp)
        except Exception as e:  # noqa
            obs[f"input:{m or 'ceiling'}:potdx={pd}"] = f"ERR:{type(e).__name__}"
    return obs


def h_diff(alone, seen):
    return [k for k in alone if alone[k] != seen.get(k)]


def run_history(structs, kind):
    """structs: [(lines, params), ...]; returns [(signature, what)].
    kind 'interleaved': all objects are sized one after the other, Inputs of the first are
    built right after it was sized; then every object is observed and compared with the same
    object sized and observed alone.  kind 'resized': one object is sized with file 0 and then
    with file 1; compared with a fresh object that parses both and calls set_all once.
    kind 'rendered-twice': str() of the object and of its Inputs twice."""
    fails = []
    path = "dir/mol.pqr"
    if kind == "interleaved":
        alone = []
        for lines, params in structs:
            alone.append(h_observe(h_size(lines, params), path))
        objs, early = [], None
        for n, (lines, params) in enumerate(structs):
            objs.append(h_size(lines, params))
            if n == 0:
                early = h_inputs(objs[0], path)
        for n, p in enumerate(objs):
            seen = h_observe(p, path)
            d = h_diff(alone[n], seen)
            if n == 0:
                seen_early = h_observe(p, path, early)
                d += ["early-" + k for k in h_diff(alone[0], seen_early) if k.startswith("input:") and k not in d]
            if d:
                site = "inputgen.Input" if all("input:" in k for k in d) else "psize.Psize"
                k0 = d[0].replace("early-", "")
                fails.append(({"site": site, "condition": "depends-on-other-objects"},
                              f"object {n} of {len(objs)} sized one after the other: {', '.join(d[:8])} differ from the same structure sized alone, e.g. {d[0]}: alone={str(alone[n][k0])[:160]!r} now={str(seen.get(k0))[:160]!r}"))
                break
    elif kind == "resized":
        (l0, p0), (l1, _) = structs[0], structs[1]
        from pdb2pqr.psize import Psize

        ref = Psize(**p0)
        ref.parse_lines(l0)
        ref.parse_lines(l1)
        ref.set_all()
        want = h_observe(ref, path)
        p = h_size(l0, p0)
        h_observe(p, path)
        p = h_size(l1, p0, into=p)
        d = h_diff(want, h_observe(p, path))
        if d:
            site = "inputgen.Input" if all("input:" in k for k in d) else "psize.Psize"
            fails.append(({"site": site, "condition": "depends-on-earlier-calls"}, f"one object sized with two files in turn: {', '.join(d[:8])} differ from parsing both and sizing once"))
    else:
        p = h_size(*structs[0])
        inputs = h_inputs(p, path)
        a, b = h_observe(p, path, inputs), h_observe(p, path, inputs)
        d = h_diff(a, b)
        if d:
            site = "inputgen.Input" if all("input:" in k for k in d) else "psize.Psize"
            fails.append(({"site": site, "condition": "depends-on-earlier-calls"}, f"observed twice without any call in between: {', '.join(d[:8])} differ"))
    return fails


def history_stream(ctx, n):
    rng = ctx.rng
    for k in range(n):
        kind = ["interleaved", "interleaved", "resized", "interleaved", "rendered-twice"][k % 5]
        nobj = 3 if k % 4 == 1 else 2
        structs = []
        for j in range(nobj):
            ws = rng.random() < 0.4
            spec, ext, off = gen_spec(rng, rng.choice([1, 2, 3, 6, 12]), rng.choice(["safe", "cap"]))
            lines = write_pqr(ctx, spec, ws, deco=gen_deco(rng))
            params, _ = gen_params(rng, allow_bad=False)
            if j == 1 and k % 3 == 0:
                params["gmemceil"] = rng.choice([1, 5, 20])  # a parallel one next to a sequential one
            structs.append((lines, params))
        fails = run_history(structs, kind)
        ctx.count(f"history:{kind}:{nobj if kind == 'interleaved' else ''}")
        ctx.evaluated(("history", kind, k), True)
        for sig, what in fails:
            ctx.fail(sig, what, {"kind": "history", "history": kind, "structs": [{"lines": l, "params": p} for l, p in structs]})


# --------------------------------------------------------------------------
# replay


def replay(ctx, data):
    import logging

    logging.getLogger().setLevel(logging.CRITICAL)
    probe_layout(ctx)
    case = data.get("case") or {}
    kind = case.get("kind")
    if kind in ("sizing", "header-pair"):
        lines, params, ws = case["lines"], case["params"], case.get("whitespace", False)
        impl = run_impl(lines, params)
        fails = []
        if kind == "header-pair":
            bare = run_impl([l for l in lines if is_coord(l)], params)
            if bare != impl:
                fails.append("header lines change the result")
        rb = read_back(lines, ws)
        if rb:
            fails += [w for _, w in oracle(impl, rb[0], rb[1], params, lines, any(not is_coord(l) for l in lines), ws)]
        print("replay:", ("FAILS: " + "; ".join(fails)[:600]) if fails else "passes", "| impl:", summ(impl))
        return 1 if fails else 0
    if kind == "dump_apbs":
        from pdb2pqr import io as pio

        root = ctx.scratch_dir() / "replay"
        pqr = str(root) + "/" + case["pqrpath_rel"]
        cur = Path("/")
        for comp in pqr.split("/")[1:-1]:
            if comp in (".", ""):
                continue
            if comp == "..":
                cur = cur.parent
                continue
            cur = cur / comp
            cur.mkdir(exist_ok=True, parents=True)
        inp = root / case["inrel"]
        inp.parent.mkdir(parents=True, exist_ok=True)
        with open(pqr, "w", encoding="utf-8") as fh:
            fh.writelines(case["lines"])
        c = {"pqrpath": pqr, "rel": case["pqrpath_rel"], "inrel": case["inrel"], "lines": case["lines"], "ws": len(case["lines"]) > 0 and case["lines"][0][6:7] == " " and case["lines"][0][17:18] == " "}
        try:
            pio.dump_apbs(pqr, str(inp))
            c["text"] = inp.read_text()
        except Exception as e:  # noqa
            c["text"], c["err"] = None, f"{type(e).__name__}: {e}"
        fails = [w for _, w in dump_oracle(c)]
        print("replay:", ("FAILS: " + "; ".join(fails)[:600]) if fails else "passes")
        ctx.cleanup()
        return 1 if fails else 0
    if kind == "history":
        fails = run_history([(x["lines"], x["params"]) for x in case["structs"]], case["history"])
        print("replay:", ("FAILS: " + "; ".join(w for _, w in fails)[:700]) if fails else "passes", "| history:", case["history"], len(case["structs"]), "structures")
        return 1 if fails else 0
    if kind == "entry":
        return replay_entry(ctx, case)
    if kind == "file-route":
        diff = route_difference(case["lines"], case["params"], case.get("twice", False))
        rb = read_back(case["lines"], case.get("whitespace", False))
        miss = not_enclosed(file_route(case["lines"], case["params"], case.get("twice", False)), rb[0]) if rb else None
        print("replay:", (f"FAILS: {case.get('route')}: {diff[:500]}" + (f"; {miss}" if miss else "")) if diff else "passes")
        return 1 if diff else 0
    if kind == "e2e":
        before = len(ctx.failures)
        end_to_end(ctx)
        n = len(ctx.failures) - before
        print("replay:", f"FAILS: {ctx.failures[-1]['what']}" if n else "passes")
        ctx.cleanup()
        return 1 if n else 0
    # proof / correspondence replays: re-run the correspondence case if present
    for b in data.get("broken", []):
        c = b.get("case")
        if c and "lines" in c and "params" in c:
            impl = run_impl(c["lines"], c["params"], c.get("twice", False))
            print("replay (correspondence case): impl =", summ(impl))
    print("replay: no failing input recorded (proof/correspondence break); run ./check C17")
    return 1
