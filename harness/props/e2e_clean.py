"""E2E_Clean - `pdb2pqr --clean` end to end: the composition of the C07 model
(read_pdb ; drop_water ; Biomolecule.__init__), set_termini, and the C08 model
(get_pqr_string ; print_biomolecule_atoms ; print_pqr), tied to the real CLI
path main.run_pdb2pqr -> main_driver writing a real file.

Used from harness/props/c08.py:   from harness.props import e2e_clean; e2e_clean.run_extra(ctx)
Standalone (development):
  cd /verif && PYTHONPATH=/repo:/verif /venv/bin/python -c "from harness import core; \
    from harness.props import e2e_clean as m; ctx=core.Ctx('C08','quick',0); m.run_extra(ctx); \
    print(ctx.broken, ctx.failures, ctx.cov['correspondence_cases'])"
"""

import json
import math
import re
from collections import Counter
from pathlib import Path

from harness import core
from harness.props import c07
from harness.props.c08 import coq_bool, fx

THEOREMS_EXTRA = [
    "E2E_clean_run_faithful_partial",
    "E2E_clean_run_names_partial",
    "E2E_clean_run_drop_water_partial",
    "E2E_clean_run_whitespace_partial",
    "E2E_clean_file_shape",
    "E2E_clean_run_faithful_refuted",
    "E2E_hidden_chain_refuted",
    "E2E_nonvacuous",
]
ALLOWED_AXIOMS = []

PROP_FILE = "E2E_Clean"
CORPUS = core.VERIF / "corpus" / "E2E"

HEADER0 = (
    "From Coq Require Import String List ZArith NArith.\n"
    "From PV Require Import Lib.Strings Lib.Decimal Model.PdbRead Model.Group Model.PdbSpec Model.CleanRun.\n"
    "From PV Require Model.PqrFormat.\n"
    "Import ListNotations.\nOpen Scope string_scope.\n"
)

PATCHES = ("NTERM", "CTERM", "5TERM", "3TERM")


# --------------------------------------------------------------------------
# tables regenerated from /repo


def patch_tables():
    """(remove list, altnames) of the four terminal patches; fail closed on what
    the model does not carry (PEPTIDE must neither remove nor rename)."""
    d = c07.definition()
    out = {}
    for n in PATCHES:
        p = d.patches[n]
        out[n] = (list(p.remove), dict(p.altnames))
    pep = d.patches["PEPTIDE"]
    if list(pep.remove) or dict(pep.altnames):
        raise RuntimeError("PEPTIDE patch removes/renames atoms: update_bonds is no longer invisible in clean mode")
    return out


def coq_patch(p):
    rm, alts = p
    return "(" + core.coq_list([core.coq_string(x) for x in rm]) + ", " + core.coq_list(
        [f"({core.coq_string(a)}, {core.coq_string(b)})" for a, b in alts.items()]
    ) + ")"


def coq_ptab(pt):
    return "Definition PT : ptab := mkPT " + " ".join(coq_patch(pt[n]) for n in PATCHES) + ".\n"


# --------------------------------------------------------------------------
# the repo side: the real CLI path


def impl_clean(ctx, text, dropw, keep, ws, tag="c"):
    """Write the text to a real file, run main.run_pdb2pqr (parser + main_driver)
    with --clean, read the written file back as bytes."""
    pdb, pio, pmain, biomolecule, aa, na = c07.repo()
    d = ctx.scratch_dir()
    inp = d / f"{tag}.pdb"
    outp = d / f"{tag}.pqr"
    with open(inp, "w", newline="", encoding="utf-8") as fh:
        fh.write(text)
    if outp.exists():
        outp.unlink()
    args = ["--clean"] + (["--drop-water"] if dropw else []) + (["--keep-chain"] if keep else []) + (["--whitespace"] if ws else [])
    try:
        pmain.run_pdb2pqr(args + [str(inp), str(outp)])
    except Exception as e:  # noqa: BLE001
        return ("EXC", type(e).__name__, str(e)[:160])
    except SystemExit as e:
        return ("EXC", "SystemExit", str(e))
    with open(outp, "rb") as fh:
        data = fh.read()
    return ("OK", data.decode("latin-1"))


SIMPLE_DEC = re.compile(r"^[+-]?(\d+(\.\d{0,3})?|\.\d{1,3})$")


def coord_table(text):
    """Coordinate texts whose '%.3f' rendering the model takes from the oracle
    table: every float-parsable token/column field of a coordinate line that is
    not a plain decimal with <= 3 decimals.  Returns (table, unsupported)."""
    cands = set()
    for l in text.replace("\r", "\n").split("\n"):
        s = l.strip()
        if s[:6].strip() not in ("ATOM", "HETATM"):
            continue
        for a, b in ((30, 38), (38, 46), (46, 54)):
            cands.add(s[a:b].strip())
        cands.update(s.split())
    tbl, unsupported = {}, False
    for t in sorted(cands):
        if not t or SIMPLE_DEC.match(t):
            continue
        try:
            v = float(t)
        except ValueError:
            continue
        if math.isnan(v) or math.isinf(v):
            unsupported = True
            continue
        tbl[t] = fx(v, 3)
    return tbl, unsupported


def coq_tbl(tbl):
    return core.coq_list(
        [f"({core.coq_string_bytes(t)}, PqrFormat.mkfx {coq_bool(neg)} {mag}%N)" for t, (neg, mag) in tbl.items()]
    )


def model_term(case, tbl):
    t = core.coq_string_bytes(case["text"])
    return (
        f"show_clean (clean_file py_float_ok TAB PT near_dec (r3_exec {coq_tbl(tbl)}) "
        f"{coq_bool(case['dropw'])} {coq_bool(case['keep'])} {coq_bool(case['ws'])} (readlines {t}))"
    )


# --------------------------------------------------------------------------
# oracle ties: r3 / near executables vs Python


def tie_oracles(ctx):
    """dec_r3 (no table) vs '%.3f' % float(t) and near_dec vs util.distance < 1.35."""
    from pdb2pqr import utilities as util

    rng = ctx.rng
    toks = ["0", "-0", "-0.000", "1", "1.5", "-1.25", "12.345", "-12.345", "999.999", "-99.999", "0.001", ".5", "5.", "+1.5",
            "9999.999", "-999.999", "00012.5", "1.2346", "1.23449", "2.0004999", "0.0004", "-0.0004", "12345678", "0.00051"]
    toks += [f"{rng.uniform(-999, 999):.3f}" for _ in range(40)]
    toks += [f"{rng.uniform(-99, 99):.5f}" for _ in range(20)]
    toks = [t for t in toks if not re.search(r"\.\d{3}5$|\.\d{3}50*$", t)]  # decimal ties go through the table
    pairs = []
    for _ in range(60):
        a = [round(rng.uniform(-20, 20), 3) for _ in range(3)]
        r = rng.choice([0.5, 1.2, 1.34, 1.349, 1.351, 1.36, 2.4, 8.0])
        u = [rng.gauss(0, 1) for _ in range(3)]
        n = math.sqrt(sum(x * x for x in u)) or 1.0
        b = [round(a[i] + r * u[i] / n, 3) for i in range(3)]
        pairs.append((a, b))
    terms = ["PqrFormat.fmt_fixed 3 (dec_r3 " + core.coq_string(t) + ")" for t in toks]

    def atom(c):
        xs = [core.coq_string(f"{v:.3f}") for v in c]
        return f'(mkA false "ATOM" 1%Z "N" "" "ALA" "A" 1%Z "" {xs[0]} {xs[1]} {xs[2]} "")'

    terms += [f"show_bools [near_dec {atom(a)} {atom(b)}]" for a, b in pairs]
    try:
        res = core.run_cases("E2Eo", HEADER0, terms, chunk=200)
    except core.CoqEvalError as e:
        ctx.broke("correspondence-broken", "oracle instances dec_r3 / near_dec did not evaluate", str(e)[-1500:])
        return False
    ok = True
    for t, m in zip(toks, res[: len(toks)]):
        ctx.cov["correspondence_cases"] += 1
        want = "%.3f" % float(t)
        if want != m:
            ok = False
            ctx.cov["correspondence_disagreements"] += 1
            ctx.broke("correspondence-broken", "dec_r3 (model oracle instance) vs '%.3f' % float(text)", f"text={t!r} python={want} model={m}", {"token": t})
    for (a, b), m in zip(pairs, res[len(toks):]):
        ctx.cov["correspondence_cases"] += 1
        d2 = sum((x - y) ** 2 for x, y in zip(a, b))
        if abs(d2 - 1.35 ** 2) < 1e-9:
            continue
        want = "1" if util.distance(a, b) < 1.35 else "0"
        if want != m:
            ok = False
            ctx.cov["correspondence_disagreements"] += 1
            ctx.broke("correspondence-broken", "near_dec (model oracle instance) vs utilities.distance < 1.35", f"a={a} b={b} python={want} model={m}", {"a": a, "b": b})
    return ok


# --------------------------------------------------------------------------
# model-independent search: column slicer of the input vs column slicer of the output


LETTERS = "ABCDEFGHIJKLMNOPQRSTUVWXYZabcdefghijklmnopqrstuvwxyz0123456789"


def slicer(text):
    """Independent column read of a PDB text (own copy: the slicer of the C07 check is free to
    change).  First model (lines in front of the second MODEL record), ATOM/HETATM by fixed
    columns, one per (chain, resSeq, iCode, name), first listed; a blank chain of a non-water
    record in a file with TER records is the chain of its TER-delimited segment.
    Returns (kept, first, later) lists of dicts, or None when a coordinate line cannot be read by
    columns (outside the oracle's domain)."""
    kept, seen, first, later = [], {}, [], []
    nmodel = 0
    lines = [l.rstrip("\r") for l in text.split("\n")]
    nter = sum(1 for l in lines if l[0:6].strip() == "TER")
    seg = 0
    for n, l in enumerate(lines):
        rec = l[0:6].strip()
        if l[:1].isspace() and l.strip()[0:6].strip() in ("ATOM", "HETATM", "MODEL"):
            return None
        if rec == "TER":
            seg += 1
            continue
        if rec == "MODEL":
            nmodel += 1
            continue
        if rec not in ("ATOM", "HETATM"):
            continue
        try:
            d = {
                "line": n, "rec": rec, "serial": int(l[6:11]), "name": l[12:16].strip(), "alt": l[16:17].strip(),
                "resn": l[17:20].strip(), "chain": l[21:22].strip(), "seq": int(l[22:26]), "ic": l[26:27].strip(),
                "x": float(l[30:38]), "y": float(l[38:46]), "z": float(l[46:54]),
            }
        except ValueError:
            return None
        if len(l.rstrip()) < 54:
            return None
        lettered = nter > 0 and d["chain"] == "" and d["resn"] not in ("HOH", "WAT")
        d["segchain"] = ("", seg) if lettered else d["chain"]
        d["codechain"] = d["chain"]
        if nmodel >= 2:
            later.append(d)
            continue
        first.append(d)
        key = (d["segchain"], d["seq"], d["ic"], d["name"])
        if key in seen:
            continue
        seen[key] = d
        kept.append(d)
    return kept, first, later


def slice_out(data, ws):
    """Atom records of the written file by the writer's fixed columns (default
    layout) or by whitespace tokens from the right (--whitespace), plus the
    other lines."""
    atoms, others = [], []
    lines = data.split("\n")
    for l in lines:
        if l[:4] == "ATOM" or l[:6] == "HETATM":
            try:
                if ws:
                    t = l.split()
                    atoms.append({"rec": t[0], "x": float(t[-5]), "y": float(t[-4]), "z": float(t[-3]), "q": t[-2], "r": t[-1], "line": l})
                else:
                    atoms.append(
                        {
                            "rec": l[0:6].strip(), "serial": int(l[6:11]), "name": l[12:16].strip(), "resn": l[16:20].strip(),
                            "chain": l[21:22].strip(), "seq": int(l[22:26]), "ic": l[26:27].strip(),
                            "x": float(l[30:38]), "y": float(l[38:46]), "z": float(l[46:54]),
                            "q": l[54:62].strip(), "r": l[62:69].strip(), "line": l,
                        }
                    )
            except (ValueError, IndexError):
                atoms.append({"unreadable": True, "line": l})
        else:
            others.append(l)
    return atoms, others


def r3f(v):
    return float("%.3f" % v)


def chain_sort_key(c):
    return "ZZ" if c == "" else c


RNA_MAP = {"A": "RA", "C": "RC", "G": "RG", "U": "RU"}

# the features of the imported generators (harness/props/c07.py gen_structured / gen_malformed) this
# oracle was written and validated for; a case carrying any other feature is outside its domain
KNOWN_FEATS = (
    "models=", "water", "unmapped-atom-names", "unknown-records", "trailing-blanks", "split-residue", "short-mid",
    "short-54", "serial>=10000", "repeated-residue", "real-fragment", "other-records", "numbering:", "nucleotide",
    "no-final-eol", "negative-resseq", "model-style:", "malformed:", "later-model-renumbered", "icode",
    "failing-other-records", "cut@", "blank-lines", "blank-chain", "altloc-block", "altloc", "TER", "END-repeated",
    "END-middle", "END-first", "CRLF", "termini", "cyclic", "corpus:", "witness:",
)


def canonical_name(tab, resn, name):
    """Name of the atom after the alias renaming of the residue class it is grouped into."""
    rn = resn if resn in tab else RNA_MAP.get(resn, resn)
    return tab.get(rn, ("KGeneric", {}))[1].get(name, name)


def search_case(ctx, case, tab, pt, real=None):
    """The independent oracle on one text.  Deviations that set_termini makes by
    design (see notes/E2E_Clean.md) are classified and counted, everything else
    is a failure."""
    text, dropw, keep, ws = case["text"], case["dropw"], case["keep"], case["ws"]
    unknown = [f for f in case.get("feats", []) if not f.startswith(KNOWN_FEATS)]
    if unknown:
        ctx.count("search:outside-oracle-domain(generator feature " + unknown[0] + ")")
        return
    sl = slicer(text)
    if sl is None:
        ctx.count("search:outside-column-oracle")
        return
    kept, first, later = sl
    # blank chains of TER-delimited segments are lettered with identifiers no record of the file uses
    # (--drop-water removes the water records from the record list BEFORE Biomolecule sees it: a chain id
    # only waters carry is free again)
    seen_by_biomolecule = [d for d in first + later if not (dropw and d["resn"] in ("HOH", "WAT"))]
    free = [c for c in LETTERS if c not in {d["chain"] for d in seen_by_biomolecule}]
    for d in first + later:
        if isinstance(d["segchain"], tuple):
            seg = d["segchain"][1]
            d["codechain"] = free[seg] if seg < len(free) else None
    # the residue INSTANCE a record is grouped into decides class and name: Biomolecule closes a run of
    # consecutive records with one (chain, resSeq, iCode) - END also closes it - and names the residue after
    # the LAST record of the run (create_residue(residue, previous_atom.res_name)); a record's own resName
    # columns may differ (e.g. a 4-character residue name).  run_resn = that name; key_resns = every resName
    # listed under the record's residue key (covers records skipped because already placed).
    raw = [l.rstrip("\r") for l in text.split("\n")]
    end_lines = [n for n, l in enumerate(raw) if l.strip()[0:6].strip() == "END"]
    runs, prev = [], None
    for d in first:
        k3 = (d["segchain"], d["seq"], d["ic"])
        if prev is not None and prev[0] == k3 and not any(prev[1] < n < d["line"] for n in end_lines):
            runs[-1].append(d)
        else:
            runs.append([d])
        prev = (k3, d["line"])
    by_key = {}
    for d in first:
        by_key.setdefault((d["segchain"], d["seq"], d["ic"]), set()).add(d["resn"])
    for run in runs:
        for d in run:
            d["run_resn"] = run[-1]["resn"]
            d["key_resns"] = by_key[(d["segchain"], d["seq"], d["ic"])]
    # alias spellings: the residue constructors rename an atom through the residue's alias table
    # (ref.altnames, from the repo's definitions) and keep the FIRST atom of a name only (C07's design
    # guard G5).  Identity of an input record = its CANONICAL name inside its residue instance; a later
    # record with the same canonical name is the same atom listed again, not a lost record.
    keptset = {id(d) for d in kept}
    ndup = 0
    for run in runs:
        seen_c = set()
        for d in run:
            if id(d) not in keptset:
                continue
            cn = canonical_name(tab, d["run_resn"], d["name"])
            d["cname"] = cn
            if cn in seen_c:
                d["alias_dup"] = True
                ndup += 1
            seen_c.add(cn)
    if ndup:
        ctx.count("search:alias-duplicate-of-an-earlier-record(same atom)", ndup)
        kept = [d for d in kept if not d.get("alias_dup")]
    if any(math.isnan(d[k]) or math.isinf(d[k]) for d in kept for k in "xyz"):
        ctx.count("search:non-finite-coordinate")
        return
    if real is None:
        real = impl_clean(ctx, text, dropw, keep, ws, tag="s")
    if real[0] != "OK":
        ctx.count("search:impl-raised:" + real[1])
        if kept and real[1] not in ("Exception", "IndexError"):
            ctx.fail({"site": "main.main_driver --clean", "field": "run", "condition": "exception-on-column-readable-file", "exc": real[1]},
                     f"--clean raised {real[1]}: {real[2]}", dict(case, mode="search"))
        return
    if dropw:
        kept = [d for d in kept if d["resn"] not in ("HOH", "WAT")]
    out, others = slice_out(real[1], ws)
    key = json.dumps([sorted(case["feats"]), len(kept), dropw, keep, ws])
    ctx.evaluated(key, len(kept) >= 2)
    base = {"site": "main.main_driver --clean", "flags": f"dropw={int(dropw)} keep={int(keep)} ws={int(ws)}"}
    cs = dict(case, mode="search")
    # file shape
    if ws:
        bad = [l for l in others if l != ""]
    else:
        bad = [l for l in others if l not in ("TER", "END")]
        if others[-2:] != ["TER", "END"]:
            bad.append("<file does not end with TER/END without final newline>")
    if bad:
        ctx.fail(dict(base, field="file", condition="unexpected-line"), f"written file has lines other than ATOM/HETATM/TER/END: {bad[:3]}", cs)
        return
    if any(a.get("unreadable") for a in out):
        caps = len(kept) > 99999 or any(abs(d[k]) >= 9999.9995 or d[k] <= -999.9995 for d in kept for k in "xyz")
        if caps:
            ctx.count("search:column-capacity")
        else:
            ctx.fail(dict(base, field="line", condition="unreadable-by-columns"), "an output atom line is not readable by the writer's columns", cs)
        return
    if any(abs(d[k]) >= 9999.9995 or d[k] <= -999.9995 for d in kept for k in "xyz"):
        ctx.count("search:column-capacity")
        return
    # charge / radius are 0.0000 in clean mode
    for a in out:
        if a["q"] != "0.0000" or a["r"] != "0.0000":
            ctx.fail(dict(base, field="charge/radius", condition="not-0.0000-in-clean-mode"), f"clean mode printed charge/radius {a['q']}/{a['r']}: {a['line']}", cs)
            return
    # expected order: Biomolecule sorts chains ('' as 'ZZ'); inside a chain file order
    expected = sorted(kept, key=lambda d: chain_sort_key(d["codechain"] if d["codechain"] is not None else ""))
    ck = (lambda d: (r3f(d["x"]), r3f(d["y"]), r3f(d["z"]))) if ws else (lambda d: (d["seq"], d["ic"], r3f(d["x"]), r3f(d["y"]), r3f(d["z"])))
    want = [ck(d) for d in expected]
    got = [ck(a) for a in out]
    if want != got:
        # greedy alignment in order: what the output skips is lost, what is left over is extra
        lost, j = [], 0
        for d in expected:
            if j < len(got) and ck(d) == got[j]:
                j += 1
            else:
                lost.append(d)
        extra = got[j:]
        rm5 = set(pt["5TERM"][0])
        if extra:
            if not (Counter(got) - Counter(want)):
                ctx.fail(dict(base, field="order", condition="order-differs"), "records are not in chain-sorted file order", cs)
            else:
                ctx.fail(dict(base, field="record", condition="record-not-in-input-or-twice"), f"output has records the column read of the input does not select: {extra[:3]}", cs)
            return

        def nucleic(d):
            # class of the residue the record was grouped into, not of the record's own resName columns
            for rn in [d["run_resn"]] + sorted(d["key_resns"]):
                rn = rn if rn in tab else {"A": "RA", "C": "RC", "G": "RG", "U": "RU"}.get(rn, rn)
                if tab.get(rn, ("", {}))[0] == "KNucleic":
                    return True
            return False

        if all(d["name"] in rm5 and nucleic(d) for d in lost):
            deviation(ctx, dict(base, field="record", condition="5prime-phosphate-removed-by-5TERM-patch"),
                      f"set_termini removed {[(d['name'], d['resn'], d['seq']) for d in lost][:4]}", cs)
            expected = [d for d in expected if not any(d is x for x in lost)]
        else:
            ctx.fail(dict(base, field="record", condition="record-lost"),
                     f"{len(lost)} coordinate record(s) of the first model missing from the output: {[(d['rec'], d['name'], d['resn'], d['chain'], d['seq']) for d in lost][:4]}", cs)
            return
    if ws:
        return
    # serial = position
    if [a["serial"] for a in out] != [i + 1 for i in range(len(out))] and len(out) < 100000:
        ctx.fail(dict(base, field="serial", condition="not-position"), "serials are not 1..n", cs)
        return
    used = {d["codechain"] for d in kept}  # chainmap keys: chains of the records Biomolecule keeps
    alts_t = {}
    for n in ("NTERM", "CTERM"):
        alts_t.update(pt[n][1])
    for d, a in zip(expected, out):
        if keep and a["chain"] != d["codechain"]:
            if a["chain"] not in used and len(a["chain"]) == 1:
                deviation(ctx, dict(base, field="chain", condition="chain-id-replaced-by-set_termini"), f"chain {d['chain']!r} printed as {a['chain']!r}", cs)
            else:
                ctx.fail(dict(base, field="chain", condition="chain-changed"), f"chain {d['chain']!r} printed as {a['chain']!r}: {a['line']}", cs)
                return
        if not keep and a["chain"] != "":
            ctx.fail(dict(base, field="chain", condition="chain-printed-without-keep-chain"), a["line"], cs)
            return
        rn = d["run_resn"]  # the residue instance's name (last record of the run), not the record's own
        rn2 = rn if rn in tab else {"A": "RA", "C": "RC", "G": "RG", "U": "RU"}.get(rn, rn)
        kind, alts = tab.get(rn2, ("KGeneric", {}))
        if d["resn"] != rn:
            ctx.count("search:own-resname-differs-from-residue")
        if a["resn"] not in (rn, rn2):
            ctx.count("search:resname-of-last-atom-of-run")
        okn = {d["name"], alts.get(d["name"], d["name"])}
        okn |= {alts_t.get(n, n) for n in list(okn)}
        if a["name"] not in okn and a["resn"] in (rn, rn2):
            ctx.fail(dict(base, field="name", condition="name-changed"), f"atom name {d['name']!r} printed as {a['name']!r}: {a['line']}", cs)
            return
        if a["name"] != d["name"]:
            ctx.count("search:alias-renamed")
        want_rec = {"KAmino": "ATOM", "KNucleic": "ATOM", "KWater": "HETATM"}.get(kind, d["rec"])
        if a["rec"] != want_rec and a["resn"] in (rn, rn2):
            ctx.fail(dict(base, field="record type", condition="type-changed"), f"{d['rec']} {d['resn']} (residue {rn}) printed as {a['rec']}: {a['line']}", cs)
            return


def deviation(ctx, sig, what, case):
    """A deviation set_termini makes by design.  If the maintainers of the known
    list registered it (a known finding whose signature matches), it goes
    through ctx.fail (KNOWN-FINDING accounting); otherwise it is counted."""
    for k in ctx.known:
        if k.get("status") == "known" and core.sig_match(k["signature"], sig):
            ctx.fail(sig, what, case)
            return
    ctx.count("design-deviation:" + sig["condition"])
    key = "E2E-design:" + sig["condition"]
    ctx.known_hits[key] = ctx.known_hits.get(key, 0) + 1


# --------------------------------------------------------------------------
# cases


def load_corpus():
    out = []
    if CORPUS.is_dir():
        for p in sorted(CORPUS.glob("*.json")):
            if p.name.startswith(("assign_", "cif_")):
                continue  # cases of harness/props/e2e_assign.py
            c = json.loads(p.read_text())
            c.setdefault("feats", ["corpus:" + p.stem])
            c.setdefault("stream", "corpus")
            for k in ("dropw", "keep", "ws"):
                c.setdefault(k, False)
            out.append(c)
    return out


TERMINI_RES = [
    ("ALA", ["N", "H1", "H2", "H3", "CA", "C", "O", "OXT"], "ATOM"),
    ("GLY", ["N", "HT1", "CA", "C", "OT1", "OT2"], "ATOM"),
    ("SER", ["N", "H", "1H", "CA", "C", "O'", "O''"], "ATOM"),
    ("A", ["P", "OP1", "OP2", "O5'", "H3T"], "ATOM"),
    ("DT", ["P", "O1P", "O2P", "C5'"], "ATOM"),
    ("DA3", ["P", "O1P", "C5'"], "ATOM"),
    ("NME", ["N", "CH3"], "ATOM"),
    ("NH2", ["N"], "HETATM"),
    ("HOH", ["O"], "HETATM"),
    ("LIG", ["C1", "O1"], "HETATM"),
]


def gen_termini(rng, k):
    """Small chains aimed at set_termini: terminal alias names, 5' phosphates,
    internal OXT / H3T (hidden chains), blank chains, caps, cyclic closure."""
    lines, serial = [], 1
    nch = rng.choice([1, 1, 2, 3])
    ids = rng.choice([["A", "B", "C"], [" ", "A", "B"], ["B", " ", "a"], [" ", " ", " "], ["A", "A", "B"]])[:nch]
    feats = {"termini"}
    if " " in ids:
        feats.add("blank-chain")
    seq = 1
    for ci, ch in enumerate(ids):
        n = rng.choice([1, 2, 3, 4])
        first_n = None
        for i in range(n):
            resn, names, rec = rng.choice(TERMINI_RES)
            names = names if rng.random() < 0.7 else names[: rng.choice([1, 2, 3])]
            for nm in names:
                c = [f"{rng.uniform(-30, 30):.3f}" for _ in range(3)]
                if nm == "N" and first_n is None:
                    first_n = c
                if nm == "C" and i == n - 1 and first_n is not None and rng.random() < 0.25:
                    c = [f"{float(first_n[0]) + 1.3:.3f}", first_n[1], first_n[2]]
                    feats.add("cyclic")
                lines.append(c07.fmt_atom(rec, serial, nm, "", resn, ch.strip(), seq, "", c[0], c[1], c[2], tail=rng.random() < 0.7))
                serial += 1
            seq += 1
        if rng.random() < 0.5:
            lines.append("TER")
            feats.add("TER")
    if rng.random() < 0.6:
        lines.append("END")
    return {"text": "".join(l + "\n" for l in lines), "feats": sorted(feats), "stream": "termini", "dropw": rng.random() < 0.2}


def flags(rng, c):
    c["keep"] = rng.random() < 0.6
    c["ws"] = rng.random() < 0.3
    return c


# --------------------------------------------------------------------------


def run_extra(ctx):
    c07._quiet()
    ok = core.proof_stage(ctx, PROP_FILE, THEOREMS_EXTRA, ALLOWED_AXIOMS)
    try:
        tab = c07.deftab()
        pt = patch_tables()
    except Exception as e:  # noqa: BLE001
        ctx.broke("generator-broken", "definition / patch tables from /repo (E2E_Clean)", str(e))
        return False
    header = HEADER0 + c07.coq_deftab(tab) + coq_ptab(pt)
    ok = tie_oracles(ctx) and ok

    n_struct = 1500 if ctx.thorough else 150
    n_term = 1000 if ctx.thorough else 100
    n_mal = 300 if ctx.thorough else 30
    cases = load_corpus()
    cases += [flags(ctx.rng, c07.gen_structured(ctx.rng, k)) for k in range(n_struct)]
    cases += [flags(ctx.rng, gen_termini(ctx.rng, k)) for k in range(n_term)]
    cases += [flags(ctx.rng, c07.gen_malformed(ctx.rng, k)) for k in range(n_mal)]
    terms, todo, reals = [], [], {}
    for i, c in enumerate(cases):
        c["text"] = c07.clean_text(c["text"])
        ctx.count("e2e:stream:" + c["stream"])
        ctx.count(f"e2e:flags:dropw={int(c['dropw'])},keep={int(c['keep'])},ws={int(c['ws'])}")
        tbl, unsupported = coord_table(c["text"])
        if unsupported:
            ctx.count("e2e:non-finite-coordinate-text(not compared)")
            continue
        if tbl:
            ctx.count("e2e:oracle-table-used")
        terms.append(model_term(c, tbl))
        todo.append(i)
    try:
        res = core.run_cases("E2E", header, terms, chunk=40)
    except core.CoqEvalError as e:
        ctx.broke("correspondence-broken", "clean_file (Model/CleanRun.v) did not evaluate", str(e)[-1500:])
        res = None
        ok = False
    nbad = 0
    if res is not None:
        for i, m in zip(todo, res):
            c = cases[i]
            r = impl_clean(ctx, c["text"], c["dropw"], c["keep"], c["ws"])
            reals[i] = r
            if r[0] == "EXC" and r[1] == "RuntimeError" and "Unable to find file" in r[2]:
                ctx.count("e2e:empty-pdblist(not compared)")
                continue
            ctx.cov["correspondence_cases"] += 1
            got = "OK:" + r[1] if r[0] == "OK" else "EXC"
            if "expect_file" in c and got != "OK:" + c["expect_file"]:
                # the file a Coq theorem states (Proofs/CleanRun.v witnesses) must be what the real CLI writes
                ctx.cov["correspondence_disagreements"] += 1
                ok = False
                ctx.broke(
                    "correspondence-broken",
                    "Coq witness (Proofs/CleanRun.v: " + c.get("what", c["feats"][0]) + ") vs main.run_pdb2pqr --clean",
                    f"theorem states {c['expect_file']!r}\n/repo writes {got[:800]!r}",
                    dict(c, mode="correspondence"),
                )
            ctx.count("e2e:outcome:" + ("file-written" if r[0] == "OK" else "raised:" + r[1]))
            if got != m:
                ctx.cov["correspondence_disagreements"] += 1
                nbad += 1
                ok = False
                if nbad <= 4:
                    ctx.broke(
                        "correspondence-broken",
                        "clean_file (Model/CleanRun.v = C07 ingest ; set_termini ; C08 print) vs main.run_pdb2pqr --clean (written file, byte for byte)",
                        f"flags dropw={c['dropw']} keep={c['keep']} ws={c['ws']}\nimpl : {str(r)[:700]}\nmodel: {m[:700]}",
                        dict(c, mode="correspondence"),
                    )
    # search with the independent oracle (higher volume when something broke)
    extra = []
    if not ok:
        extra = [flags(ctx.rng, c07.gen_structured(ctx.rng, k)) for k in range(600 if not ctx.thorough else 3000)]
        for c in extra:
            c["text"] = c07.clean_text(c["text"])
    for i, c in enumerate(cases):
        search_case(ctx, c, tab, pt, real=reals.get(i))
    for c in extra:
        search_case(ctx, c, tab, pt)
    for c in cases[:3]:
        ctx.sample({"e2e_clean_case": c["text"][:300], "flags": [c["dropw"], c["keep"], c["ws"]]}, limit=9)
    ctx.trusted += [
        "E2E_Clean: oracles of the composed model - float() success (py_float_ok), '%.3f' of float(text) (dec_r3 for plain decimals "
        "+ a per-case table computed with decimal for other spellings), the cyclic-chain test distance<1.35 (exact decimal arithmetic); "
        "terminal patch tables (NTERM/CTERM/5TERM/3TERM remove+altnames) regenerated from /repo each run; PEPTIDE patch checked empty",
    ]
    ctx.assumptions += [
        "E2E_Clean: input is 7-bit text read as readline() chunks; non-finite coordinate texts (nan/inf) are outside the model and not compared",
    ]
    return ok


def replay_extra(ctx, data):
    """Re-execute an e2e_clean case against /repo (the independent search oracle
    on the real CLI run); 1 if it still fails, 0 if it passes, None if the
    replay file is not one of this module's cases."""
    case = data.get("case") or {}
    if not isinstance(case, dict) or "text" not in case or "keep" not in case:
        return None
    c07._quiet()
    tab = c07.deftab()
    pt = patch_tables()
    r = impl_clean(ctx, case["text"], case.get("dropw", False), case["keep"], case.get("ws", False), tag="r")
    print(f"replay: pdb2pqr --clean dropw={case.get('dropw')} keep={case['keep']} ws={case.get('ws')} -> {str(r)[:600]!r}")
    before = len(ctx.failures)
    search_case(ctx, dict(case, feats=case.get("feats", [])), tab, pt, real=r)
    new = ctx.failures[before:]
    for f in new:
        print("replay: FAILS", f["signature"], f["what"][:300])
    if not new:
        print("replay: passes")
    return 1 if new else 0
