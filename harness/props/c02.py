"""C02 - every residue carries the formal charge of its protonation and terminal state."""

import json
import math
import subprocess
import sys
from dataclasses import replace
from decimal import Decimal

from harness import core

FFS = ["AMBER", "CHARMM", "PARSE", "PEOEPB", "SWANSON", "TYL06"]
NUC_FFS = ["AMBER", "CHARMM", "PARSE", "TYL06"]

META = {
    "id": "C02",
    "level": "proof",
    "technique": "Coq proofs (induction over strands, chain lists and residue lists; vm_compute table obligations regenerated from /repo's force-field and topology data on every run) about an executable model of set_state / assign_termini / set_termini / the integrality guard, tied to the code by an exhaustive set_state correspondence, differential set_termini runs on built structures and an end-to-end formal-charge search",
    "level_text": (
        "Proved: for each of the six force fields every fully parameterised amino-acid state (class x side-chain state x terminus kind, named by the REAL "
        "set_state) sums to its formal charge within 1e-3 in exact decimal arithmetic (PARSE: all states except NEUTRAL-CPRO, which is refuted - finding C02-F1); "
        "nucleic strands of ANY length with free ends carry exactly -1 per phosphate (AMBER, CHARMM, PARSE, TYL06; one sugar type per strand; mixed DNA/RNA ends within 1e-3); "
        "waters are exactly neutral; exact residue charges give an integer total that passes the integrality guard; set_state's name is prefix(terminus) x base(state) for ALL "
        "descriptors (wrinkles stated: a one-residue chain gets only the N prefix, N-terminal PRO is NPRO even under NEUTRAL-NTERM); set_termini for ALL chain lists, hidden "
        "chain ends (OXT/H3T inside a chain) included: residues preserved in order, every resulting segment has at most one N/5' flag (on its head) and at most one C/3' flag (on "
        "its last polymer residue not hidden by an NH2/NME cap), non-cyclic segments have exactly these, the SET of patches and hence the terminus state in ffname is a function "
        "of the flags however often assign_termini re-applied the patches; chains without hidden ends that are cyclic get nothing (cyclic = the chain's first N-bearing and last C-bearing residue are within 1.35 A, so waters/ligands listed under the ring's chain id do not hide the closure: fix C02-F3). REFUTED (witness replayed on the real "
        "set_termini, pipeline then aborts): a segment split off after phase 1 keeps its head's N flag even if it is cyclic itself. The integrality guard never raises on residue "
        "lists made of table states (per-residue 4-decimal rounding modelled in exact decimals; any total within 1e-3 of the exact one passes, float summation error is measured, "
        "not proved). PARSE: NEUTRAL-N = N - 1 and NEUTRAL-C = C + 1 exactly for all 56 parameterised pairs; the other five force fields know no atom of any NEUTRAL state."
    ),
    "level_note": (
        "Trusted: Coq kernel+vm_compute; generators gen/states.py (state enumeration, formal-charge chemistry table cross-checked by proton counting, final-atom-set derivation "
        "from AA.xml/PATCHES.xml) and gen/ff_tables.py; the structure builder (scaffolding). Modelled, not verified: aa.py/na.py set_state, Biomolecule.assign_termini/set_termini, "
        "main.py guard. Geometry (cyclic test dist<1.35) enters the model as a predicate computed by the harness with its own threshold."
    ),
    "design_ref": "DESIGN.md 4 C02",
}

THEOREMS = (
    [f"C02_state_charge_{f}" for f in FFS if f != "PARSE"]
    + ["C02_state_charge_PARSE_refuted", "C02_state_charge_PARSE_partial", "C02_names_model_eq_code"]
    + [f"C02_strand_{f}" for f in NUC_FFS]
    + ["C02_strand_tolerance"]
    + [f"C02_water_{f}" for f in FFS]
    + [
        "C02_total_is_sum",
        "C02_total_within",
        "C02_guard_ok_near",
        "C02_set_state_spec",
        "C02_one_residue_chain_gets_N_only",
        "C02_nterm_pro_is_NPRO",
        "C02_assign_spec",
        "C02_termini_once",
        "C02_termini_general",
        "C02_seg_ok_at_most_one",
        "C02_state_from_flags",
        "C02_termini_cyclic_after_split_refuted",
        "C02_cyclic_split_example",
        "C02_hidden_end_example",
        "C02_ring_with_water_example",
        "C02_nonvacuous",
    ]
    + [f"C02_guard_never_fires_{f}" for f in FFS]
    + ["C02_neutral_shift_PARSE"]
    + [f"C02_neutral_absent_{f}" for f in FFS if f != "PARSE"]
)

HEADER = "From Coq Require Import String List ZArith.\nFrom PV Require Import Model.ForceField Model.States.\nImport ListNotations.\nOpen Scope string_scope.\n"

AA20 = "ALA ARG ASN ASP CYS GLN GLU GLY HIS ILE LEU LYS MET PHE PRO SER THR TRP TYR VAL".split()
VARIANTS = "ASH GLH HID HIE HIP HSD HSE HSP CYX CYM LYN TYM AR0".split()
CLASS_NAMES = {
    "ARG": ["ARG", "AR0"], "ASP": ["ASP", "ASH"], "CYS": ["CYS", "CYX", "CYM"], "GLU": ["GLU", "GLH"],
    "HIS": ["HIS", "HID", "HIE", "HIP", "HSD", "HSE", "HSP"], "LYS": ["LYS", "LYN"], "TYR": ["TYR", "TYM"],
}
CLASS_PATCH = {"ARG": ["AR0"], "ASP": ["ASH"], "CYS": ["CYX", "CYM"], "GLU": ["GLH"], "HIS": ["HIP"], "LYS": ["LYN"], "TYR": ["TYM"]}
CLASS_OF = {}
for _c in AA20:
    for _n in CLASS_NAMES.get(_c, [_c]):
        CLASS_OF[_n] = _c

# ---- the independent residue-state table of the search ---------------------------
SIDE_Q = {"ASP": -1, "GLU": -1, "LYS": 1, "ARG": 1, "HIP": 1, "HSP": 1, "CYM": -1, "TYM": -1}
BASE_OF = {"HSD": ["HID"], "HSE": ["HIE"], "HSP": ["HIP"], "HIS": ["HID", "HIE"]}


def regenerate(ctx):
    import os

    p = subprocess.run([sys.executable, str(core.VERIF / "gen" / "all.py"), "--only", "ff_tables,topology,states"], capture_output=True, text=True, env={**os.environ, "VERIF_REPO": str(core.REPO)})
    if p.returncode != 0:
        ctx.broke("generator-broken", "gen/all.py (state and force-field tables from /repo)", (p.stdout + p.stderr)[-2500:])
        return False
    return True


# ==================================================================================
# correspondence 1: set_state, exhaustive


def cp(p):
    return "P_" + p.replace("-", "_")


def setstate_cases():
    out = []
    for cls in AA20:
        ps = CLASS_PATCH.get(cls, []) + ["NEUTRAL-NTERM", "NEUTRAL-CTERM"] + ([] if cls in ("HIS", "CYS") else ["PEPTIDE"])
        for nm in CLASS_NAMES.get(cls, [cls]):
            out.append((cls, nm, ps))
    return out


def real_setstate(gen, definition, desc):
    """desc = 'CLS/NAME/nc/p1+p2/ss hg/hd1 he2/flags' as the model prints it."""
    cls, nm, nc, pl, sh, hh, fl = desc.split("/")
    patches = [p for p in pl.split("+") if p]
    ss, hg = sh[0] == "1", sh[1] == "1"
    hd1, he2 = hh[0] == "1", hh[1] == "1"
    names = [a for a in definition.map[nm].map if a not in ("N+1", "C-1")]
    if cls == "CYS":
        names = [a for a in names if a != "HG"] + (["HG"] if hg else [])
    his = None
    if cls == "HIS":
        names = [a for a in names if a not in ("HD1", "HE2")] + (["HD1"] if hd1 else []) + (["HE2"] if he2 else [])
        his = tuple(c == "1" for c in fl)
    ff, h1, h2 = gen.real_amino_ffname(definition, cls, nm, names, patches, nc[0] == "1", nc[1] == "1", ss=ss, his=his)
    if cls != "HIS":
        h1, h2 = hd1, he2  # the model reports the descriptor's own flags for other classes
    return f"{ff}:{int(bool(h1))}{int(bool(h2))}"


def corr_setstate(ctx, definition):
    import states as gen

    cases = setstate_cases()
    terms = [f"show_enum C_{c} B_{n} {core.coq_list([cp(p) for p in ps])}" for c, n, ps in cases]
    terms.append("show_enum_n")
    try:
        res = core.run_cases("C02s", HEADER, terms, chunk=6)
    except core.CoqEvalError as e:
        ctx.broke("correspondence-broken", "set_state: model evaluation failed", str(e))
        return False
    ok = True
    nbad = 0
    for (c, n, ps), out in zip(cases, res[:-1]):
        for item in out.split(";"):
            desc, model = item.split("=")
            ctx.cov["correspondence_cases"] += 1
            try:
                real = real_setstate(gen, definition, desc)
            except Exception as e:  # noqa
                real = f"EXC-{type(e).__name__}"
            if real != model:
                ctx.cov["correspondence_disagreements"] += 1
                ok = False
                nbad += 1
                if nbad <= 3:
                    ctx.broke("correspondence-broken", "Model.States.set_state vs aa.py set_state (exhaustive descriptor space)", f"{desc}: impl={real} model={model}", {"kind": "set_state", "desc": desc})
        ctx.count(f"set_state:{c}", len(out.split(";")))
    # nucleic
    from pdb2pqr import na

    for item in res[-1].split(";"):
        desc, model = item.split("=")
        kname, fl = desc.split("/")
        o2, five, three = (ch == "1" for ch in fl)
        tpl = {"ADE": ("RA", "DA"), "CYT": ("RC", "DC"), "GUA": ("RG", "DG"), "THY": ("DT", "DT"), "URA": ("RU", "RU")}[kname][0 if o2 else 1]
        names = [a for a in definition.map[tpl].map if a != "O2'"] + (["O2'"] if o2 else [])
        try:
            r = gen.make_stub(definition, getattr(na, kname), tpl, names)
            r.is5term = True if five else 0
            r.is3term = True if three else 0
            r.set_state()
            real = r.ffname
        except Exception as e:  # noqa
            real = f"EXC-{type(e).__name__}"
        ctx.cov["correspondence_cases"] += 1
        ctx.count("set_state:nucleic")
        if real != model:
            ctx.cov["correspondence_disagreements"] += 1
            ok = False
            ctx.broke("correspondence-broken", "Model.States.nuc_state vs na.py set_state", f"{desc}: impl={real} model={model}", {"kind": "nuc_state", "desc": desc})
    return ok


# ==================================================================================
# structures (shared by the termini correspondence and the end-to-end search)

_RING_CACHE = {}


def build_layout(spec):
    """spec: list of chain dicts.  Returns (atoms, expect): expect = one dict per residue in
    file order: name, role in N I C NC(single residue) 5 3 53 W X cyc."""
    from harness import builder as B

    atoms, expect = [], []
    for k, ch in enumerate(spec):
        cid = ch["chain"]
        y0 = 30.0 * k
        num = ch.get("start", 1)
        kind = ch["type"]
        if kind == "pep":
            for s, seq in enumerate(ch["segments"]):
                part = B.build_peptide(seq, chain=cid, start=num, origin=(0.0, y0 + 9.0 * s, 4.0 * s), cterm_oxt=ch.get("oxt", True), relax=False, icode=ch.get("icode", ""))
                punk = {int(i) % len(seq): v for i, v in ch.get("unk", {}).items()} if s == 0 else {}
                if punk:
                    pres, part = B.residues_of(part), []
                    for i, rr in enumerate(pres):
                        part += [replace(a_, resname=punk[i][0], record=punk[i][1]) for a_ in rr if a_.name in ("N", "CA", "C", "O", "CB", "OXT")] if i in punk else rr
                atoms += part
                for i, nm in enumerate(seq):
                    role = "NC" if len(seq) == 1 else ("N" if i == 0 else ("C" if i == len(seq) - 1 else "I"))
                    if punk:  # only an unknown residue in the MIDDLE leaves the ends describable
                        role = "X" if (i in punk or 0 in punk or len(seq) - 1 in punk) else role
                    expect.append({"name": punk[i][0] if i in punk else nm, "role": role, "chain": k})
                num += len(seq) + ch.get("gap", 0)
        elif kind == "cyc":
            key = tuple(ch["seq"])
            if key not in _RING_CACHE:
                _RING_CACHE[key] = B.ring_peptide(list(key), solution=0)
            part = [a.at(a.xyz + [0.0, y0, 0.0]) for a in _RING_CACHE[key]]
            rres = B.residues_of(part)
            rot = ch.get("rot", 0) % len(rres)
            rres = rres[rot:] + rres[:rot]  # the same ring, listed from another ring position
            rnames = list(ch["seq"][rot:]) + list(ch["seq"][:rot])
            pre = []
            for ex in ch.get("pre", []):  # water / ligand listed BEFORE the ring under the same chain id
                if ex == "wat":
                    w = B.waters(1, around=atoms + part + pre, chain=cid, start=num)
                    pre += w
                    expect.append({"name": "HOH", "role": "W", "chain": k})
                else:
                    c0 = part[0].xyz
                    pre += [B.AtomRec("HETATM", 0, an, "", "LIG", cid, num, "", float(c0[0]) + 9.0 + 1.4 * j, float(c0[1]) + 9.0, float(c0[2]) + 9.0, 1.0, 0.0, an[0]) for j, an in enumerate(["C1", "O1", "N1"])]
                    expect.append({"name": "LIG", "role": "X", "chain": k})
                num += 1
            unk = {int(i) % len(rres): v for i, v in ch.get("unk", {}).items()}  # listed position -> [name, record]
            part = []
            for i, rr in enumerate(rres):
                for a_ in rr:
                    if i in unk:
                        if a_.name not in ("N", "CA", "C", "O", "CB"):
                            continue  # a residue pdb2pqr has no definition for; the backbone keeps the closure geometry real
                        a_ = replace(a_, resname=unk[i][0], record=unk[i][1])
                    part.append(replace(a_, resseq=num + i, chain=cid))
            if ch.get("oxt"):  # malformed on purpose: OXT on the residue that closes the ring
                last = [a for a in part if a.resseq == part[-1].resseq]
                f = {a.name: a for a in last}
                oxt = B.place(f["N"].xyz, f["CA"].xyz, f["C"].xyz, 1.25, 117.0, 60.0)
                part = part + [B.AtomRec("ATOM", 0, "OXT", "", f["C"].resname, cid, f["C"].resseq, "", float(oxt[0]), float(oxt[1]), float(oxt[2]), 1.0, 0.0, "O")]
            atoms += pre + part
            num += len(rres)
            # what the chain's first / last LISTED residue is, from the input alone (diagnosis of ring failures)
            kind_of_pos = lambda i: "unk" if i in unk else "std"
            first = "het" if ch.get("pre") else kind_of_pos(0)
            last_ = "het" if any(e in ("wat", "lig") for e in ch.get("extras", [])) else ("std" if ch.get("tail") else kind_of_pos(len(rres) - 1))
            for i, nm in enumerate(rnames):
                expect.append({"name": unk[i][0] if i in unk else nm, "role": "X" if i in unk else "cyc", "chain": k, "ends": f"{first}/{last_}"})
            if ch.get("tail"):
                part = B.build_peptide(ch["tail"], chain=cid, start=num, origin=(14.0, y0 + 9.0, 6.0), relax=False)
                atoms += part
                expect += [{"name": nm, "role": "X", "chain": k} for nm in ch["tail"]]
                num += len(ch["tail"])
        elif kind == "na":
            part = B.build_strand(ch["seq"], chain=cid, start=num, rna=ch.get("rna", False), origin=(0.0, y0, 0.0))
            atoms += part
            n = len(ch["seq"])
            for i, nm in enumerate(ch["seq"]):
                role = "53" if n == 1 else ("5" if i == 0 else ("3" if i == n - 1 else "NI"))
                expect.append({"name": ("R" if ch.get("rna") else "D") + nm, "role": role, "chain": k, "strand": f"{k}.0"})
            num += n
        elif kind == "multi":
            # several polymers under ONE chain id, no TER between them: the only end markers are the atoms
            # set_termini looks for (OXT on a peptide's last residue, H3T on a strand's last nucleotide)
            for s, pt in enumerate(ch["parts"]):
                org = (0.0, y0 + 11.0 * s, 5.0 * s)
                if "pep" in pt:
                    seq = pt["pep"]
                    part = B.build_peptide(seq, chain=cid, start=num, origin=org, relax=False)
                    for i, nm in enumerate(seq):
                        role = "NC" if len(seq) == 1 else ("N" if i == 0 else ("C" if i == len(seq) - 1 else "I"))
                        expect.append({"name": nm, "role": role, "chain": k})
                else:
                    seq, rna = pt["na"], pt.get("rna", False)
                    part = B.build_strand(seq, chain=cid, start=num, rna=rna, hydrogens=True, origin=org, resnames=pt.get("resnames", "pdb"))
                    n = len(seq)
                    for i, nm in enumerate(seq):
                        role = "53" if n == 1 else ("5" if i == 0 else ("3" if i == n - 1 else "NI"))
                        expect.append({"name": ("R" if rna else "D") + nm, "role": role, "chain": k, "strand": f"{k}.{s}"})
                atoms += part
                num += len(seq) + ch.get("gap", 0)
        for ex in ch.get("extras", []):
            if ex == "wat":
                w = B.waters(1, around=atoms, chain=cid, start=num + 5)
                atoms += w
                expect.append({"name": "HOH", "role": "W", "chain": k})
                num += 6
            elif ex in ("lig", "NME", "NH2"):
                base = atoms[-1].xyz if atoms else [0.0, 0.0, 0.0]
                names = {"lig": ["C1", "O1", "N1"], "NME": ["N", "CH3"], "NH2": ["N"]}[ex]
                rn = {"lig": "LIG", "NME": "NME", "NH2": "NH2"}[ex]
                for j, an in enumerate(names):
                    atoms.append(B.AtomRec("HETATM", 0, an, "", rn, cid, num + 1, "", float(base[0]) + 3.0 + 1.4 * j, float(base[1]) + 3.0, float(base[2]) + 3.0, 1.0, 0.0, an[0]))
                expect.append({"name": rn, "role": "X", "chain": k})
                num += 2
    for k, ch in enumerate(spec):  # a cap stops the C-terminus search: no statement about that chain's last residues
        if any(x in ("NME", "NH2") for x in ch.get("extras", [])):
            for e in expect:
                if e["chain"] == k and e["role"] in ("C", "NC", "3", "53"):
                    e["role"] = "X"
    return B.reserial(atoms), expect


TER_STYLES = ["full", "bare", "blanks", "serial", "short", "wide"]


def restyle_ter(line, style):
    """The same chain separator in another spelling: any line starting with TER ends a chain."""
    if style == "bare":
        return "TER"
    if style == "blanks":
        return "TER" + " " * 77
    if style == "serial":
        return line[:11]
    if style == "short":  # wrong width / justification inside the record's own columns (the record name stays "TER   ")
        return "TER   " + line[6:11].strip() + " " + line[17:20]
    if style == "wide":
        return line.rstrip() + "   END OF CHAIN"
    return line


def pdb_text(spec, ter=True, ter_style=None):
    """ter: True / False, or a list of booleans = which of the TER records (one per chain with polymer records,
    in file order) are kept.  Returns (text, expect) with expect adjusted to the INPUT's own chain ends."""
    from harness import builder as B

    atoms, expect = build_layout(spec)
    per = [[] for _ in spec]
    res = B.residues_of(atoms)
    assert len(res) == len(expect), (len(res), len(expect))
    for r, e in zip(res, expect):
        per[e["chain"]] += r
    mask = ter if isinstance(ter, list) else None
    text = B.to_pdb([c for c in per if c], ter=True if mask is not None else ter, hetatm_for=("HOH", "LIG", "NME", "NH2"))
    if mask is not None or ter_style:
        out, k = [], 0
        for ln in text.splitlines():
            if ln.startswith("TER"):
                keep = True if mask is None else (mask[k] if k < len(mask) else True)
                st = ter_style if isinstance(ter_style, str) else (ter_style[k % len(ter_style)] if ter_style else "full")
                k += 1
                if not keep:
                    continue
                ln = restyle_ter(ln, st)
            out.append(ln)
        text = "\n".join(out) + "\n"
    return text, apply_input_rules(spec, expect, ter)


def end_marker(ch):
    """Does the last polymer residue of this spec chain carry the atom set_termini takes as a chain end?"""
    t = ch["type"]
    if t == "pep":
        return ch.get("oxt", True)
    if t == "cyc":
        return bool(ch.get("oxt")) if not ch.get("tail") else True
    if t == "multi":
        return True  # peptide parts end in OXT, hydrogenated strands in H3T
    return False  # heavy-atom strand: nothing marks its 3' end


def apply_input_rules(spec, expect, ter):
    """The harness' own notion of chain ends, from the INPUT only: a TER record ends a chain, a change of the
    chain-ID column ends a chain, OXT / H3T ends a chain.  Two neighbouring spec chains with the SAME id column
    (e.g. both blank), NO TER between them and NO end marker are ONE chain by the reader's rules: the roles of the
    two joined residues become internal.  Joins the table cannot describe (peptide-nucleotide) lose their roles."""
    n = len(spec)
    mask = ter if isinstance(ter, list) else [bool(ter)] * n
    mask = list(mask) + [True] * (n - len(mask))
    exp = [dict(e) for e in expect]
    for k in range(n - 1):
        a, c = spec[k], spec[k + 1]
        if a["chain"].strip() != c["chain"].strip() or mask[k] or end_marker(a):
            continue
        ia = [i for i, e in enumerate(exp) if e["chain"] == k]
        ic = [i for i, e in enumerate(exp) if e["chain"] == k + 1]
        if a["type"] == c["type"] == "pep" and not a.get("extras"):
            la, fc = exp[ia[-1]], exp[ic[0]]
            la["role"] = {"C": "I", "NC": "N"}.get(la["role"], la["role"])
            fc["role"] = {"N": "I", "NC": "C"}.get(fc["role"], fc["role"])
        elif a["type"] == c["type"] == "na" and not a.get("extras"):
            la, fc = exp[ia[-1]], exp[ic[0]]
            la["role"] = {"3": "NI", "53": "5"}.get(la["role"], la["role"])
            fc["role"] = {"5": "NI", "53": "3"}.get(fc["role"], fc["role"])
            for i in ic:
                exp[i]["strand"] = la["strand"]
        else:
            for i in ia + ic:
                exp[i]["role"] = "X"
    return exp


def rand_seq(rng, n, pool=None):
    pool = pool or (AA20 + ["HIP", "ASH", "CYX", "LYN"])
    return [rng.choice(pool) for _ in range(n)]


def gen_layout(rng):
    nch = rng.choice([1, 1, 2, 2, 3, 4])
    ids = rng.sample("ABCDEFGXYZabq", nch)
    m = rng.random()
    if m < 0.25:  # chain-ID column blank everywhere
        ids = [" "] * nch
    elif m < 0.5:  # blank for some chains
        ids = [" " if rng.random() < 0.5 else c for c in ids]
    elif m < 0.56 and nch > 1:  # the same letter used again after a TER (finding C02-F2)
        ids[1] = ids[0]
    spec = []
    for kk, cid in enumerate(ids):
        r = rng.random()
        start = rng.choice([1, 1, -5, 95, 998, 0]) + 60 * kk
        if r < 0.55:
            nseg = rng.choice([1, 1, 1, 2, 2, 3])
            segs = [rand_seq(rng, rng.choice([1, 2, 2, 3, 4])) for _ in range(nseg)]
            ch = {"type": "pep", "chain": cid, "segments": segs, "start": start, "gap": rng.choice([0, 0, 3])}
            if rng.random() < 0.2 and len(segs[0]) >= 2:
                ch["unk"] = {str(rng.choice([0, -1, 1])): [rng.choice(["DAL", "XAA"]), rng.choice(["HETATM", "ATOM"])]}
            if rng.random() < 0.15:
                ch["oxt"] = False
            if rng.random() < 0.15:
                ch["icode"] = "A"
        elif r < 0.7:
            ch = {"type": "cyc", "chain": cid, "seq": rng.choice([["ALA", "GLY", "SER", "ALA", "GLY"], ["GLY", "ALA", "GLY", "LYS", "ALA"], ["ALA", "ALA", "GLY", "ALA", "SER", "GLY"]]), "start": start}
            ch["rot"] = rng.choice([0, 0, 1, 2, 3, 4])
            if rng.random() < 0.6:  # residues without a pdb2pqr definition at the first / last / a middle listed position
                ch["unk"] = {str(pos): [rng.choice(["DAL", "XAA", "MLE"]), rng.choice(["HETATM", "ATOM"])] for pos in rng.sample([0, -1, 2], rng.choice([1, 1, 2]))}
                if cid == " ":
                    ch["chain"] = cid = rng.choice("RSTUVW")
            if rng.random() < 0.2:
                ch["pre"] = [rng.choice(["wat", "lig"])]
        elif r < 0.82:
            parts = []
            for _ in range(rng.choice([2, 2, 3])):
                if rng.random() < 0.3:
                    parts.append({"pep": rand_seq(rng, rng.choice([1, 2, 3]))})
                else:
                    rna = rng.random() < 0.5
                    parts.append({"na": [rng.choice("ACG" + ("U" if rna else "T")) for _ in range(rng.choice([1, 2, 3]))], "rna": rna, "resnames": rng.choice(["pdb", "pdb", "template"])})
            ch = {"type": "multi", "chain": cid, "parts": parts, "start": start, "gap": rng.choice([0, 0, 2])}
        else:
            rna = rng.random() < 0.5
            ch = {"type": "na", "chain": cid, "seq": [rng.choice("ACG" + ("U" if rna else "T")) for _ in range(rng.choice([1, 2, 3, 4]))], "rna": rna, "start": start}
        ex = []
        for _ in range(rng.choice([0, 0, 0, 1, 1, 2])):
            ex.append(rng.choice(["wat", "wat", "lig", "NME", "NH2"]))
        ch["extras"] = ex
        spec.append(ch)
    t = rng.random()
    if t < 0.4:
        ter = True  # n TER records for n chains
    elif t < 0.5:
        ter = False  # none
    elif t < 0.65:
        ter = [True] * (nch - 1) + [False]  # n-1: none after the last chain
    elif t < 0.8:
        one = rng.randrange(nch)
        ter = [i == one for i in range(nch)]  # exactly one
    else:
        ter = [rng.random() < 0.5 for _ in range(nch)]
    lay = {"spec": spec, "ter": ter, "neutraln": rng.random() < 0.25, "neutralc": rng.random() < 0.25}
    if rng.random() < 0.5:  # the TER records in other spellings
        lay["ter_style"] = [rng.choice(TER_STYLES) for _ in range(nch)]
    return lay


# ==================================================================================
# correspondence 2: set_termini


def kind_of(res):
    from pdb2pqr import aa, na

    if isinstance(res, aa.Amino):
        return "KAmino"
    if isinstance(res, na.Nucleic):
        return "KNucleic"
    if isinstance(res, aa.WAT):
        return "KWater"
    return "KOther"


def b(x):
    return "true" if x else "false"


def termini_case(lay):
    """(coq term, impl string) for one layout."""
    from harness import builder as B

    text, _ = pdb_text(lay["spec"], ter=lay["ter"], ter_style=lay.get("ter_style"))
    # the hidden-end markers (OXT; H3T or a residue name ending in 3) are read from the INPUT records, not from the
    # residue objects: an atom dropped or renamed while the residue is built shows up as a disagreement
    in_names, by_serial, key, in_where, nter, in_xyz = [], {}, None, [], 0, []
    for ln in text.splitlines():
        if ln.startswith(("ATOM", "HETATM")):
            k_ = (ln[17:20], ln[21], ln[22:27])
            if k_ != key:
                in_names.append((ln[17:20].strip(), set(), ln.startswith("ATOM")))
                in_where.append((ln[21], nter))  # chain-ID column, number of TER records before it
                in_xyz.append({})
                key = k_
            in_names[-1][1].add(ln[12:16].strip())
            if ln[12:16].strip() in ("N", "C"):
                in_xyz[-1][ln[12:16].strip()] = (float(ln[30:38]), float(ln[38:46]), float(ln[46:54]))
            by_serial[int(ln[6:11])] = len(in_names) - 1
        elif ln.startswith("TER"):
            key = None
            nter += 1
    sb = B.setup_biomolecule(text, termini=False)
    bio = sb["biomolecule"]
    rid = {id(r): i for i, r in enumerate(bio.residues)}
    # chain assembly, judged from the input alone: two consecutive polymer (ATOM-record) residues of the file are in
    # the same chain iff their chain-ID columns are equal and no TER record stands between them (HETATM groups listed
    # after a chain's TER under the chain's id are the usual PDB layout and are not judged)
    code_chain = {}
    for ci, ch in enumerate(bio.chains):
        for r in ch.residues:
            if r.atoms:
                code_chain[by_serial[r.atoms[0].serial]] = ci
    assembly = []
    poly = [i for i in range(len(in_names)) if in_names[i][2] and i in code_chain]
    for i, j in zip(poly, poly[1:]):
        same_in = in_where[i] == in_where[j]
        same_code = code_chain[i] == code_chain[j]
        if same_in != same_code:
            if same_code:
                cond = ("blank-id" if in_where[i][0] == " " and in_where[j][0] == " " else "same-id" if in_where[i][0] == in_where[j][0] else "different-id") + "-chains-merged" + ("-across-TER" if in_where[i][1] != in_where[j][1] else "")
            else:
                cond = "chain-split-without-TER-or-id-change"
            assembly.append((cond, in_names[i][0], in_names[j][0]))
    chains = []
    pos_n, pos_c = {}, {}
    for ch in bio.chains:
        ds = []
        for r in ch.residues:
            i = rid[id(r)]
            iname, inames, _ = in_names[by_serial[r.atoms[0].serial]]
            # backbone N / C presence and positions from the INPUT records (the ring-closure test reads them)
            hasn, hasc = "N" in inames, "C" in inames
            nh2 = False
            if "N" in r.map:
                nh2 = len([a for a in r.map["N"].bonds if a.name[0] != "H"]) > 1
            if hasn:
                pos_n[i] = in_xyz[by_serial[r.atoms[0].serial]]["N"]
            if hasc:
                pos_c[i] = in_xyz[by_serial[r.atoms[0].serial]]["C"]
            h3t = "H3T" in inames or iname.endswith("3")
            ds.append(f"mkrd {i} {kind_of(r)} {b(r.name in ('NH2', 'NME'))} {b('OXT' in inames)} {b(h3t)} {b(hasn)} {b(hasc)} {b(nh2)}")
        chains.append(f"({core.coq_string(ch.chain_id)}, {core.coq_list(ds)})")
    close = []
    for i, pn in pos_n.items():
        for j, pc in pos_c.items():
            if math.dist(pn, pc) < 1.35:  # the harness' own threshold (biomolecule.py: dist < 1.35)
                close.append(f"({i}, {j})")
    keys_ok = sorted(bio.chainmap.keys()) == sorted(c.chain_id for c in bio.chains)
    term = f"show_termini (termini (mkopts {b(lay['neutraln'])} {b(lay['neutralc'])}) (close_of {core.coq_list(close)}) {core.coq_list(chains)})"
    try:
        bio.set_termini(neutraln=lay["neutraln"], neutralc=lay["neutralc"])
        out = []
        for ch in bio.chains:
            rs = []
            for r in ch.residues:
                fl = "".join(str(int(bool(getattr(r, a, 0)))) for a in ("is_n_term", "is_c_term", "is5term", "is3term"))
                rs.append(f"{rid[id(r)]}:{fl}:{'+'.join(getattr(r, 'patches', []))}:{r.chain_id}")
            out.append(",".join(rs))
        impl = "|".join(out)
    except IndexError:
        impl = "IndexError"
    nsplit = len(bio.chains) - len(chains)
    return term, impl, {"assembly": assembly, "blank": sum(1 for w in in_where if w[0] == " "), "nter": nter, "chains": len(chains), "splits": nsplit, "cyclic": sum(1 for c in lay["spec"] if c["type"] == "cyc"), "keys_ok": keys_ok}


def corr_termini(ctx, n):
    lays = [gen_layout(ctx.rng) for _ in range(n)]
    # fixed layouts: the wrinkles
    lays[:0] = [
        {"spec": [{"type": "pep", "chain": "A", "segments": [["ALA", "GLY"], ["SER", "ALA", "LYS"]], "extras": []}], "ter": True, "neutraln": False, "neutralc": False},
        {"spec": [{"type": "pep", "chain": "A", "segments": [["ALA"]], "extras": []}, {"type": "pep", "chain": "B", "segments": [["PRO", "GLY"]], "extras": ["wat"]}], "ter": True, "neutraln": True, "neutralc": True},
        {"spec": [{"type": "cyc", "chain": "A", "seq": ["ALA", "GLY", "SER", "ALA", "GLY"], "extras": []}, {"type": "na", "chain": " ", "seq": ["A", "T"], "extras": []}], "ter": True, "neutraln": False, "neutralc": False},
        {"spec": [{"type": "pep", "chain": "A", "segments": [["ALA", "GLY", "ALA"]], "extras": ["NME"]}, {"type": "pep", "chain": " ", "segments": [["GLY", "ALA"]], "extras": ["lig"]}], "ter": False, "neutraln": False, "neutralc": False},
    ]
    lays[:0] = [
        {"spec": [{"type": "multi", "chain": "B", "parts": [{"na": ["A", "C", "G"]}, {"na": ["T", "A"]}], "extras": []}], "ter": True, "neutraln": False, "neutralc": False},
        {"spec": [{"type": "multi", "chain": " ", "parts": [{"na": ["G", "U"], "rna": True}, {"pep": ["ALA", "GLY", "SER"]}, {"na": ["C", "A", "U"], "rna": True}], "extras": ["wat"]}], "ter": False, "neutraln": False, "neutralc": False},
    ]
    R5 = ["ALA", "GLY", "SER", "ALA", "GLY"]
    lays[:0] = [
        {"spec": [{"type": "cyc", "chain": "A", "seq": R5, "unk": {"-1": ["DAL", "HETATM"]}, "extras": []}], "ter": False, "neutraln": False, "neutralc": False},
        {"spec": [{"type": "cyc", "chain": "A", "seq": R5, "rot": 2, "unk": {"0": ["XAA", "ATOM"]}, "extras": ["wat"]}, {"type": "cyc", "chain": "B", "seq": R5, "rot": 3, "extras": []}], "ter": True, "neutraln": False, "neutralc": False},
        {"spec": [{"type": "cyc", "chain": "A", "seq": R5, "pre": ["wat"], "unk": {"2": ["MLE", "HETATM"]}, "extras": []}, {"type": "pep", "chain": "B", "segments": [["ALA", "GLY", "SER", "LYS"]], "unk": {"-1": ["DAL", "HETATM"]}, "extras": []}], "ter": False, "neutraln": False, "neutralc": False},
    ]
    # the refutation witness of C02_termini_cyclic_after_split_refuted, replayed on the real code every run
    lays.insert(0, {"spec": [{"type": "cyc", "chain": "A", "seq": ["ALA", "GLY", "SER", "ALA", "GLY"], "oxt": True, "tail": ["GLY", "ALA"], "extras": []}], "ter": True, "neutraln": False, "neutralc": False})
    terms, impls, infos, kept = [], [], [], []
    for lay in lays:
        try:
            t, i, info = termini_case(lay)
        except Exception as e:  # builder/reader trouble is not this check's subject: count it
            ctx.count(f"termini:skipped-{type(e).__name__}")
            continue
        terms.append(t)
        impls.append(i)
        infos.append(info)
        kept.append(lay)
    try:
        res = core.run_cases("C02t", HEADER, terms, chunk=40)
    except core.CoqEvalError as e:
        ctx.broke("correspondence-broken", "set_termini: model evaluation failed", str(e))
        return False, []
    ok = True
    bad = []
    for lay, impl, model, info in zip(kept, impls, res, infos):
        ctx.cov["correspondence_cases"] += 1
        ctx.count(f"termini:chains={info['chains']}")
        if info["splits"]:
            ctx.count("termini:hidden-chain-end")
        if info["cyclic"]:
            ctx.count("termini:cyclic")
        if impl == "IndexError":
            ctx.count("termini:IndexError")
        if info["blank"]:
            ctx.count(f"termini:blank-ids,TER={min(info['nter'], 3)}{'+' if info['nter'] > 3 else ''}")
        ctx.evaluated(("assembly", core.sha(lay)), info["blank"] > 0 or isinstance(lay["ter"], list))
        for cond, a_, b_ in info["assembly"][:1]:
            ctx.fail({"site": "Biomolecule.__init__ chain assembly", "condition": cond}, f"input chain ends (TER / chain-ID change) not respected between {a_} and {b_}: {cond}", {"kind": "assembly", "layout": lay})
        if impl != model:
            ctx.cov["correspondence_disagreements"] += 1
            ok = False
            bad.append(lay)
            if len(bad) <= 3:
                ctx.broke("correspondence-broken", "Model.States.termini vs Biomolecule.set_termini", f"impl={impl[:600]} model={model[:600]}", {"kind": "termini", "layout": lay})
    if kept:
        ctx.sample({"termini_layout": kept[0]["spec"], "impl": impls[0], "model": res[0]})
    return ok, bad


# ==================================================================================
# end-to-end search with the independent table


def run_case(ctx, case):
    """Run the real pipeline on case = {spec, ter, ff, opts}.  Returns dict(res=[per residue], err, total, pqr_res)."""
    from harness import builder as B
    from pdb2pqr import biomolecule as pbio

    text, expect = pdb_text(case["spec"], ter=case.get("ter", True), ter_style=case.get("ter_style"))
    cap = {}
    orig = pbio.Biomolecule.apply_force_field

    def wrapped(self, ff_):
        hits, misses = orig(self, ff_)
        miss = {id(a) for a in misses}
        cap["res"] = [
            {"name": r.name, "ffname": getattr(r, "ffname", r.name), "charge": r.charge, "atoms": [a.name for a in r.atoms], "missing": [a.name for a in r.atoms if id(a) in miss],
             "exact": str(sum((Decimal(repr(a.ffcharge)) for a in r.atoms if a.ffcharge), Decimal(0))), "resseq": r.res_seq, "chain": r.chain_id,
             "serial0": r.atoms[0].serial if r.atoms else 10 ** 9}
            for r in self.residues
        ]
        cap["ff"] = ff_
        tot = 0
        for r in self.residues:  # exactly main.non_trivial's loop
            tot += r.charge
        cap["float_total"] = tot
        cap["exact_total"] = sum((Decimal(f"{r.charge:.4f}") for r in self.residues), Decimal(0))
        return hits, misses

    pbio.Biomolecule.apply_force_field = wrapped
    try:
        r = B.run_pdb2pqr(text, [f"--ff={case['ff']}", *case.get("opts", [])], workdir=ctx.scratch_dir())
    finally:
        pbio.Biomolecule.apply_force_field = orig
    out = {"expect": expect, "float_total": cap.get("float_total"), "exact_total": cap.get("exact_total"), "res": cap.get("res"), "ffobj": cap.get("ff"), "err": None if r["exc"] is None else f"{type(r['exc']).__name__}: {r['exc']}", "pqr": None}
    if r["pqr_text"] is not None and r["exc"] is None:
        rows = B.parse_pqr(r["pqr_text"])
        # group PQR lines by consecutive (resname, resseq)
        groups, key = [], None
        for row in rows:
            k = (row["resseq"], row["chain"], row["resname"])
            if k != key:
                groups.append([])
                key = k
            groups[-1].append(row)
        out["pqr"] = groups
    return out


_DEFN = {}


def state_atoms(name, observed):
    """Atoms of the state `name` per pdb2pqr's topology data (the pre-patched definition template of that name;
    alternatives of which the finished residue keeps one are left out).  Falls back to the observed atoms when the
    definitions have no template of that name (nucleotide end states in some versions)."""
    if "d" not in _DEFN:
        from harness import builder as B

        _DEFN["d"] = B.definitions()
    d = _DEFN["d"]
    if name == "WAT":
        return ["O", "H1", "H2"]
    if name not in d.map:
        return list(observed)
    skip = {"N+1", "C-1"}
    base = name[-3:]
    if base == "ASH":
        skip |= {"HD1", "HD2"}
    if base == "GLH":
        skip |= {"HE1", "HE2"}
    if name == "NPRO":
        skip |= {"H3"}
    alt = ({"HD1", "HD2"} if base == "ASH" else {"HE1", "HE2"} if base == "GLH" else set()) & set(observed)
    atoms = [a for a in d.map[name].map if a not in skip] + sorted(alt)  # the carboxyl hydrogen the residue kept
    if {"O1P", "O2P"} <= set(atoms) and {"OP1", "OP2"} & set(observed):
        atoms = [{"O1P": "OP1", "O2P": "OP2"}.get(a, a) for a in atoms]
    return atoms


def expected_states(e, opts, ff):
    """(names allowed, formal charge) of residue e from the harness' own table; None = no statement."""
    nm, role = e["name"], e["role"]
    nn, ncn = "--neutraln" in opts, "--neutralc" in opts
    if role == "W":
        return ["WAT"], 0
    if role == "X":
        return None
    if role in ("5", "3", "53", "NI"):
        suf = {"5": "5", "3": "3", "53": "53", "NI": ""}[role]
        return [nm + suf], None  # per-residue charge of strand ends is not integral; strands are summed
    cls = CLASS_OF[nm]
    bases = BASE_OF.get(nm, [nm])
    q = SIDE_Q.get(nm, 0)
    if role in ("N", "NC"):  # a one-residue chain is named as an N-terminus only (stated wrinkle)
        if nn and cls != "PRO":
            pre, q = "NEUTRAL-N", q
        else:
            pre, q = "N", q + 1
        if role == "NC":
            q += 0 if ncn else -1
    elif role == "C":
        pre, q = ("NEUTRAL-C", q) if ncn else ("C", q - 1)
    else:
        pre = ""
    return [pre + bs for bs in bases], q


def judge(ctx, case, out, stats):
    """Apply the independent oracle to one run; calls ctx.fail on violations."""
    ff, opts = case["ff"], case.get("opts", [])
    exp = out["expect"]
    res = out["res"]
    tag = {"ff": ff, "opts": opts, "spec": case["spec"], "ter": case.get("ter", True), "ter_style": case.get("ter_style")}
    if res is None:
        # ended before parameter assignment: not a charge question (C12's subject); count
        stats["no-assignment"] = stats.get("no-assignment", 0) + 1
        ctx.notes.append(f"run ended before apply_force_field: {out['err']} ({ff} {opts})")
        return
    if len(res) != len(exp):
        ctx.fail({"site": "Biomolecule residues", "condition": "residue-count", "ff": ff}, f"{len(exp)} residues built, {len(res)} after processing", tag)
        return
    # the code orders chains by (possibly re-assigned) chain id: bring its residues back into file order
    order = sorted(range(len(res)), key=lambda i: res[i]["serial0"])
    res = [res[i] for i in order]
    if out["pqr"] is not None and len(out["pqr"]) == len(order):
        out = dict(out, pqr=[out["pqr"][i] for i in order])
    ffobj = out["ffobj"]
    if out.get("float_total") is not None:
        stats["float_err_max"] = max(stats.get("float_err_max", 0.0), abs(Decimal(repr(float(out["float_total"]))) - out["exact_total"]))
    all_param = True
    formal_total = 0
    strand = {}
    reported = 0
    for k, (e, r) in enumerate(zip(exp, res)):
        es = expected_states(e, opts, ff)
        if es is None:
            all_param = False
            continue
        names, q = es
        # is the expected state parameterised for the atoms this residue ended with?  (independent of the code's naming)
        # judged on the atoms the EXPECTED state has by the topology data, not on the atoms the residue ended with: a
        # residue that received the wrong terminus patch carries extra atoms and must not pass as "unparameterised"
        ok_names = [n for n in names if all(ffobj.get_params(n, a)[0] is not None and ffobj.get_params(n, a)[1] is not None for a in state_atoms(n, r["atoms"]))]
        key = f"{ff}:{e['name']}:{e['role']}:{'+'.join(sorted(opts))}"
        if not ok_names:
            all_param = False
            stats["unparameterised"] = stats.get("unparameterised", 0) + 1
            ctx.evaluated(key, False)
            continue
        ctx.evaluated(key, True)
        if e["role"] in ("5", "3", "NI"):
            strand.setdefault(e.get("strand", e["chain"]), []).append((e, r))
        cond = None
        if r["ffname"] not in ok_names:
            cond = "wrong-state-name"
            what = f"{e['name']} at {e['role']} ({ff} {' '.join(opts)}) is named {r['ffname']}, expected {ok_names}"
        elif r["missing"]:
            cond = "atoms-unassigned"
            what = f"{r['ffname']} ({ff}): atoms {r['missing']} got no parameters although the state is parameterised"
        elif q is not None and (abs(Decimal(r["exact"]) - q) > Decimal("0.001") or abs(r["charge"] - q) > 1.5e-3):
            cond = "sum-off-formal"
            what = f"{r['ffname']} ({ff} {' '.join(opts)}): charge {r['exact']} (residue.charge {r['charge']}), formal charge {q}"
        if cond and e["role"] == "cyc":
            reported += 1
            ctx.fail({"site": "cyclic chain termini", "ff": ff, "condition": "terminus-on-cyclic-chain" if cond == "wrong-state-name" else cond, "ends": e.get("ends", "std/std")},
                     f"head-to-tail cyclic chain (first/last listed residue: {e.get('ends')}): " + what, dict(tag, residue=k))
        elif cond:
            reported += 1
            ctx.fail({"site": "residue state charge", "ff": ff, "state": r["ffname"] if cond != "wrong-state-name" else f"{e['name']}@{e['role']}", "condition": cond}, what, dict(tag, residue=k))
        if q is not None:
            formal_total += q
    # strands: -1 per phosphate
    for ch, items in strand.items():
        roles = [e["role"] for e, _ in items]
        if roles and roles[0] == "5" and roles[-1] == "3" and all(x == "NI" for x in roles[1:-1]):
            tot = sum(Decimal(r["exact"]) for _, r in items)
            nphos = sum(1 for _, r in items if "P" in r["atoms"])
            ctx.evaluated(f"{ff}:strand:{len(items)}:{items[0][0]['name'][0]}", True)
            if nphos != len(items) - 1 or abs(tot + nphos) > Decimal("0.001"):
                reported += 1
                ctx.fail({"site": "nucleic strand charge", "ff": ff, "condition": "not-minus-one-per-phosphate"}, f"strand of {len(items)} ({ff}): total {tot}, {nphos} phosphates", tag)
            formal_total += -nphos
    if out["err"] is not None:
        if all_param and not reported:  # an abort caused by a residue reported above is that residue's failure
            ctx.fail({"site": "main integrality guard", "ff": ff, "condition": "fully-parameterised-run-aborted"}, f"run aborted although every residue state is parameterised: {out['err'][:200]}", tag)
        else:
            stats["aborted-unparameterised"] = stats.get("aborted-unparameterised", 0) + 1
        return
    # PQR column sums per residue and in total
    if out["pqr"] is not None and all_param and not reported:
        groups = out["pqr"]
        if len(groups) == len(res):
            for k, (g, r, e) in enumerate(zip(groups, res, exp)):
                s = sum(Decimal(f"{row['charge']:.4f}") for row in g)
                if abs(s - Decimal(r["exact"])) > Decimal("0.00051") * max(1, len(g)):
                    ctx.fail({"site": "PQR charge column", "ff": ff, "condition": "column-sum-differs-from-assigned"}, f"PQR lines of residue {k} sum to {s}, assigned {r['exact']}", dict(tag, residue=k))
        tot = sum(Decimal(f"{row['charge']:.4f}") for g in groups for row in g)
        if abs(tot - formal_total) > Decimal("0.0011") + Decimal("0.00005") * sum(len(g) for g in groups):
            ctx.fail({"site": "PQR charge column", "ff": ff, "condition": "total-not-integer-sum"}, f"PQR total {tot}, sum of formal charges {formal_total}", tag)


def neutral_checks(ctx, results):
    """(a) metamorphic: PARSE --neutraln lowers the N-terminal residue by exactly 1 (PRO: unchanged), --neutralc raises
    the C-terminal one by exactly 1, nothing else moves; (b) the other force fields reject both options before any work."""
    from harness import builder as B

    base = {}
    for case, out in results:
        if case["ff"] == "PARSE" and not case.get("opts") and out["res"] and out["err"] is None:
            base[json.dumps(case["spec"], sort_keys=True)] = out
    for case, out in results:
        opts = case.get("opts", [])
        if case["ff"] != "PARSE" or not opts or not out["res"] or out["err"] is not None:
            continue
        ref = base.get(json.dumps(case["spec"], sort_keys=True))
        if ref is None or len(ref["res"]) != len(out["res"]):
            continue
        for k, (e, r0, r1) in enumerate(zip(out["expect"], ref["res"], out["res"])):
            if r0["missing"] or r1["missing"] or not r0["atoms"]:
                continue
            want = 0
            if e["role"] in ("N", "NC") and "--neutraln" in opts and CLASS_OF.get(e["name"]) != "PRO":
                want -= 1
            if e["role"] in ("C", "NC") and "--neutralc" in opts:
                want += 1
            d = Decimal(r1["exact"]) - Decimal(r0["exact"])
            ctx.evaluated(f"shift:{e['name']}:{e['role']}:{'+'.join(opts)}", want != 0)
            if d != want:
                ctx.fail({"site": "neutral terminus shift", "ff": "PARSE", "state": r1["ffname"], "condition": "shift-not-unit"}, f"{r0['ffname']} {r0['exact']} -> {r1['ffname']} {r1['exact']} under {opts}: shift {d}, expected {want}", {"ff": "PARSE", "opts": opts, "spec": case["spec"], "residue": k})
    text, _ = pdb_text([{"type": "pep", "chain": "A", "segments": [["ALA", "GLY", "SER"]], "extras": []}])
    for ff in FFS:
        if ff == "PARSE":
            continue
        for opt in ("--neutraln", "--neutralc"):
            r = B.run_pdb2pqr(text, [f"--ff={ff}", opt], workdir=ctx.scratch_dir())
            ctx.evaluated(f"reject:{ff}:{opt}", True)
            if r["exc"] is None or r["pqr_text"] is not None:
                ctx.fail({"site": "main.check_options", "ff": ff, "condition": "neutral-option-accepted"}, f"{opt} with --ff={ff} was not rejected", {"ff": ff, "opts": [opt], "spec": [{"type": "pep", "chain": "A", "segments": [["ALA", "GLY", "SER"]], "extras": []}]})


def triple_cases(rng, ffs, shift):
    names = AA20 + VARIANTS
    n = len(names)
    cases = []
    for k in range(n):
        seq = [names[k], names[(k + 11 + shift) % n], names[(k + 22 + 2 * shift) % n]]
        for ff in ffs:
            optsets = [[]]
            if ff == "PARSE":
                optsets += [["--neutraln"], ["--neutralc"], ["--neutraln", "--neutralc"]]
            for opts in optsets:
                cases.append({"spec": [{"type": "pep", "chain": "A", "segments": [seq], "extras": []}], "ff": ff, "opts": opts})
    return cases


def other_cases(rng, thorough):
    cases = []
    for ff in FFS:
        # strands
        for rna in (False, True):
            for n in ((2, 3, 5) if not thorough else (1, 2, 3, 4, 5, 8, 12)):
                seq = [rng.choice("ACG" + ("U" if rna else "T")) for _ in range(n)]
                cases.append({"spec": [{"type": "na", "chain": "B", "seq": seq, "rna": rna, "extras": []}], "ff": ff, "opts": []})
        # multi-chain, waters, hidden chain end, cyclic, single-residue chain
        cases.append({"spec": [{"type": "pep", "chain": "A", "segments": [["ALA", "LYS", "GLY"]], "extras": ["wat", "wat"]},
                               {"type": "pep", "chain": "B", "segments": [["SER", "ASP"]], "extras": []},
                               {"type": "pep", "chain": "C", "segments": [["GLY", "GLU", "ALA"]], "extras": ["wat"]}], "ff": ff, "opts": []})
        cases.append({"spec": [{"type": "pep", "chain": "A", "segments": [["ALA", "GLY", "SER"], ["GLY", "ARG", "ALA"]], "start": -3, "extras": []}], "ff": ff, "opts": []})
        cases.append({"spec": [{"type": "cyc", "chain": "A", "seq": ["ALA", "GLY", "SER", "ALA", "GLY"], "extras": []},
                               {"type": "pep", "chain": "B", "segments": [["GLY", "ALA"]], "extras": []}], "ff": ff, "opts": []})
        cases.append({"spec": [{"type": "pep", "chain": " ", "segments": [["THR", "ALA", "VAL"]], "start": 998, "extras": ["wat"]}], "ter": False, "ff": ff, "opts": []})
        # several polymers under one chain id (hydrogenated strands: H3T marks the hidden 3' ends): -1 per phosphate PER STRAND
        cases.append({"spec": [{"type": "multi", "chain": "B", "parts": [{"na": ["A", "C", "G"]}, {"na": ["T", "A"]}], "extras": []}], "ff": ff, "opts": []})
        cases.append({"spec": [{"type": "multi", "chain": "B", "parts": [{"na": ["G", "U"], "rna": True}, {"na": ["A", "C", "U"], "rna": True}, {"na": ["C", "G"], "rna": True}], "extras": []}], "ff": ff, "opts": []})
        cases.append({"spec": [{"type": "multi", "chain": " ", "parts": [{"pep": ["ALA", "GLY", "SER"]}, {"na": ["G", "C", "A"], "rna": True}, {"pep": ["LYS", "ALA"]}], "extras": []}], "ter": False, "ff": ff, "opts": []})
        if ff == "AMBER":  # the cyclic-after-split witness must not produce a PQR silently
            cases.append({"spec": [{"type": "cyc", "chain": "A", "seq": ["ALA", "GLY", "SER", "ALA", "GLY"], "oxt": True, "tail": ["GLY", "ALA"], "extras": []}], "ff": ff, "opts": []})
        # no OXT in the input (pdb2pqr rebuilds it): the chain end must still become a C-terminus
        cases.append({"spec": [{"type": "pep", "chain": "A", "segments": [["SER", "ALA", "GLY", "LEU"]], "oxt": False, "extras": []}], "ff": ff, "opts": []})
    return cases


def ring_cases():
    """Head-to-tail cyclic peptides (closure N-C < 1.35 A by construction) with residues pdb2pqr has no definition
    for at the first / last / a middle listed position, re-listed from other ring positions, with a water or ligand
    listed before / after under the ring's chain id, two rings in one file; a linear peptide with an unknown residue
    in the middle.  Expectation from the input alone: no terminus on any residue of a ring.  C02 only."""
    R5, R6 = ["ALA", "GLY", "SER", "ALA", "GLY"], ["ALA", "ALA", "GLY", "ALA", "SER", "GLY"]
    ring = lambda **kw: dict({"type": "cyc", "chain": "A", "seq": R5, "extras": []}, **kw)
    specs = [
        [ring(unk={"-1": ["DAL", "HETATM"]})],
        [ring(unk={"0": ["XAA", "ATOM"]})],
        [ring(unk={"2": ["MLE", "HETATM"]})],
        [ring(rot=2, unk={"-1": ["DAL", "ATOM"]})],
        [ring(rot=3)],
        [ring(extras=["wat"])],
        [ring(pre=["wat"])],
        [ring(extras=["lig"])],
        [ring(rot=1, unk={"0": ["DAL", "HETATM"]}), ring(chain="B", seq=R6, rot=4)],
        [{"type": "pep", "chain": "A", "segments": [["ALA", "GLY", "SER", "LYS"]], "unk": {"1": ["XAA", "HETATM"]}, "extras": []}],
    ]
    return [{"spec": sp, "ter": False, "ff": ff, "opts": []} for ff in FFS for sp in specs]


def blank_chain_cases():
    """Blank chain-ID column with 0 / 1 / n-1 / n TER records (used by C02 only: the code re-letters and re-orders
    these chains, judge() re-aligns residues by input serial).  Roles come from the input (apply_input_rules)."""
    cases = []
    for ff in FFS:
        # blank chain-ID column with 0 / 1 / n-1 / n TER records; roles come from the input (apply_input_rules)
        two = lambda oxt: [{"type": "pep", "chain": " ", "segments": [["ALA", "GLY", "SER"]], "oxt": oxt, "start": 1, "extras": []},
                           {"type": "pep", "chain": " ", "segments": [["GLY", "LYS"]], "oxt": oxt, "start": 11, "extras": []}]
        for oxt in (False, True):
            for ter in ([True, False], [True, True], [False, False]):
                cases.append({"spec": two(oxt), "ter": ter, "ff": ff, "opts": []})
        if ff in ("AMBER", "PARSE"):
            for st in TER_STYLES[1:]:
                cases.append({"spec": two(False), "ter": [True, True], "ter_style": st, "ff": ff, "opts": []})
            cases.append({"spec": two(False) + [{"type": "pep", "chain": " ", "segments": [["THR", "GLU"]], "oxt": False, "start": 21, "extras": []}], "ter": True, "ter_style": ["full", "bare", "serial"], "ff": ff, "opts": []})
        cases.append({"spec": [{"type": "pep", "chain": " ", "segments": [["SER", "ASP"]], "oxt": False, "start": 1, "extras": ["wat"]},
                               {"type": "pep", "chain": "A", "segments": [["GLY", "ALA", "LYS"]], "oxt": False, "start": 21, "extras": []},
                               {"type": "pep", "chain": " ", "segments": [["THR", "GLU"]], "oxt": False, "start": 41, "extras": ["wat"]}], "ter": [True, True, False], "ff": ff, "opts": []})
        cases.append({"spec": [{"type": "na", "chain": " ", "seq": ["A", "C", "G"], "start": 1, "extras": []},
                               {"type": "na", "chain": " ", "seq": ["T", "A"], "start": 11, "extras": []}], "ter": [True, False], "ff": ff, "opts": []})
    return cases


def search(ctx, volume, seeds=()):
    stats = {}
    cases = []
    shifts = [ctx.rng.randrange(0, 7)] if volume == 1 else list(range(0, 2 + volume))
    for sh in shifts:
        cases += triple_cases(ctx.rng, FFS, sh)
    cases += other_cases(ctx.rng, ctx.thorough or volume > 1)
    cases += blank_chain_cases()
    cases += ring_cases()
    for lay in seeds:  # layouts on which the termini correspondence disagreed
        for ff in ("AMBER", "PARSE"):
            opts = (["--neutraln"] if lay.get("neutraln") else []) + (["--neutralc"] if lay.get("neutralc") else [])
            cases.append({"spec": lay["spec"], "ter": lay.get("ter", True), "ter_style": lay.get("ter_style"), "ff": ff, "opts": opts if ff == "PARSE" else []})
    first = None
    cases_results = []
    for case in cases:
        try:
            out = run_case(ctx, case)
            cases_results.append((case, out))
        except Exception as e:  # builder trouble: count, do not judge
            ctx.count(f"e2e:skipped-{type(e).__name__}")
            continue
        ctx.count(f"e2e:{case['ff']}")
        judge(ctx, case, out, stats)
        if first is None and out["res"]:
            first = {"ff": case["ff"], "opts": case.get("opts", []), "residues": [(r["ffname"], r["exact"]) for r in out["res"]]}
    neutral_checks(ctx, cases_results)
    ferr = stats.pop("float_err_max", None)
    if ferr is not None:
        ctx.notes.append(f"max |float total handed to noninteger_charge - exact decimal total| over all runs: {float(ferr):.3e} (guard tolerance 1e-3)")
        if ferr > Decimal("1e-6"):
            ctx.fail({"site": "main total charge", "condition": "float-sum-error-above-1e-6"}, f"float summation error {ferr}", {"kind": "float"})
    for k, v in stats.items():
        ctx.count(f"e2e:{k}", v)
    if first:
        ctx.sample({"e2e": first})


def run(ctx):
    sys.path.insert(0, str(core.VERIF / "gen"))
    ctx.cov["rule"] = (
        "set_state: the whole descriptor space (class x input name x terminus flags x patch subsets x CYS/HIS atom and donor flags) and all 40 nucleotide descriptors; "
        "set_termini: built layouts (1-4 chains; peptides with 1-3 OXT-terminated segments = hidden chain ends, cyclic peptides, DNA/RNA strands, waters/ligand/NME/NH2 in chain, "
        "blank chain ids, TER on/off, negative/large numbering, gaps); end-to-end: 33 residue names x {N, internal, C} x 6 force fields (+ --neutraln/--neutralc for PARSE), strands, "
        "waters, multi-chain, hidden end, cyclic. Non-trivial = a residue whose expected state is parameterised in the force field; distinct by (ff, name, position, options)"
    )
    gen_ok = regenerate(ctx)
    ok = core.proof_stage(ctx, "C02", THEOREMS, []) if gen_ok else False
    if not gen_ok:
        ctx.obligations.extend(THEOREMS)
    from common import load_definition

    definition = load_definition()
    ok_s = corr_setstate(ctx, definition)
    ok_t, bad_lays = corr_termini(ctx, 1200 if ctx.thorough else 110)
    broken = not (ok and ok_s and ok_t)
    search(ctx, 4 if broken else (3 if ctx.thorough else 1), seeds=bad_lays[:10])
    ctx.sample({"obligation": "C02_state_charge_<ff>: forall state rows r, alternatives alt, resolve built (ar_ff r) alt = Some q -> |q - formal r| <= 1e-3"})
    ctx.trusted += [
        "generator gen/states.py: state enumeration, formal-charge table (cross-checked by proton counting against the definition templates), final atom sets from AA.xml/PATCHES.xml; gen/ff_tables.py (C01)",
        "modelled, not verified: aa.py/na.py set_state, Biomolecule.assign_termini/set_termini, main.py integrality guard; float summation and the 4-decimal rounding of Residue.charge (compared numerically)",
        "structure builder harness/builder.py (scaffolding); the harness' own cyclic threshold 1.35 A and formal-charge table",
    ]
    ctx.assumptions += [
        "states that no force field parameterises completely (e.g. one-residue chains, NCYM in AMBER) are outside the statement; their keys are listed as StatesFF_<ff>.skipped",
        "HIS input without a named tautomer may end as HID or HIE (chosen by the optimiser); both are accepted by the search",
    ]


def replay(ctx, data):
    case = data["case"]
    if case.get("kind") == "assembly":
        sys.path.insert(0, str(core.VERIF / "gen"))
        _, _, info = termini_case(case["layout"])
        print("replay:", "FAILS " + str(info["assembly"][:2]) if info["assembly"] else "passes")
        return 1 if info["assembly"] else 0
    if case.get("kind") in ("set_state", "nuc_state", "termini"):
        print("replay: correspondence case; re-run ./check C02 with the same seed")
        return 1
    sys.path.insert(0, str(core.VERIF / "gen"))
    before = len(ctx.failures) + sum(ctx.known_hits.values())
    out = run_case(ctx, {"spec": case["spec"], "ter": case.get("ter", True), "ter_style": case.get("ter_style"), "ff": case["ff"], "opts": case.get("opts", [])})
    judge(ctx, case, out, {})
    after = len(ctx.failures) + sum(ctx.known_hits.values())
    print("replay:", "FAILS" if after > before else "passes", "|", out["err"] or [(r["ffname"], r["exact"]) for r in (out["res"] or [])])
    return 1 if after > before else 0
