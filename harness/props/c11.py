"""C11 - runs are deterministic and independent of process history.

Level "other": Coq proof on a GENERATED dependency abstraction (survivors scan of
pdb2pqr/** -> Generated/Survivors.v; Model/History.v) + run-time snapshots tying
the scan's write column to the code + exploration of real histories and hash
seeds with byte comparison of the PQR files.
"""

import hashlib
import importlib
import importlib.util
import json
import logging
import os
import pkgutil
import subprocess
import sys
import types
from pathlib import Path

from harness import core

META = {
    "id": "C11",
    "level": "other",
    "technique": (
        "Coq proof (induction over histories) on a dependency abstraction generated from the source by an AST scan "
        "(objects that outlive a run, who writes them, what reaches the output; unordered iterations) + deep-hash "
        "snapshots of all pdb2pqr module/class/default state around real runs + A-B-A / A-fail-A histories in one "
        "process and fresh processes under several PYTHONHASHSEEDs with byte comparison + environment histories (same "
        "request from another working directory holding decoys named like every file the program probes, other "
        "HOME/LANG/LC_ALL/TZ/umask/clock, every variable the package consults) + run-time tie of the scan's "
        "file-system sites to traced accesses"
    ),
    "level_text": (
        "PARTIAL BY NATURE - proof on an abstraction + exploration, not a proof about Python. Proved in Coq for ALL histories "
        "(complete runs and crashed runs with arbitrary partial writes), all inputs and all entropy assignments (hash seed, "
        "addresses, clock): if every survivor is never written after import or never read towards the output and no unordered "
        "iteration / environment read (path resolved against the working directory, environment variable, locale, clock) "
        "reaches the output, the output of a run does not depend on the history NOR on the environment the process sits in "
        "(C11_environment_independence: the whole history replayed under another entropy assignment); the two boolean obligations "
        "are discharged by vm_compute on the tables regenerated from the tree on every run, and both are shown necessary. "
        "What the scan means (a run reads/writes only what the table says) is a hypothesis of the theorem: its write half is "
        "checked by snapshots around real successful and failing runs, its read half and interpreter-level nondeterminism "
        "(set order, id(), C extensions, third-party state e.g. PROPKA) are only explored by byte-comparing repeated runs. "
        "Environment sites: every file-system access in pdb2pqr/** is listed with the provenance of its path (fail-closed "
        "taint scan; the site list is tied to os.stat/open traces of real runs); which options carry paths and why 25 "
        "listed sites cannot reach the PQR bytes is REVIEWED text, not proof; the environment histories are exploration."
    ),
    "level_note": (
        "Trusted: Coq kernel+vm_compute; the AST scan gen/survivors.py (name-based alias analysis; validated by snapshots); the "
        "review list gen/survivors_reviewed.json (each entry a stated reason why a written survivor / set iteration cannot reach "
        "the PQR bytes, plus the list of path-carrying options); the snapshot hasher; the os/open tracer; the fixed set of "
        "structures/options/histories/seeds/environment factors explored."
    ),
    "design_ref": "DESIGN.md 4 C11",
}

THEOREMS = [
    "C11_history_independence",
    "C11_environment_independence",
    "C11_retry_after_crash",
    "C11_retry_after_crash_necessary",
    "C11_environment_obligation_necessary",
    "C11_nonvacuous_environment",
    "C11_generated_obligation",
    "C11_no_unordered_iteration",
    "C11_generated_history_independence",
    "C11_obligation_necessary",
    "C11_entropy_obligation_necessary",
    "C11_nonvacuous",
]
ALLOWED_AXIOMS = []

HEADER = "From Coq Require Import String List.\nFrom PV Require Import Model.History Generated.Survivors.\nImport ListNotations.\nOpen Scope string_scope.\n"

DATA = core.REPO / "tests" / "data"
if not DATA.is_dir():  # scratch copies of the package (sensitivity trials) carry no test data
    DATA = Path("/repo/tests/data")

# ok-run configurations: name -> (structure, options)
OK_QUICK = {
    "1AJJ-amber": ("1AJJ.pdb", ["--ff=AMBER"]),
    "1A1P-parse-chain": ("1A1P.pdb", ["--ff=PARSE", "--keep-chain"]),
    "cterm-amber": ("cterm_hid.pdb", ["--ff=AMBER"]),
    "5vav-charmm-ws": ("5vav_cyclic_peptide.pdb", ["--ff=CHARMM", "--whitespace"]),
    "1AJJ-parse-noopt": ("1AJJ.pdb", ["--ff=PARSE", "--nodebump", "--noopt", "--drop-water"]),
    "1A1P-swanson-ffout": ("1A1P.pdb", ["--ff=SWANSON", "--ffout=AMBER"]),
    "1AJJ-propka4": ("1AJJ.pdb", ["--ff=PARSE", "--titration-state-method=propka", "--with-ph=4.0"]),
    "1QBS-ligand": ("1QBS.pdb", ["--ff=AMBER", "--ligand={DATA}/1QBS-ligand.mol2"]),
}
OK_THOROUGH = {
    "1AJJ-parse-neutral": ("1AJJ.pdb", ["--ff=PARSE", "--neutraln", "--neutralc"]),
    "cterm-propka9": ("cterm_hid.pdb", ["--ff=AMBER", "--titration-state-method=propka", "--with-ph=9.5"]),
    "5vav-peoepb": ("5vav_cyclic_peptide.pdb", ["--ff=PEOEPB"]),
    "1A1P-assign": ("1A1P.pdb", ["--ff=AMBER", "--clean"]),
    "1AJJ-userff": ("1AJJ.pdb", ["--userff={DATA}/custom-ff.dat", "--usernames={DATA}/custom.names"]),
    "1BX8-charmm": ("1BX8.pdb", ["--ff=CHARMM"]),
    "1US0-ligand": ("1US0.pdb", ["--ff=PARSE", "--ligand={DATA}/1US0-ligand.mol2"]),
    "1FAS-cif": ("1FAS.cif", ["--ff=AMBER"]),
}
# failing runs: name -> (structure or scratch name, options); scratch inputs are built by make_scratch_inputs
FAIL_QUICK = {
    "fail-missing-userff": ("1AJJ.pdb", ["--userff={SCRATCH}/nonexistent.dat", "--usernames={DATA}/custom.names"]),
    "fail-missing-ligand": ("1AJJ.pdb", ["--ff=AMBER", "--ligand={SCRATCH}/nonexistent.mol2"]),
    "fail-bad-ff": ("1AJJ.pdb", ["--ff=AMBER", "@ff=bogus"]),
    "fail-truncated-midline": ("{SCRATCH}/trunc.pdb", ["--ff=AMBER"]),
    "fail-truncated-residues": ("{SCRATCH}/trunc2.pdb", ["--ff=AMBER"]),
    "fail-late-charge-guard": ("1AJJ.pdb", ["--userff={SCRATCH}/badff.dat", "--usernames={DATA}/custom.names"]),
    "fail-option-check": ("1AJJ.pdb", ["--ff=AMBER", "--neutraln"]),
    "fail-assign-only-his": ("1AJJ.pdb", ["--ff=AMBER", "--assign-only"]),
}
FAIL_THOROUGH = {
    "fail-missing-input": ("{SCRATCH}/nonexistent_dir/zzzz.pdb", ["--ff=AMBER"]),
    "fail-ligand-not-in-structure": ("1AJJ.pdb", ["--ff=AMBER", "--ligand={DATA}/1QBS-ligand.mol2"]),
}
SEED_CONFIGS_QUICK = ["1AJJ-amber", "1AJJ-parse-noopt", "1A1P-parse-chain", "1A1P-swanson-ffout", "1QBS-ligand"]
SEEDS_QUICK = ["0", "1", "2", "3", "random"]
SEEDS_THOROUGH = ["0", "1", "2", "3", "4", "17", "random", "random"]


# ---------------------------------------------------------------------------
# generator


def load_generator():
    spec = importlib.util.spec_from_file_location("pv_gen_survivors", core.VERIF / "gen" / "survivors.py")
    mod = importlib.util.module_from_spec(spec)
    sys.modules["pv_gen_survivors"] = mod
    spec.loader.exec_module(mod)
    return mod


def regenerate(ctx):
    gen = load_generator()
    try:
        text, data = gen.generate(core.REPO)
    except gen.GenError as e:
        ctx.broke("generator-broken", "gen/survivors.py aborted (fail-closed)", str(e))
        return None
    core.write_if_changed(core.GEN / "Survivors.v", text)
    return data


def offenders(data):
    so = [s for s in data["survivors"] if s["written_after_import"] and s["flows_to_output"]]
    eo = [e for e in data["entropy_sites"] if e["flows_to_output"] and not e["neutralised"]]
    return so, eo


# ---------------------------------------------------------------------------
# deep-hash snapshots of everything that can outlive a run

SKIP_GLOBALS = {"__builtins__", "__cached__", "__file__", "__loader__", "__spec__", "__path__", "__package__", "__name__", "__doc__", "__warningregistry__", "__annotations__"}
SKIP_CLASS = {"__slotnames__", "__dict__", "__weakref__", "__doc__", "__module__", "__qualname__", "__annotations__", "__slots__", "__abstractmethods__", "_abc_impl", "__parameters__", "__orig_bases__", "__firstlineno__", "__static_attributes__"}


class Hasher:
    """Recursive, cycle-safe, type-aware structural hash (addresses never enter)."""

    def __init__(self):
        self.memo = {}
        self.stack = set()
        self.keep = []  # keep hashed objects alive so id()s stay unique during one snapshot

    def h(self, *parts):
        return hashlib.sha1("\x1f".join(parts).encode("utf-8", "replace")).hexdigest()[:20]

    def of(self, o, depth=0):
        if o is None or isinstance(o, (bool, int, float, complex, str, bytes)):
            return self.h(type(o).__name__, repr(o))
        i = id(o)
        if i in self.memo:
            return self.memo[i]
        if i in self.stack:
            return "cycle:" + type(o).__name__
        if depth > 80:
            return "deep:" + type(o).__name__
        self.stack.add(i)
        try:
            r = self._of(o, depth + 1)
        finally:
            self.stack.discard(i)
        self.memo[i] = r
        self.keep.append(o)
        return r

    def _of(self, o, d):
        if isinstance(o, types.ModuleType):
            return self.h("module", o.__name__)
        if isinstance(o, type):
            return self.h("class", o.__module__, o.__qualname__)
        if isinstance(o, (types.FunctionType, types.BuiltinFunctionType, types.MethodType, types.MethodDescriptorType, types.WrapperDescriptorType)):
            return self.h("func", getattr(o, "__module__", "") or "", getattr(o, "__qualname__", repr(type(o))))
        if isinstance(o, logging.Logger):
            return self.h("logger", o.name)
        if isinstance(o, (tuple, list)):
            return self.h(type(o).__name__, *[self.of(x, d) for x in o])
        if isinstance(o, dict):
            parts = [type(o).__name__]
            for k, v in list(o.items()):
                parts.append(self.of(k, d))
                parts.append(self.of(v, d))
            extra = getattr(o, "__dict__", None)
            if extra:
                parts.append(self.of(dict(extra), d))
            return self.h("dict", *parts)
        if isinstance(o, (set, frozenset)):
            return self.h(type(o).__name__, *sorted(self.of(x, d) for x in o))
        tn = type(o).__module__ + "." + type(o).__qualname__
        if tn in ("re.Pattern",):
            return self.h(tn, o.pattern, str(o.flags))
        if isinstance(o, os.PathLike):
            return self.h(tn, os.fspath(o))
        if tn == "numpy.ndarray":
            return self.h(tn, str(o.shape), str(o.dtype), hashlib.sha1(o.tobytes()).hexdigest())
        if tn.startswith(("_thread.", "threading.", "_io.", "io.", "weakref", "_weakref")):
            return self.h("opaque", tn)
        if tn == "functools._lru_cache_wrapper":
            return self.h(tn, getattr(o, "__qualname__", ""), str(o.cache_info().currsize))
        if isinstance(o, (staticmethod, classmethod)):
            return self.of(o.__func__, d)
        if isinstance(o, property):
            return self.h("property", self.of(o.fget, d), self.of(o.fset, d))
        parts = [tn]
        dct = getattr(o, "__dict__", None)
        if isinstance(dct, dict):
            for k, v in list(dct.items()):
                if k in ("lock", "_lock", "stream", "manager", "parent", "_cache"):
                    parts.append(k + ":" + type(v).__name__)
                else:
                    parts.append(k)
                    parts.append(self.of(v, d))
        for cls in type(o).__mro__:
            for sl in getattr(cls, "__slots__", ()) if isinstance(getattr(cls, "__slots__", ()), (tuple, list)) else ():
                if hasattr(o, sl):
                    parts.append(sl)
                    parts.append(self.of(getattr(o, sl), d))
        if dct is None and len(parts) == 1:
            r = repr(o)
            parts.append(r if " at 0x" not in r else "")
            try:
                it = iter(o) if tn.startswith("itertools.") else None
            except TypeError:
                it = None
            if it is not None:
                parts.append("iterator")
        return self.h("obj", *parts)


def import_all():
    import pdb2pqr

    for m in pkgutil.walk_packages(pdb2pqr.__path__, "pdb2pqr."):
        if m.name.endswith("__main__"):
            continue
        importlib.import_module(m.name)
    return pdb2pqr


def logger_state(H, lg, key, out):
    out[f"logger:{key}"] = H.h("loggercfg", str(lg.level), str(lg.propagate), str(lg.disabled), *[type(x).__qualname__ for x in lg.handlers], "|", *[type(x).__qualname__ for x in lg.filters])
    for kind, objs in (("filters", lg.filters), ("handlers", lg.handlers)):
        for n, x in enumerate(objs):
            out[f"logger:{key}.{kind}[{n}:{type(x).__module__}.{type(x).__qualname__}]"] = H.of(x)


def func_defaults(H, fn, key, out):
    fn = getattr(fn, "__wrapped__", fn) if not isinstance(fn, types.FunctionType) else fn
    if not isinstance(fn, types.FunctionType):
        return
    code = fn.__code__
    names = code.co_varnames[: code.co_argcount]
    dfl = fn.__defaults__ or ()
    for p, v in zip(names[len(names) - len(dfl) :], dfl):
        out[f"{key}({p})"] = H.of(v)
    for p, v in (fn.__kwdefaults__ or {}).items():
        out[f"{key}({p})"] = H.of(v)
    if fn.__dict__:
        out[f"{key}.__dict__"] = H.of({k: v for k, v in fn.__dict__.items() if k != "__wrapped__"})


def class_state(H, cls, key, out, seen):
    if cls in seen:
        return
    seen.add(cls)
    for a, v in list(vars(cls).items()):
        if a in SKIP_CLASS:
            continue
        raw = v.__func__ if isinstance(v, (staticmethod, classmethod)) else v
        if isinstance(raw, types.FunctionType):
            out[f"{key}.{a}"] = H.h("func", raw.__module__, raw.__qualname__)
            func_defaults(H, raw, f"{key}.{a}", out)
        elif isinstance(raw, property):
            out[f"{key}.{a}"] = H.of(raw)
        elif isinstance(raw, type) and raw.__module__ == cls.__module__ and raw.__qualname__.startswith(cls.__qualname__ + "."):
            class_state(H, raw, f"{key}.{a}", out, seen)
        elif type(raw).__name__ == "_lru_cache_wrapper":
            out[f"{key}.{a}@cache"] = H.of(raw)
        else:
            out[f"{key}.{a}"] = H.of(v)


def snapshot():
    """key -> structural hash, for every place state can survive a run."""
    H = Hasher()
    out = {}
    seen = set()
    for mname in sorted(n for n in sys.modules if n == "pdb2pqr" or n.startswith("pdb2pqr.")):
        mod = sys.modules[mname]
        if mod is None:
            continue
        for name, v in list(vars(mod).items()):
            if name in SKIP_GLOBALS:
                continue
            key = f"{mname}.{name}"
            if isinstance(v, type):
                if v.__module__ == mname and v.__qualname__ == name:
                    out[key] = H.h("class-defined-here")
                    class_state(H, v, key, out, seen)
                else:
                    out[key] = H.of(v)
            elif isinstance(v, types.FunctionType):
                out[key] = H.of(v)
                if v.__module__ == mname:
                    func_defaults(H, v, key, out)
            elif type(v).__name__ == "_lru_cache_wrapper":
                out[key + "@cache"] = H.of(v)
                func_defaults(H, v, key, out)
            elif isinstance(v, logging.Logger):
                out[key] = H.of(v)
                logger_state(H, v, key, out)
            else:
                out[key] = H.of(v)
    logger_state(H, logging.getLogger(), "root", out)
    for lname, lg in sorted(logging.root.manager.loggerDict.items()):
        if isinstance(lg, logging.Logger) and (lname.startswith("pdb2pqr") or lname.startswith("PDB2PQR")):
            logger_state(H, lg, "name=" + lname, out)
    import random
    import warnings

    out["process:os.environ"] = H.of(dict(os.environ))
    out["process:sys.path"] = H.of(list(sys.path))
    out["process:sys.argv"] = H.of(list(sys.argv))
    out["process:os.cwd"] = H.of(os.getcwd())
    out["process:sys.recursionlimit"] = H.of(sys.getrecursionlimit())
    out["process:random.state"] = H.of(random.getstate())
    out["process:warnings.filters"] = H.h(*[repr(f) for f in warnings.filters])
    out["process:logging.root"] = H.h(str(logging.root.manager.disable), str(logging._warnings_showwarning is not None), type(logging.getLoggerClass()).__name__)
    if "numpy" in sys.modules:
        import numpy

        out["process:numpy.random.state"] = H.of(tuple(str(x) if not hasattr(x, "tobytes") else hashlib.sha1(x.tobytes()).hexdigest() for x in numpy.random.get_state()))
        out["process:numpy.printoptions"] = H.of(repr(sorted(numpy.get_printoptions().items())))
    return out


def permitted(key, surv):
    """Is a change of snapshot `key` announced by the table?  -> (listed, written)"""
    if key in surv:
        return True, surv[key]["written_after_import"]
    # logger sub-keys: logger:<ref>, logger:<ref>.filters[n:Class]
    if key.startswith("logger:"):
        base = key[len("logger:") :]
        ref = base.split(".filters[")[0].split(".handlers[")[0]
        if ref.startswith("name="):
            # same loggers seen through the logging manager: covered by the per-variable keys
            return True, True
        if ".filters[" in base or ".handlers[" in base:
            cls = base.split("[", 1)[1].split(":", 1)[1].rstrip("]")
            meth = "addFilter" if ".filters[" in base else "addHandler"
            cands = [s for sid, s in surv.items() if sid.startswith(f"logger:{ref}.{meth}[") and (s.get("instance_of") or "").split(".")[-1] == cls.split(".")[-1]]
            if cands:
                return True, any(s["written_after_import"] for s in cands)
            return False, False
        s = surv.get(f"logger:{ref}")
        if s:
            return True, s["written_after_import"]
        return False, False
    return False, False


# ---------------------------------------------------------------------------
# running pdb2pqr


def make_scratch_inputs(d: Path):
    lines = (DATA / "1AJJ.pdb").read_text().splitlines(True)
    atoms = [i for i, l in enumerate(lines) if l.startswith("ATOM")]
    (d / "trunc.pdb").write_text("".join(lines[: atoms[100]]) + lines[atoms[100]][:40])
    (d / "trunc2.pdb").write_text("".join(lines[: atoms[57]]))
    ff = (DATA / "custom-ff.dat").read_text().splitlines(True)
    for i, l in enumerate(ff):
        w = l.split()
        if len(w) >= 4 and w[0] == "ALA" and w[1] == "CA":
            ff[i] = l.replace(w[2], "%.4f" % (float(w[2]) + 0.3), 1)
            break
    (d / "badff.dat").write_text("".join(ff))


def expand(cfg, scratch: Path):
    struct, opts = cfg
    sub = lambda s: s.replace("{DATA}", str(DATA)).replace("{SCRATCH}", str(scratch))  # noqa: E731
    struct = sub(struct)
    if "/" not in struct:
        struct = str(DATA / struct)
    post = {}
    out = []
    for o in opts:
        if o.startswith("@"):
            k, v = o[1:].split("=", 1)
            post[k] = v
        else:
            out.append(sub(o))
    return struct, out, post


def run_inproc(cfg, scratch: Path, tag: str):
    """One run through the programmatic entry point. -> (bytes|None, error string|None)"""
    from pdb2pqr import main as pmain

    struct, opts, post = expand(cfg, scratch)
    outp = scratch / f"out_{tag}.pqr"
    if outp.exists():
        outp.unlink()
    try:
        args = pmain.build_main_parser().parse_args([*opts, struct, str(outp)])
        for k, v in post.items():
            setattr(args, k, v)
        pmain.main_driver(args)
        err = None
    except BaseException as e:  # noqa: BLE001 - SystemExit from argparse included
        if isinstance(e, KeyboardInterrupt):
            raise
        err = f"{type(e).__name__}: {str(e)[:120]}"
    data = outp.read_bytes() if outp.exists() else None
    for f in scratch.glob(f"out_{tag}.*"):
        f.unlink()
    return data, err


CHILD = "import sys; from harness.props import c11; c11.child_main(sys.argv[1])"


def child_main(spec_json):
    """Fresh-process run (own PYTHONHASHSEED): prints one JSON line."""
    logging.getLogger().addHandler(logging.NullHandler())
    logging.getLogger().setLevel(logging.ERROR)
    spec = json.loads(spec_json)
    scratch = Path(spec["scratch"])
    import_all()
    st = snapshot()
    imp = hashlib.sha1(json.dumps({k: v for k, v in sorted(st.items()) if not k.startswith("process:")}).encode()).hexdigest()
    from pdb2pqr import main as pmain

    struct, opts, post = expand((spec["cfg"][0], spec["cfg"][1]), scratch)
    outp = Path(spec["out"])
    if spec.get("umask") is not None:
        os.umask(int(spec["umask"]))
    try:
        with shifted_clock(spec["shift"]) if spec.get("shift") else contextlib.nullcontext():
            args = pmain.build_main_parser().parse_args([*opts, struct, str(outp)])
            for k, v in post.items():
                setattr(args, k, v)
            pmain.main_driver(args)
        err = None
    except BaseException as e:  # noqa: BLE001
        err = f"{type(e).__name__}: {str(e)[:120]}"
    import locale as _loc
    import time as _time

    print("C11CHILD " + json.dumps({"err": err, "import_state": imp, "hashseed": os.environ.get("PYTHONHASHSEED"), "probe": hash("pdb2pqr") % 1000, "cwd": os.getcwd(), "encoding": _loc.getpreferredencoding(False), "tz": _time.tzname[0]}))


def run_children(jobs, scratch: Path, maxpar=10, env_of=None):
    """jobs: [(name, cfg, seed, ...)] -> {(name, k): (bytes|None, info)}; k = job index.
    env_of(job) -> (env updates, cwd, umask, clock shift) dresses the child's environment."""
    res = {}
    for i in range(0, len(jobs), maxpar):
        procs = []
        for k, job in enumerate(jobs[i : i + maxpar], start=i):
            name, cfg, seed = job[0], job[1], job[2]
            outp = scratch / f"child_{k}.pqr"
            env = dict(os.environ)
            env["PYTHONHASHSEED"] = seed
            env["PYTHONPATH"] = f"{core.REPO}:{core.VERIF}"
            env["PYTHONDONTWRITEBYTECODE"] = "1"
            sp = {"cfg": [cfg[0], cfg[1]], "scratch": str(scratch), "out": str(outp)}
            cwd = str(scratch)
            if env_of is not None:
                upd, cwd2, um, shift = env_of(job)
                env.update(upd)
                cwd = cwd2 or cwd
                sp["umask"], sp["shift"] = um, shift
            spec = json.dumps(sp)
            p = subprocess.Popen([sys.executable, "-c", CHILD, spec], env=env, stdout=subprocess.PIPE, stderr=subprocess.PIPE, text=True, cwd=cwd)
            procs.append((k, name, seed, outp, p))
        for k, name, seed, outp, p in procs:
            try:
                so, se = p.communicate(timeout=600)
            except subprocess.TimeoutExpired:
                p.kill()
                so, se = "", "timeout"
            info = None
            for ln in so.splitlines():
                if ln.startswith("C11CHILD "):
                    info = json.loads(ln[9:])
            if info is None:
                info = {"err": f"child died rc={p.returncode}: {se[-300:]}", "import_state": None, "died": True}
            data = outp.read_bytes() if outp.exists() else None
            if outp.exists():
                outp.unlink()
            res[(name, k)] = (data, info, seed)
    return res


# ---------------------------------------------------------------------------
# environment: tracing what the program looks up, decoys, moved / re-dressed processes

import builtins  # noqa: E402
import contextlib  # noqa: E402
import re as _re  # noqa: E402
import shutil  # noqa: E402
import sysconfig  # noqa: E402

_STDLIBS = tuple({sysconfig.get_paths()["stdlib"], os.path.realpath(sysconfig.get_paths()["stdlib"]), os.path.dirname(os.__file__)})
_PKG = os.path.realpath(str(core.REPO / "pdb2pqr"))
_PKGS = tuple({_PKG + os.sep, str(core.REPO / "pdb2pqr") + os.sep})
_SELF = (__file__, os.path.realpath(__file__), os.path.abspath(__file__))
_AUDIT = {"on": False, "sink": None}


def _audit_hook(event, args):
    if _AUDIT["on"] and event == "open" and args and isinstance(args[0], (str, bytes, os.PathLike)):
        _AUDIT["sink"]("open", args[0], 3)


class Trace:
    """Records every path probed (open / stat family / listdir) and every environment
    variable consulted while active, with the package frame that asked."""

    installed = False

    def __init__(self):
        self.probes = {}  # path string -> set of (kind, who)
        self.envvars = {}  # name -> who
        self._saved = []
        self._busy = False

    def _who(self, depth):
        # no file-system call in here: the stat family is patched while a trace is active
        f = sys._getframe(depth)
        hops = 0
        while f is not None and hops < 60:
            fn = f.f_code.co_filename
            if fn in _SELF:
                return "harness"
            if (fn.startswith(_STDLIBS) and "site-packages" not in fn) or fn.startswith("<"):
                f = f.f_back
                hops += 1
                continue
            for pre in _PKGS:
                if fn.startswith(pre):
                    return f"pdb2pqr/{fn[len(pre):]}:{f.f_lineno}"
            return "third-party:" + "/".join(fn.split(os.sep)[-2:])
        return "?"

    def note(self, kind, path, depth):
        if self._busy:
            return
        self._busy = True
        try:
            sp = os.fsdecode(os.fspath(path))
            who = self._who(depth)
            if who != "harness":
                self.probes.setdefault(sp, set()).add((kind, who))
        except TypeError:
            pass
        finally:
            self._busy = False

    def __enter__(self):
        if not Trace.installed:
            sys.addaudithook(_audit_hook)
            Trace.installed = True
        _AUDIT["sink"] = self.note
        _AUDIT["on"] = True
        tr = self

        def wrap(mod, name, kind):
            orig = getattr(mod, name)

            def f(path, *a, **k):
                if not isinstance(path, int):
                    tr.note(kind, path, 3)
                return orig(path, *a, **k)

            f.__wrapped__ = orig
            setattr(mod, name, f)
            self._saved.append((mod, name, orig))

        for nm in ("stat", "lstat", "access", "listdir", "scandir"):
            wrap(os, nm, nm)
        env_cls = type(os.environ)
        og = env_cls.__getitem__

        def getitem(self_, key):
            who = tr._who(2)
            if who.startswith("pdb2pqr/"):
                tr.envvars.setdefault(str(key), who)
            return og(self_, key)

        env_cls.__getitem__ = getitem
        self._saved.append((env_cls, "__getitem__", og))
        return self

    def __exit__(self, *a):
        _AUDIT["on"] = False
        for mod, name, orig in reversed(self._saved):
            setattr(mod, name, orig)
        self._saved = []


def decoy_names(probes, scratch: Path):
    """Every relative or bare name the program probed, plus the bare names of what it
    probed inside its own package directory (hits and misses)."""
    names = {}
    datdir = os.path.join(_PKG, "dat")
    for sp in probes:
        if sp in ("", ".", ".."):
            continue
        if not os.path.isabs(sp):
            names[sp] = "relative path probed"
            continue
        rp = os.path.realpath(sp)
        if rp.startswith(_PKG + os.sep) and not rp.endswith((".py", ".pyc")) and "__pycache__" not in rp and os.path.realpath(os.path.dirname(rp)) != os.path.realpath(str(scratch)):
            if os.path.isdir(rp):
                continue
            names.setdefault(os.path.basename(rp), "bare name of a package-directory lookup")
    # the data files themselves, whatever was probed
    if os.path.isdir(datdir):
        for fn in sorted(os.listdir(datdir)):
            names.setdefault(fn, "name of a file under pdb2pqr/dat")
    return names


_FLOAT = _re.compile(r"(?<![\w.])(-?\d+\.\d+)(?![\w.])")


def altered_copy(real: Path) -> bytes:
    """The real file with EVERY decimal number nudged (x -> 1.03*x + 0.017, same number of
    decimals): still well-formed, but any output computed from it differs - the decoy wins
    SILENTLY. (The second decoy directory holds the same names with garbage content: a run
    that reads any of them fails.)"""
    txt = real.read_bytes().decode("latin-1")
    if real.suffix.lower() == ".dat":
        # force-field table "RES ATOM charge radius [group]": only the RADIUS moves (non-integral total
        # charges would trip the program's own charge guard - the decoy is meant to win silently)
        out = []
        for line in txt.splitlines(True):
            tok = _re.split(r"(\s+)", line)
            idx = [i for i, t in enumerate(tok) if t and not t.isspace()]
            if len(idx) >= 4 and not line.startswith("#"):
                try:
                    float(tok[idx[2]])
                    r = float(tok[idx[3]])
                    tok[idx[3]] = f"{r * 1.03 + 0.017:.4f}"
                except ValueError:
                    pass
            out.append("".join(tok))
        return "".join(out).encode("latin-1")

    def nudge(m):
        tok = m.group(1)
        dec = len(tok.split(".")[1])
        return f"{float(tok) * 1.03 + 0.017:.{dec}f}"

    new, n = _FLOAT.subn(nudge, txt)
    return new.encode("latin-1")  # a file without decimal numbers (the .names maps) is copied verbatim


def build_decoys(names, d: Path, garbage=False):
    datdir = Path(_PKG) / "dat"
    real = {p.name: p for p in datdir.iterdir() if p.is_file()} if datdir.is_dir() else {}
    made = []
    for sub in ("", "dat", "pdb2pqr/dat"):
        (d / sub).mkdir(parents=True, exist_ok=True)
    for name in sorted(names):
        base = os.path.basename(name)
        src = real.get(base)
        if src is None:
            cands = [p for n, p in sorted(real.items()) if n.lower() == base.lower()] or [p for n, p in sorted(real.items()) if n.lower().split(".")[0] == base.lower().split(".")[0] and (("." not in base) or n.lower().endswith(base.lower().rsplit(".", 1)[1]))]
            src = cands[0] if cands else None
        if not garbage and (src is None or src.name.lower() != base.lower()):
            continue  # the well-formed directory only holds look-alikes of files that exist (suffix-less guesses go to the garbage one)
        content = altered_copy(src) if not garbage else b"decoy file: not data\n"
        for sub in ("", "dat", "pdb2pqr/dat"):
            tgt = d / sub / name
            try:
                if tgt.resolve().is_relative_to(d.resolve()):
                    tgt.parent.mkdir(parents=True, exist_ok=True)
                    if not tgt.exists():
                        tgt.write_bytes(content)
            except OSError:
                continue
        made.append(name)
    return made


@contextlib.contextmanager
def shifted_clock(delta):
    """time.* and the datetime classes seen by pdb2pqr modules answer `delta` seconds later."""
    import datetime as _dt
    import time as _t

    saved = []

    def put(obj, name, val):
        saved.append((obj, name, getattr(obj, name)))
        setattr(obj, name, val)

    o_time, o_local, o_gm, o_strf, o_ctime, o_asc, o_ns = _t.time, _t.localtime, _t.gmtime, _t.strftime, _t.ctime, _t.asctime, _t.time_ns
    put(_t, "time", lambda: o_time() + delta)
    put(_t, "time_ns", lambda: o_ns() + int(delta * 1e9))
    put(_t, "localtime", lambda s=None: o_local(o_time() + delta if s is None else s))
    put(_t, "gmtime", lambda s=None: o_gm(o_time() + delta if s is None else s))
    put(_t, "strftime", lambda fmt, t=None: o_strf(fmt, o_local(o_time() + delta) if t is None else t))
    put(_t, "ctime", lambda s=None: o_ctime(o_time() + delta if s is None else s))
    put(_t, "asctime", lambda t=None: o_asc(o_local(o_time() + delta) if t is None else t))

    class SDateTime(_dt.datetime):
        @classmethod
        def now(cls, tz=None):
            return _dt.datetime.fromtimestamp(o_time() + delta, tz)

        @classmethod
        def today(cls):
            return _dt.datetime.fromtimestamp(o_time() + delta)

        @classmethod
        def utcnow(cls):
            return _dt.datetime.fromtimestamp(o_time() + delta, _dt.timezone.utc).replace(tzinfo=None)

    class SDate(_dt.date):
        @classmethod
        def today(cls):
            return _dt.date.fromtimestamp(o_time() + delta)

    for mname, mod in list(sys.modules.items()):
        if mod is not None and (mname == "pdb2pqr" or mname.startswith("pdb2pqr.")):
            for k, v in list(vars(mod).items()):
                if v is _dt.datetime:
                    put(mod, k, SDateTime)
                elif v is _dt.date:
                    put(mod, k, SDate)
    put(_dt, "datetime", SDateTime)
    put(_dt, "date", SDate)
    try:
        yield
    finally:
        for obj, name, val in reversed(saved):
            setattr(obj, name, val)


ENV_FACTORS_QUICK = ["cwd-decoys", "cwd-garbage", "home-decoys", "lang-C", "lc-all-posix-noutf8", "lang-latin1", "tz-kiritimati", "umask-077", "clock+400d", "consulted-vars", "everything"]
ENV_CONFIGS_QUICK = ["1AJJ-amber", "1A1P-swanson-ffout", "1QBS-ligand", "5vav-charmm-ws"]


def factor_setup(factor, decoy: Path, consulted):
    """-> (env updates, cwd or None, umask or None, clock shift seconds)"""
    env, cwd, um, shift = {}, None, None, 0
    parts = ENV_FACTORS_QUICK[:-1] if factor == "everything" else [factor]
    for f in parts:
        if f == "cwd-decoys":
            cwd = str(decoy)
        elif f == "cwd-garbage":
            cwd = cwd if factor == "everything" else str(decoy) + "_garbage"
        elif f == "home-decoys":
            env.update(HOME=str(decoy), XDG_CONFIG_HOME=str(decoy), XDG_DATA_HOME=str(decoy), USERPROFILE=str(decoy))
        elif f == "lang-C":
            env.update(LANG="C", LC_ALL="C", LANGUAGE="C")
        elif f == "lc-all-posix-noutf8":
            env.update(LC_ALL="POSIX", PYTHONUTF8="0", PYTHONCOERCECLOCALE="0")
        elif f == "lang-latin1":
            env.update(LANG="en_US.ISO-8859-1", LC_ALL="en_US.ISO-8859-1", LC_TIME="de_DE.UTF-8", LC_NUMERIC="de_DE.UTF-8")
        elif f == "tz-kiritimati":
            env.update(TZ="Pacific/Kiritimati")
        elif f == "umask-077":
            um = 0o077
        elif f == "clock+400d":
            shift = 400 * 86400 + 12345
        elif f == "consulted-vars":
            for v in consulted:
                env[v] = str(decoy)
            env.setdefault("PDB2PQR_HOME", str(decoy))
            env.setdefault("PDB2PQR_DATA", str(decoy))
    if factor == "everything":
        env.pop("LC_ALL", None)
        env.update(LANG="C", LC_ALL="C")
    return env, cwd, um, shift


def data_ascii_stage(ctx):
    """Review assumption behind the E_locale entries: package data files are 7-bit ASCII."""
    bad = []
    datdir = core.REPO / "pdb2pqr" / "dat"
    files = sorted(p for p in datdir.iterdir() if p.is_file()) if datdir.is_dir() else []
    for p in files:
        b = p.read_bytes()
        ctx.cov["correspondence_cases"] += 1
        if any(x >= 0x80 for x in b):
            bad.append(p.name)
    ctx.cov["env_data_ascii_files"] = len(files)
    if bad:
        ctx.cov["correspondence_disagreements"] += 1
        ctx.broke("correspondence-broken", "review assumption 'package data files are pure ASCII' (E_locale entries of gen/survivors_reviewed.json) vs pdb2pqr/dat", "non-ASCII bytes in: " + ", ".join(bad), {"kind": "data-ascii", "files": bad})
    return not bad


def fs_tie_stage(ctx, data, trace: Trace):
    """Every file-system access the traced runs made FROM a pdb2pqr source line must be a site the scan lists."""
    if not data:
        return
    listed = {}
    for x in data.get("fs_access_sites", []):
        fn, ln = x["where"].rsplit(":", 1)
        for k in range(int(ln), int(x.get("end_line", ln)) + 1):
            listed[(fn, k)] = x
    seen, third = {}, set()
    for sp, hits in trace.probes.items():
        for kind, who in hits:
            if who.startswith("pdb2pqr/"):
                seen.setdefault(who, []).append((kind, sp))
            elif who.startswith("third-party:"):
                third.add(who[12:])
    ctx.cov["fs_access_lines_seen_at_run_time"] = sorted(seen)
    ctx.cov["fs_access_third_party"] = sorted(third)
    for who in sorted(seen):
        fn, ln = who.rsplit(":", 1)
        ctx.cov["correspondence_cases"] += 1
        if (fn, int(ln)) not in listed:
            ctx.cov["correspondence_disagreements"] += 1
            kind, sp = seen[who][0]
            ctx.broke("correspondence-broken", f"gen/survivors.py file-system sites vs real run: {who} performs {kind}({sp!r}) but the scan lists no file-system access there", "the path-provenance scan missed an access site (unknown API?)", {"kind": "fs-tie", "site": who, "probe": sp})


def env_stage(ctx, data, configs, scratch: Path, base, trace: Trace):
    """The same request from another working directory full of decoys / under another environment."""
    names = decoy_names(trace.probes, scratch)
    decoy = scratch / "elsewhere"
    made = build_decoys(names, decoy)
    junk = scratch / "elsewhere_garbage"
    build_decoys(names, junk, garbage=True)
    consulted = sorted(trace.envvars)
    ctx.cov["env_decoy_names"] = made
    ctx.cov["env_relative_probes"] = sorted(n for n, why in names.items() if why == "relative path probed")
    ctx.cov["env_vars_consulted_by_pdb2pqr"] = {k: trace.envvars[k] for k in consulted}
    # (a) in this process: A (home), chdir, A, chdir back, A
    home = os.getcwd()
    for name in configs:
        if base.get(name) is None:
            continue
        outs = []
        for where, dd in (("elsewhere", decoy), ("garbage", junk)):
            try:
                os.chdir(dd)
                outs.append((where, run_inproc(configs[name], scratch, "e")))
            finally:
                os.chdir(home)
        outs.append(("back", run_inproc(configs[name], scratch, "e")))
        for where, (b, err) in outs:
            ctx.count(f"env:inproc-{where}")
            ctx.evaluated(("env-inproc", name, where), bool(base[name]) and base[name].count(b"ATOM") > 0)
            if b != base[name]:
                sig = signature("environment", configs[name], base[name], b)
                sig["factor"] = {"elsewhere": "cwd-decoys", "garbage": "cwd-garbage", "back": "after-chdir"}[where]
                ctx.fail(sig, f"{name}: the same request run with the process sitting in another directory (holding same-named decoy files: {', '.join(made[:6])}...) gives different PQR bytes: first difference in {sig['field']}" + (f" (run failed: {err})" if err else ""), {"kind": "environment", "mode": "inproc", "name": name, "cfg": list(configs[name]), "factor": sig["factor"], "decoys": made, "consulted": consulted, "history": ["run at home", "os.chdir(decoys)", "run", "os.chdir(garbage decoys)", "run", "os.chdir(home)", "run"]})
    # (b) fresh processes, one factor at a time and all together
    names_b = [n for n in (list(configs) if ctx.thorough else ENV_CONFIGS_QUICK) if n in configs]
    jobs = []
    for n in names_b:
        for fct in ENV_FACTORS_QUICK:
            jobs.append((n, configs[n], "0", fct))
    res = run_children(jobs, scratch, env_of=lambda job: factor_setup(job[3], decoy, consulted))
    for (name, k), (b, info, seed) in sorted(res.items(), key=lambda kv: kv[0][1]):
        fct = jobs[k][3]
        ctx.count(f"env:{fct}")
        if info.get("died"):
            ctx.broke("harness-error", f"child process for {name} under environment factor {fct} died", info["err"])
            continue
        ctx.evaluated(("env", name, fct), bool(b) and b.count(b"ATOM") > 0 and info.get("factor_applied", True))
        if b != base.get(name):
            sig = signature("environment", configs[name], base.get(name), b)
            sig["factor"] = fct
            ctx.fail(sig, f"{name}: a fresh process under environment factor '{fct}' gives different PQR bytes than the same request at home: first difference in {sig['field']}" + (f" (run failed: {info.get('err')})" if info.get("err") else ""), {"kind": "environment", "mode": "child", "name": name, "cfg": list(configs[name]), "factor": fct, "decoys": made, "consulted": consulted})
    ctx.cov["env_child_encodings_seen"] = sorted({str(i.get("encoding")) for (_, i, _) in res.values()})
    ctx.cov["env_child_timezones_seen"] = sorted({str(i.get("tz")) for (_, i, _) in res.values()})
    shutil.rmtree(decoy, ignore_errors=True)
    shutil.rmtree(junk, ignore_errors=True)


# ---------------------------------------------------------------------------
# histories that re-use the same input-file PATHS (user force field / names files)
#
# An event is ["write", file, content-id] (the file under the history's directory gets new
# content) or ["run", {"ff":..., "dat":..., "names":...}] (one main_driver run; "dat"/"names"
# are file names under the history's directory, "dat" may be "PKG:<file>" = the package's own
# data file handed in as --userff).  ORACLE: the same request - same structure, same options,
# the same file CONTENTS - executed alone in a fresh process (outcome = exception class or
# PQR bytes).  The fresh process gets snapshot copies of the files in its own directory.


def uff_contents():
    ff = (DATA / "custom-ff.dat").read_text()
    nm = (DATA / "custom.names").read_text()
    lines = ff.splitlines(True)
    tmp = Path(core.VERIF) / "harness"  # altered_copy only looks at the suffix and the bytes
    del tmp
    import tempfile

    with tempfile.TemporaryDirectory() as td:
        q = Path(td) / "x.dat"
        q.write_text(ff)
        nudged = altered_copy(q).decode("latin-1")
    bad = "ALA\tXX\tabc\tdef\tZZ\n"
    n2 = _re.sub(r"\s*<residue>\s*<name>WAT</name>.*?</residue>", "", nm, count=1, flags=_re.S)
    return {
        "A": ff,  # tests/data/custom-ff.dat
        "B": nudged,  # every radius nudged
        "BAD-end": ff + bad,  # every record parses, then one unparsable line
        "BAD-mid": "".join(lines[: len(lines) // 2]) + bad + "".join(lines[len(lines) // 2 :]),
        "N1": nm,  # tests/data/custom.names
        "N2": n2,  # the same without the WAT mapping (waters get no parameters)
    }


def uff_run(dat, names, ff=None):
    return ["run", {"ff": ff, "dat": dat, "names": names}]


UFF_INIT = [["write", "N1.names", "N1"], ["write", "N2.names", "N2"]]
UFF_SHAPES = {
    # (a) the same --userff path with another names file
    "a-other-names": UFF_INIT + [["write", "U.dat", "A"], uff_run("U.dat", "N1.names"), uff_run("U.dat", "N2.names"), uff_run("U.dat", "N1.names"), uff_run("U.dat", "N2.names")],
    # (b) content of the file changed between runs, path unchanged
    "b-content-changed": UFF_INIT + [["write", "U.dat", "A"], uff_run("U.dat", "N1.names"), ["write", "U.dat", "B"], uff_run("U.dat", "N1.names"), ["write", "U.dat", "A"], uff_run("U.dat", "N1.names")],
    # (c) a failing run followed by the identical retry (then the repaired file)
    "c-fail-retry-end": UFF_INIT + [["write", "U.dat", "BAD-end"], uff_run("U.dat", "N1.names"), uff_run("U.dat", "N1.names"), ["write", "U.dat", "A"], uff_run("U.dat", "N1.names")],
    "c-fail-retry-mid": UFF_INIT + [["write", "U.dat", "BAD-mid"], uff_run("U.dat", "N1.names"), uff_run("U.dat", "N1.names"), uff_run("U.dat", "N1.names")],
    # (d) a run followed by the same run
    "d-same-again": UFF_INIT + [["write", "U.dat", "A"], uff_run("U.dat", "N1.names"), uff_run("U.dat", "N1.names"), uff_run("U.dat", "N1.names")],
    # (e) built-in force fields interleaved, incl. the package's own DAT path handed in as --userff with other names
    "e-builtin-interleaved": UFF_INIT + [["write", "U.dat", "A"], uff_run(None, None, "AMBER"), uff_run("U.dat", "N1.names"), uff_run(None, None, "AMBER"), uff_run("PKG:AMBER.DAT", "N2.names"), uff_run(None, None, "AMBER"), uff_run(None, None, "PARSE"), uff_run("U.dat", "N2.names"), uff_run("PKG:AMBER.DAT", "N1.names")],
}
UFF_THOROUGH = {
    "a-other-names-reversed": UFF_INIT + [["write", "U.dat", "A"], uff_run("U.dat", "N2.names"), uff_run("U.dat", "N1.names"), uff_run("U.dat", "N2.names")],
    "b-names-content-changed": [["write", "U.dat", "A"], ["write", "N.names", "N1"], uff_run("U.dat", "N.names"), ["write", "N.names", "N2"], uff_run("U.dat", "N.names"), ["write", "N.names", "N1"], uff_run("U.dat", "N.names")],
    "c-fail-then-other-file": UFF_INIT + [["write", "U.dat", "BAD-mid"], uff_run("U.dat", "N1.names"), ["write", "U.dat", "B"], uff_run("U.dat", "N1.names"), ["write", "U.dat", "BAD-end"], uff_run("U.dat", "N1.names"), uff_run("U.dat", "N1.names")],
}


def uff_random_shape(rng, n):
    ev = UFF_INIT + [["write", "U.dat", "A"]]
    for _ in range(n):
        r = rng.random()
        if r < 0.3:
            ev.append(["write", "U.dat", rng.choice(["A", "B", "BAD-end", "BAD-mid"])])
        elif r < 0.45:
            ev.append(uff_run(None, None, rng.choice(["AMBER", "PARSE"])))
        elif r < 0.55:
            ev.append(uff_run("PKG:AMBER.DAT", rng.choice(["N1.names", "N2.names"])))
        else:
            ev.append(uff_run("U.dat", rng.choice(["N1.names", "N2.names"])))
    if ev[-1][0] != "run":
        ev.append(uff_run("U.dat", "N1.names"))
    return ev


def uff_key(struct, req, state):
    """What a run depends on, if the property holds: options and file CONTENTS."""
    dat = req["dat"]
    return (struct, req["ff"] or "", (dat if (dat or "").startswith("PKG:") else state.get(dat, "?")) if dat else "", state.get(req["names"], "?") if req["names"] else "")


def uff_cfg(struct, req, d: Path):
    opts = []
    if req["ff"]:
        opts.append(f"--ff={req['ff']}")
    if req["dat"]:
        dat = str(core.REPO / "pdb2pqr" / "dat" / req["dat"][4:]) if req["dat"].startswith("PKG:") else str(d / req["dat"])
        opts.append(f"--userff={dat}")
    if req["names"]:
        opts.append(f"--usernames={d / req['names']}")
    return (str(DATA / struct), opts)


def uff_outcome(b, err):
    cls = err.split(":")[0] if err else None
    return (cls, None if cls else b)


def uff_fresh(shapes, structs, scratch: Path, contents):
    """Fresh-process outcome of every distinct request that occurs in the histories."""
    keys = {}
    for struct in structs:
        for events in shapes.values():
            state = {}
            for ev in events:
                if ev[0] == "write":
                    state[ev[1]] = ev[2]
                else:
                    keys.setdefault(uff_key(struct, ev[1], state), (ev[1], dict(state)))
    jobs, order = [], []
    for k, (key, (req, state)) in enumerate(sorted(keys.items())):
        d = scratch / "uff_fresh" / str(k)
        d.mkdir(parents=True, exist_ok=True)
        for fn, cid in state.items():
            (d / fn).write_text(contents[cid])
        jobs.append((f"uff{k}", uff_cfg(key[0], req, d), "0"))
        order.append(key)
    res = run_children(jobs, scratch)
    fresh = {}
    for (name, k), (b, info, _) in res.items():
        if info.get("died"):
            fresh[order[k]] = ("child-died", None)
        else:
            fresh[order[k]] = uff_outcome(b, info.get("err"))
    shutil.rmtree(scratch / "uff_fresh", ignore_errors=True)
    return fresh


def uff_execute(events, struct, d: Path, scratch: Path, contents, fresh):
    """Run one history in THIS process. -> [(event index, request, key, outcome, expected)] for the runs that differ, and the count of runs"""
    d.mkdir(parents=True, exist_ok=True)
    state, diffs, runs = {}, [], []
    for i, ev in enumerate(events):
        if ev[0] == "write":
            (d / ev[1]).write_text(contents[ev[2]])
            state[ev[1]] = ev[2]
            continue
        key = uff_key(struct, ev[1], state)
        b, err = run_inproc(uff_cfg(struct, ev[1], d), scratch, "u")
        got = uff_outcome(b, err)
        runs.append((i, key, got))
        if key in fresh and got != fresh[key]:
            diffs.append((i, ev[1], key, got, fresh[key], err))
    return diffs, runs


def uff_describe(oc):
    cls, b = oc
    return f"fails with {cls}" if cls else (f"writes {len(b)} bytes ({b.count(b'ATOM')} ATOM records)" if b is not None else "writes no output")


def userff_stage(ctx, scratch: Path):
    contents = uff_contents()
    shapes = dict(UFF_SHAPES)
    structs = ["1AJJ.pdb"]
    if ctx.thorough:
        shapes.update(UFF_THOROUGH)
        structs.append("1A1P.pdb")
    shapes["random"] = uff_random_shape(ctx.rng, 30 if ctx.thorough else 7)
    fresh = uff_fresh(shapes, structs, scratch, contents)
    died = [k for k, v in fresh.items() if v[0] == "child-died"]
    if died:
        ctx.broke("harness-error", "fresh-process oracle of the user-force-field histories died", str(died[:3]))
    ctx.cov["userff_fresh_requests"] = {"|".join(k): uff_describe(v) for k, v in sorted(fresh.items())}
    for struct in structs:
        for shape, events in shapes.items():
            d = scratch / f"uff_{shape}_{struct.split('.')[0]}"
            diffs, runs = uff_execute(events, struct, d, scratch, contents, fresh)
            for n, (i, key, got) in enumerate(runs):
                ctx.count(f"userff:{shape}")
                ctx.evaluated(("userff", shape, struct, i), n > 0 and fresh.get(key, ("child-died",))[0] != "child-died")
            for i, req, key, got, want, err in diffs[:2]:
                if want[0] == "child-died":
                    continue
                field = first_diff_field(want[1], got[1]) if (got[0] is None and want[0] is None) else f"outcome:{got[0] or 'success'}-vs-{want[0] or 'success'}"
                sig = {"kind": "userff-history", "shape": shape.split("-")[0] if shape != "random" else "random", "structure": struct, "field": field}
                prior = [json.dumps(e) for e in events[:i]]
                ctx.fail(sig, f"{struct}: run #{i} of the in-process history '{shape}' ({json.dumps(req)} with file contents {key[2] or '-'}/{key[3] or '-'}) {uff_describe(got)}, the same request alone in a fresh process {uff_describe(want)}: {field}", {"kind": "userff-history", "shape": shape, "struct": struct, "events": events[: i + 1], "at": i, "history": prior[-12:] + [json.dumps(events[i])], "first_error": err})
            shutil.rmtree(d, ignore_errors=True)


# ---------------------------------------------------------------------------
# general request histories: every command-line option twice, failing-run families
#
# Same protocol as the user-force-field histories, generalised: an event is
# ["write", file, content-id] or ["run", {"struct": <file in the directory>, "opts": [...]}];
# "{D}" in an option stands for the history's directory.  ORACLE: the same request (same
# option list, same file contents) alone in a fresh process.

RQ_BASE_A = ["--ff=PARSE", "--titration-state-method=propka", "--with-ph=2.0"]
RQ_BASE_B = ["--ff=AMBER", "--titration-state-method=propka", "--with-ph=9.0"]
RQ_PATH_DESTS = {"userff", "usernames", "ligand"}  # covered by the failing-file families
RQ_SIDE_FILES = {"pdb_output": "{D}/side.pdb", "apbs_input": "{D}/side.in"}


def rq_contents():
    from harness import builder

    c = uff_contents()
    seq_a = ["ALA", "ASP", "GLU", "HIS", "LYS", "TYR", "ALA"]
    seq_b = ["GLY", "LYS", "ASP", "CYS", "HIS", "GLU", "SER", "ARG"]
    two = [builder.build_peptide(seq_a, chain="A"), builder.build_peptide(seq_a, chain="B", origin=(40.0, 0.0, 0.0))]
    other = [builder.build_peptide(seq_b, chain="A"), builder.build_peptide(seq_b[::-1], chain="B", origin=(0.0, 40.0, 0.0))]
    c["two"] = builder.to_pdb(two)  # two identical chains, titratable residues: a chain-restricted titration shows at pH 2
    c["other"] = builder.to_pdb(other)
    nm = c["N1"]
    k = nm.find("</atom>", len(nm) // 2)
    c["N-badtag"] = nm[:k] + "</atmo>" + nm[k + 7 :]  # mistyped closing tag mid-document
    k = nm.find("</name>", len(nm) // 2)
    c["N-amp"] = nm[:k] + " & co" + nm[k:]  # stray ampersand mid-document
    k = nm.find("</residue>") + len("</residue>")
    c["N-useres"] = nm[:k] + "\n  <residue>\n    <name>ASH</name>\n    <useresname>ZZZQ</useresname>\n  </residue>" + nm[k:]  # names a residue the DAT lacks
    c["N-trunc"] = nm[: nm.rfind("</")]  # fails at the very end (root element never closed)
    c["P-garbage"] = "this is not a structure file\n" * 5 + "ATOM garbage garbage\n"
    c["P-trunc"] = c["two"][: len(c["two"]) // 3]
    c["L-garbage"] = "@<TRIPOS>MOLECULE\nnot a molecule\n@<TRIPOS>ATOM\n  1 XX abc def\n"
    return c


def rq_run(struct, opts):
    return ["run", {"struct": struct, "opts": list(opts)}]


def rq_option_variants():
    """[(dest, [args...])]: every optional argument of the main parser at a non-default value."""
    from pdb2pqr import main as pmain
    from pdb2pqr.config import IGNORED_PROPKA_OPTIONS

    out = []
    for a in pmain.build_main_parser()._actions:
        if not a.option_strings or a.dest in ("help", "version") or a.dest in RQ_PATH_DESTS:
            continue
        flag = sorted(a.option_strings, key=len)[-1]
        cls = type(a).__name__
        if cls in ("_StoreTrueAction", "_StoreFalseAction", "_StoreConstAction", "_AppendConstAction", "_CountAction"):
            args = [flag]
        elif a.dest in RQ_SIDE_FILES:
            args = [f"{flag}={RQ_SIDE_FILES[a.dest]}"]
        elif a.choices:
            ch = [c for c in a.choices if str(c).lower() != str(a.default).lower()]
            if not ch:
                continue
            args = [flag, str(ch[0])]
        elif a.type in (float, int) or isinstance(a.default, (int, float)) and not isinstance(a.default, bool):
            base = a.default if isinstance(a.default, (int, float)) else 3
            v = base + 1
            args = [flag, str(int(v)) if a.type is int or isinstance(a.default, int) else str(float(v))]
        else:
            args = [flag, "A"]
        if isinstance(a.nargs, int) and a.nargs > 1:
            args = [flag] + [args[-1]] * a.nargs
        out.append((a.dest, args, a.dest in IGNORED_PROPKA_OPTIONS))
    return out


RQ_FAILING = {
    # kind -> (files to write, failing request): user names file failing mid-document in three ways and at the end,
    # DAT with a bad line, missing files, garbage / truncated structure, garbage / missing ligand
    # (a missing STRUCTURE path is a PDB-ID download attempt - network - and stays in FAIL_THOROUGH only)
    "names-badtag": ([("N.names", "N-badtag")], ("two.pdb", ["--userff={D}/U.dat", "--usernames={D}/N.names"])),
    "names-amp": ([("N.names", "N-amp")], ("two.pdb", ["--userff={D}/U.dat", "--usernames={D}/N.names"])),
    "names-useres": ([("N.names", "N-useres")], ("two.pdb", ["--userff={D}/U.dat", "--usernames={D}/N.names"])),
    "names-trunc": ([("N.names", "N-trunc")], ("two.pdb", ["--userff={D}/U.dat", "--usernames={D}/N.names"])),
    "dat-bad-mid": ([("Ubad.dat", "BAD-mid")], ("two.pdb", ["--userff={D}/Ubad.dat", "--usernames={D}/N1.names"])),
    "dat-bad-end": ([("Ubad.dat", "BAD-end")], ("two.pdb", ["--userff={D}/Ubad.dat", "--usernames={D}/N1.names"])),
    "missing-names": ([], ("two.pdb", ["--userff={D}/U.dat", "--usernames={D}/nonexistent.names"])),
    "missing-dat": ([], ("two.pdb", ["--userff={D}/nonexistent.dat", "--usernames={D}/N1.names"])),
    "pdb-garbage": ([("bad.pdb", "P-garbage")], ("bad.pdb", ["--ff=AMBER"])),
    "pdb-truncated": ([("bad.pdb", "P-trunc")], ("bad.pdb", ["--ff=AMBER"])),
    "ligand-garbage": ([("bad.mol2", "L-garbage")], ("two.pdb", ["--ff=AMBER", "--ligand={D}/bad.mol2"])),
    "ligand-missing": ([], ("two.pdb", ["--ff=AMBER", "--ligand={D}/nonexistent.mol2"])),
}
RQ_INIT = [["write", "two.pdb", "two"], ["write", "other.pdb", "other"], ["write", "U.dat", "A"], ["write", "N1.names", "N1"]]
RQ_BUILTIN = ("two.pdb", ["--ff=AMBER"])
RQ_GOOD_USER = ("two.pdb", ["--userff={D}/U.dat", "--usernames={D}/N1.names"])


def rq_shapes(ctx):
    """name -> (class, events).  Quick: every ignored PROPKA option + a seeded sample of the other options,
    every failing kind in one order; thorough: every option, both orders."""
    shapes = {}
    variants = rq_option_variants()
    ignored = [v for v in variants if v[2]]
    others = [v for v in variants if not v[2]]
    if not ctx.thorough:
        ctx.rng.shuffle(others)
        others = others[:7]
    for dest, args, ign in ignored + others:
        a, b = rq_run("two.pdb", RQ_BASE_A + args), rq_run("other.pdb", RQ_BASE_B + args)
        # the same run twice, then after a different structure (passing the option too), then once more
        shapes[f"opt:{args[0].split('=')[0]}"] = ("option-twice", RQ_INIT + [a, a, b, a, rq_run("two.pdb", RQ_BASE_A)])
    for kind, (writes, (st, opts)) in RQ_FAILING.items():
        f = rq_run(st, opts)
        ev = RQ_INIT + [["write", fn, cid] for fn, cid in writes]
        shapes[f"fail:{kind}"] = ("failing-file", ev + [f, rq_run(*RQ_BUILTIN), rq_run(*RQ_GOOD_USER), f, rq_run(*RQ_GOOD_USER)])
        if ctx.thorough:
            shapes[f"fail2:{kind}"] = ("failing-file", ev + [rq_run(*RQ_GOOD_USER), f, rq_run(*RQ_GOOD_USER), rq_run(*RQ_BUILTIN), rq_run("other.pdb", RQ_BASE_B)])
    return shapes


def rq_key(req, state):
    sub = lambda o: _re.sub(r"\{D\}/([\w.\-/]+)", lambda m: "<" + state.get(m.group(1), "absent") + ">", o)  # noqa: E731
    return (state.get(req["struct"], "absent:" + req["struct"]), " ".join(sub(o) for o in req["opts"]))


def rq_cfg(req, d: Path):
    return (str(d / req["struct"]), [o.replace("{D}", str(d)) for o in req["opts"]])


def rq_fresh(shapes, scratch: Path, contents):
    keys = {}
    for _, events in shapes.values():
        state = {}
        for ev in events:
            if ev[0] == "write":
                state[ev[1]] = ev[2]
            else:
                keys.setdefault(rq_key(ev[1], state), (ev[1], dict(state)))
    jobs, order = [], []
    for k, (key, (req, state)) in enumerate(sorted(keys.items())):
        d = scratch / "rq_fresh" / str(k)
        d.mkdir(parents=True, exist_ok=True)
        for fn, cid in state.items():
            (d / fn).write_text(contents[cid])
        jobs.append((f"rq{k}", rq_cfg(req, d), "0"))
        order.append(key)
    res = run_children(jobs, scratch, maxpar=14)
    fresh = {}
    for (name, k), (b, info, _) in res.items():
        fresh[order[k]] = ("child-died", None) if info.get("died") else uff_outcome(b, info.get("err"))
    shutil.rmtree(scratch / "rq_fresh", ignore_errors=True)
    return fresh


def rq_execute(events, d: Path, scratch: Path, contents, fresh):
    d.mkdir(parents=True, exist_ok=True)
    state, diffs, runs = {}, [], []
    for i, ev in enumerate(events):
        if ev[0] == "write":
            (d / ev[1]).write_text(contents[ev[2]])
            state[ev[1]] = ev[2]
            continue
        key = rq_key(ev[1], state)
        b, err = run_inproc(rq_cfg(ev[1], d), scratch, "q")
        got = uff_outcome(b, err)
        runs.append((i, key, got))
        if key in fresh and fresh[key][0] != "child-died" and got != fresh[key]:
            diffs.append((i, ev[1], key, got, fresh[key], err))
    return diffs, runs


def request_stage(ctx, scratch: Path):
    contents = rq_contents()
    shapes = rq_shapes(ctx)
    fresh = rq_fresh(shapes, scratch, contents)
    died = [k for k, v in fresh.items() if v[0] == "child-died"]
    if died:
        ctx.broke("harness-error", "fresh-process oracle of the request histories died", str(died[:3]))
    ctx.cov["request_history_shapes"] = sorted(shapes)
    ctx.cov["request_fresh_outcomes"] = {" :: ".join(k)[:160]: uff_describe(v) for k, v in sorted(fresh.items())}
    for shape, (klass, events) in shapes.items():
        d = scratch / ("rq_" + _re.sub(r"[^\w]", "_", shape))
        diffs, runs = rq_execute(events, d, scratch, contents, fresh)
        for n, (i, key, got) in enumerate(runs):
            ctx.count(f"request:{klass}")
            ctx.evaluated(("request", shape, i), n > 0)
        for i, req, key, got, want, err in diffs[:1]:
            field = first_diff_field(want[1], got[1]) if (got[0] is None and want[0] is None) else f"outcome:{got[0] or 'success'}-vs-{want[0] or 'success'}"
            sig = {"kind": "request-history", "class": klass, "shape": shape, "field": field}
            ctx.fail(sig, f"run #{i} of the in-process history '{shape}' (pdb2pqr {' '.join(req['opts'])} {req['struct']}) {uff_describe(got)}; the same request alone in a fresh process {uff_describe(want)}: {field}", {"kind": "request-history", "shape": shape, "events": events[: i + 1], "at": i, "history": [json.dumps(e) for e in events[: i + 1]][-12:], "first_error": err})
        shutil.rmtree(d, ignore_errors=True)


# ---------------------------------------------------------------------------
# diagnosis of a byte difference -> signature

FIELDS10 = ["record", "serial", "atom-name", "res-name", "res-seq", "x", "y", "z", "charge", "radius"]
FIELDS11 = ["record", "serial", "atom-name", "res-name", "chain", "res-seq", "x", "y", "z", "charge", "radius"]


def first_diff_field(a: bytes | None, b: bytes | None) -> str:
    if a == b:
        return "none"
    if a is None or b is None:
        return "output-missing"
    la, lb = a.decode("latin-1").splitlines(), b.decode("latin-1").splitlines()
    if sorted(la) == sorted(lb) and la != lb:
        return "line-order"
    for x, y in zip(la, lb):
        if x != y:
            wx, wy = x.split(), y.split()
            if len(wx) != len(wy):
                return "field-count"
            names = FIELDS11 if len(wx) == 11 else FIELDS10 if len(wx) == 10 else None
            for j, (p, q) in enumerate(zip(wx, wy)):
                if p != q:
                    return names[j] if names else f"token{j}"
            return "whitespace"
    return "line-count"


def opt_class(opts):
    keep = []
    for o in opts:
        k = o.split("=")[0].lstrip("-@")
        if k in ("ff", "ffout"):
            keep.append(o.lstrip("-").lower())
        elif k in ("userff", "usernames", "ligand"):
            keep.append(k)
        elif k == "titration-state-method":
            keep.append("propka")
        elif k != "with-ph":
            keep.append(k)
    return " ".join(sorted(keep))


def signature(kind, cfg, a, b):
    return {"kind": kind, "structure": Path(cfg[0]).name, "options": opt_class(cfg[1]), "field": first_diff_field(a, b)}


# ---------------------------------------------------------------------------
# the check


def tie_stage(ctx, data, configs, fails, scratch):
    """Snapshots around real runs: every observed mutation must be announced by the table."""
    surv = {s["id"]: s for s in data["survivors"]} if data else {}
    # exercise the logging code paths too (filters run only for enabled records)
    from pdb2pqr.config import VERSION

    lgs = [logging.getLogger("pdb2pqr"), logging.getLogger(f"PDB2PQR{VERSION}")]
    old = [lg.level for lg in lgs]
    for lg in lgs:
        lg.setLevel(logging.DEBUG)
    seen_keys = {}
    observed_written = set()
    try:
        before = snapshot()
        for name, cfg in list(configs.items()) + list(fails.items()):
            out, err = run_inproc(cfg, scratch, "tie")
            after = snapshot()
            ctx.cov["correspondence_cases"] += 1
            ctx.count("tie:" + ("run-failed" if err else "run-ok"))
            if name in configs and err:
                ctx.notes.append(f"tie: {name} unexpectedly failed: {err}")
            if name in fails and not err:
                ctx.notes.append(f"tie: {name} was expected to fail but succeeded")
            for key in sorted(set(before) | set(after)):
                if before.get(key) == after.get(key):
                    continue
                listed, written = permitted(key, surv)
                how = "appeared" if key not in before else "disappeared" if key not in after else "mutated"
                if listed and written:
                    observed_written.add(key)
                    continue
                if key in seen_keys:
                    continue
                seen_keys[key] = name
                ctx.cov["correspondence_disagreements"] += 1
                what = f"survivor {key} is marked never written after import but a run {how} it" if listed else f"object {key} is not listed by the survivors scan but a run {how} it"
                ctx.broke("correspondence-broken", f"gen/survivors.py table vs real run: {what}", f"run {name} ({'failed: ' + err if err else 'ok'})", {"kind": "tie", "config": name, "cfg": cfg, "key": key})
            before = after
    finally:
        for lg, lv in zip(lgs, old):
            lg.setLevel(lv)
    ctx.cov["snapshot_keys"] = len(before)
    ctx.cov["observed_writes_to_written_survivors"] = sorted(observed_written)
    return seen_keys


def history_stage(ctx, configs, fails, scratch, volume, trace=None):
    """A-B-A and A-fail-A histories in THIS process; bytes compared with the first run of each config."""
    base = {}
    errs = {}
    order = list(configs)
    for name in order:
        with trace if trace is not None else contextlib.nullcontext():
            b, err = run_inproc(configs[name], scratch, "h")
        base[name], errs[name] = b, err
        if err or not b:
            ctx.notes.append(f"history: baseline run {name} failed: {err}")
    events = []
    # systematic: every ok config after every fail, and every ordered pair once
    fl = list(fails)
    for i, a in enumerate(order):
        events += [("ok", a), ("fail", fl[i % len(fl)]), ("ok", a)]
    for f in fl:
        a = order[ctx.rng.randrange(len(order))]
        events += [("fail", f), ("ok", a)]
    for a in order:
        b = order[ctx.rng.randrange(len(order))]
        events += [("ok", b), ("ok", a)]
    while len(events) < volume:
        if ctx.rng.random() < 0.3:
            events.append(("fail", fl[ctx.rng.randrange(len(fl))]))
        else:
            events.append(("ok", order[ctx.rng.randrange(len(order))]))
    hist = [("ok", n) for n in order]
    last_seen = {n: i for i, n in enumerate(order)}
    for kind, name in events:
        cfg = configs[name] if kind == "ok" else fails[name]
        b, err = run_inproc(cfg, scratch, "h")
        hist.append((kind, name))
        ctx.count(f"history:{kind}")
        if kind == "fail":
            if not err:
                ctx.count("history:fail-config-succeeded")
            continue
        between = hist[last_seen[name] + 1 : -1]
        last_seen[name] = len(hist) - 1
        pred = between[-1] if between else None
        nontrivial = bool(b) and b.count(b"ATOM") > 0 and bool(between)
        ctx.evaluated(("history", name, pred), nontrivial)
        if b != base[name] or (err is None) != (errs[name] is None):
            sig = signature("history", configs[name], base[name], b)
            ctx.fail(sig, f"in-process history changes the PQR bytes of {name}: first difference in {sig['field']} (after {pred})", {"kind": "history", "history": hist[-40:], "target": name, "configs": {n: list(configs.get(n) or fails.get(n)) for _, n in hist[-40:]}, "first_error": err})
    return base


def seeds_stage(ctx, configs, names, seeds, scratch, base):
    jobs = [(n, configs[n], s) for n in names for s in seeds]
    res = run_children(jobs, scratch)
    by = {}
    for (name, k), (b, info, seed) in res.items():
        by.setdefault(name, []).append((seed, b, info))
    imp = set()
    for name, runs in by.items():
        ref_seed, ref, ref_info = runs[0]
        for seed, b, info in runs:
            ctx.count(f"seed:{seed}")
            if info.get("died"):
                ctx.broke("harness-error", f"child process for {name} seed {seed} died", info["err"])
                continue
            imp.add(info.get("import_state"))
            ctx.evaluated(("seed", name, seed, info.get("probe")), bool(b) and b.count(b"ATOM") > 0)
            if b != ref:
                sig = signature("hashseed", configs[name], ref, b)
                ctx.fail(sig, f"fresh processes with PYTHONHASHSEED={ref_seed} and {seed} give different PQR bytes for {name}: first difference in {sig['field']}", {"kind": "hashseed", "name": name, "cfg": list(configs[name]), "seeds": [ref_seed, seed]})
        if name in base and base[name] != ref and not ref_info.get("died"):
            sig = signature("fresh-vs-inprocess", configs[name], ref, base[name])
            ctx.fail(sig, f"{name}: a fresh process and the same run inside the check's process (after other runs) give different PQR bytes: {sig['field']}", {"kind": "fresh-vs-inprocess", "name": name, "cfg": list(configs[name])})
    probes = {info.get("probe") for runs in by.values() for _, _, info in runs}
    ctx.cov["distinct_str_hash_probes_seen"] = len(probes)
    if len(imp) > 1:
        ctx.broke("correspondence-broken", "import-time state of pdb2pqr.* (sets hashed order-insensitively) differs between hash seeds", f"{len(imp)} distinct import-state hashes")
    return by


def run(ctx):
    ctx.cov["rule"] = (
        "real runs through pdb2pqr.main.main_driver on structures from tests/data with several option sets. An evaluation is one "
        "byte comparison of a repeated run: (a) in-process, against the first run of the same configuration, after a history "
        "containing other successful and failing runs (systematic A-fail-A / A-B-A, then seeded random interleavings); (b) fresh "
        "subprocesses under different PYTHONHASHSEEDs. Non-trivial = the output has ATOM lines and (a) at least one other run "
        "happened in between / (b) the child really ran under its own seed. Distinct by (configuration, immediately preceding "
        "event) resp. (configuration, seed, observed hash('pdb2pqr') probe). (c) environment: the same request with the process "
        "chdir'ed into a directory of DECOYS (one per relative/bare name the traced reference runs probed and per file under "
        "pdb2pqr/dat: a well-formed copy with every radius / coordinate nudged, and a second directory with garbage content), and "
        "fresh processes started there or under another HOME, LANG/LC_ALL (C, POSIX without UTF-8 mode, latin-1), TZ, umask, a "
        "clock 400 days ahead, every environment variable the package consulted pointed at the decoys, and all at once; distinct "
        "by (configuration, factor)."
    )
    ctx.cov["explanation"] = (
        "Claim level 'other': the Coq theorems are about a dependency abstraction generated from the source (which objects outlive "
        "a run, who writes them, what can reach the PQR bytes, where unordered iteration happens) - they show that NO history and "
        "no hash seed can change the output IF a run reads/writes only what the scan says. That 'if' is trusted for reads and "
        "checked by deep-hash snapshots for writes; interpreter-level nondeterminism cannot be exhibited by a Gallina model and is "
        "only explored (byte comparison of repeated and interleaved real runs, fresh processes under several hash seeds)."
    )
    data = regenerate(ctx)
    if data is None:
        ctx.obligations.extend(THEOREMS)
        ok = False
    else:
        ok = core.proof_stage(ctx, "C11", THEOREMS, ALLOWED_AXIOMS)
        so, eo = offenders(data)
        if so or eo or not ok:
            for s in so[:8]:
                ctx.broke("proof-broken", f"C11_generated_obligation: survivor {s['id']} ({s['kind']}, {s['where']}) is written after import AND can flow to the output", "writers: " + "; ".join(f"{w['site']} {w['func']} {w['op']}" for w in s["writers"][:6]), {"kind": "obligation", "survivor": s["id"]})
            for e in eo[:8]:
                how = "can reach the output and is not sorted" if e["kind"].startswith("E_set") else "is an environment/entropy read that can reach the output and is not on the reviewed list"
                if e["kind"] == "E_fs_cwd":
                    how = "is a file-system access whose path is not derived from a path option, an entry-point parameter or the package directory (resolved against the current working directory / supplied by the environment)"
                ctx.broke("proof-broken", f"C11_no_unordered_iteration: {e['kind']} at {e['where']} ({e['id']}) {how}", e["detail"], {"kind": "obligation", "entropy_site": e["id"]})
        # the Coq tables are the generator's tables (row-by-row)
        try:
            rows = core.run_cases("C11", HEADER, ['String.concat "\n" (map show_surv survivors)', 'String.concat "\n" (map show_esite entropy_sites)', 'String.concat "\n" (survivor_offenders survivors ++ entropy_offenders entropy_sites)'])
            b = lambda x: "1" if x else "0"  # noqa: E731
            want_s = [f"{s['id']}|{b(s['written_after_import'])}{b(s['flows_to_output'])}" for s in data["survivors"]]
            want_e = [f"{e['id']}|{b(e['neutralised'])}{b(e['flows_to_output'])}" for e in data["entropy_sites"]]
            ctx.cov["correspondence_cases"] += len(want_s) + len(want_e)
            if rows[0].split("\n") != want_s or (rows[1].split("\n") if rows[1] else []) != want_e:
                ctx.cov["correspondence_disagreements"] += 1
                ctx.broke("correspondence-broken", "Generated/Survivors.v rows differ from the generator's JSON rows", rows[0][:400])
            coq_off = [x for x in rows[2].split("\n") if x]
            if sorted(coq_off) != sorted([s["id"] for s in so] + [e["id"] for e in eo]):
                ctx.broke("correspondence-broken", "offenders computed in Coq differ from the harness's", str(coq_off)[:400])
        except core.CoqEvalError as e:
            ctx.broke("correspondence-broken", "evaluation of the generated tables in Coq failed", str(e))
        ctx.cov["survivors"] = len(data["survivors"])
        ctx.cov["survivors_written_after_import"] = [s["id"] for s in data["survivors"] if s["written_after_import"]]
        ctx.cov["entropy_sites"] = [e["id"] for e in data["entropy_sites"]]
        ctx.cov["scan"] = {k: data[k] for k in ("modules", "functions", "classes", "import_only_functions", "set_typed", "stale_reviewed_keys", "stale_path_options", "fs_method_name_collisions")}
        ctx.cov["fs_access_sites"] = [f"{x['where']} {x['access']}({x['path']}) <- {', '.join(x['origins'])} => {', '.join(x['verdict'])}" for x in data["fs_access_sites"]]
        if data["stale_path_options"]:
            ctx.notes.append("path_options naming no argparse dest in the current tree: " + ", ".join(data["stale_path_options"]))
        for s in data["survivors"]:
            if s["reviewed_reason"]:
                ctx.assumptions.append(f"REVIEWED (flows_to_output=false) {s['id']}: {s['reviewed_reason']}")
        for e in data["entropy_sites"]:
            if e["reviewed_reason"]:
                ctx.assumptions.append(f"REVIEWED (flows_to_output=false) {e['id']}: {e['reviewed_reason']}")
        if data["stale_reviewed_keys"]:
            ctx.notes.append("review-list keys matching nothing in the current tree: " + ", ".join(data["stale_reviewed_keys"]))

    scratch = ctx.scratch_dir()
    make_scratch_inputs(scratch)
    import_all()
    configs = dict(OK_QUICK)
    fails = dict(FAIL_QUICK)
    if ctx.thorough:
        configs.update(OK_THOROUGH)
        fails.update(FAIL_THOROUGH)
    broke_before = len(ctx.broken)
    mutated = tie_stage(ctx, data, configs, fails, scratch)
    escalate = (not ok) or len(ctx.broken) > broke_before
    volume = (500 if ctx.thorough else 110) * (3 if escalate else 1)
    data_ascii_stage(ctx)
    trace = Trace()
    base = history_stage(ctx, configs, fails, scratch, volume, trace)
    fs_tie_stage(ctx, data, trace)
    names = list(configs) if ctx.thorough else SEED_CONFIGS_QUICK
    seeds = SEEDS_THOROUGH if (ctx.thorough or escalate) else SEEDS_QUICK
    by = seeds_stage(ctx, configs, names, seeds, scratch, base)
    env_stage(ctx, data, configs, scratch, base, trace)
    userff_stage(ctx, scratch)
    request_stage(ctx, scratch)
    k0 = next(iter(configs))
    ctx.sample({"in_process_history_sample": "A-fail-A", "config": k0, "cfg": list(configs[k0]), "bytes": len(base.get(k0) or b""), "sha256": hashlib.sha256(base.get(k0) or b"").hexdigest()})
    for name, runs in list(by.items())[:2]:
        ctx.sample({"fresh_processes": name, "seeds": [s for s, _, _ in runs], "probes": [i.get("probe") for _, _, i in runs], "sha256": sorted({hashlib.sha256(b or b"").hexdigest() for _, b, _ in runs})})
    if data:
        w = [s for s in data["survivors"] if s["written_after_import"]][:2]
        for s in w:
            ctx.sample({"survivor": s["id"], "kind": s["kind"], "written_after_import": True, "flows_to_output": s["flows_to_output"], "writers": s["writers"][:3], "reviewed": s["reviewed_reason"][:160]})
    ctx.trusted += [
        "translator: gen/survivors.py (Python ast scan: survivors, write sites through names / module aliases / class names / local aliases / stored attributes / mutating callees; set-typed iteration; entropy sources) - fail-closed, validated at run time by snapshots (writes) and byte comparisons (reads)",
        "review list gen/survivors_reviewed.json: every entry (restated under 'assumptions') is a human-stated reason why a written survivor or a set iteration cannot reach the PQR bytes",
        "hypotheses of C11_history_independence (reads_only, writes_only): the meaning of the scan; Section-style premises, not axioms",
        "not modelled: CPython itself, C extensions (numpy), third-party packages (propka, mmcif_pdbx, requests) - their history/seed independence is only explored through the PROPKA / CIF / ligand configurations",
        "snapshot hasher (structural, address-free, sets order-insensitive) and the byte comparison harness",
        "environment tracer (audit hook for open + wrappers of os.stat/lstat/access/listdir/scandir and os.environ lookups): accesses made through other C-level calls are not seen; decoy construction (nudged copies)",
    ]
    ctx.assumptions += [
        "runs are issued through pdb2pqr.main.main_driver with a freshly parsed argparse.Namespace (main_driver mutates its args object: ff lower-cased, debump/opt switched off by --clean/--assign-only)",
        "input files and the files under pdb2pqr/dat do not change between the compared runs; working directory, HOME, LANG/LC_ALL, TZ, umask and the clock ARE varied (environment stage) but only over the listed factors; input/output/ligand/user-ff paths are given as absolute paths (a relative user path is by definition resolved against the working directory)",
        "path-carrying command-line options (gen/survivors_reviewed.json 'path_options'): " + ", ".join(sorted((data or {}).get("path_options", {}))),
        "histories explored contain only the listed configurations; PQR header lines are not written by this version (print_pqr ignores them), so nothing is normalised before comparing bytes",
    ]


def replay(ctx, data):
    case = data.get("case") or (data.get("broken") or [{}])[0].get("case") or {}
    scratch = ctx.scratch_dir()
    make_scratch_inputs(scratch)
    kind = case.get("kind")
    if kind == "history":
        import_all()
        cfgs = {n: tuple(v) for n, v in case["configs"].items()}
        tgt = case["target"]
        first, _ = run_inproc(cfgs[tgt], scratch, "r")
        bad = 0
        for k, n in case["history"]:
            b, err = run_inproc(cfgs[n], scratch, "r")
            if n == tgt and b != first:
                bad += 1
        print(f"replay: history of {len(case['history'])} runs, {bad} repetitions of {tgt} differ from its first run")
        return 1 if bad else 0
    if kind in ("hashseed", "fresh-vs-inprocess"):
        cfg = tuple(case["cfg"])
        seeds = case.get("seeds") or ["0", "1", "2", "3"]
        res = run_children([(case["name"], cfg, s) for s in seeds], scratch)
        outs = {hashlib.sha256(b or b"").hexdigest() for (b, i, s) in res.values()}
        if kind == "fresh-vs-inprocess":
            import_all()
            for c in OK_QUICK.values():
                run_inproc(c, scratch, "r")
            b, _ = run_inproc(cfg, scratch, "r")
            outs.add(hashlib.sha256(b or b"").hexdigest())
        print(f"replay: {len(outs)} distinct outputs over seeds {seeds}")
        return 1 if len(outs) > 1 else 0
    if kind == "request-history":
        import_all()
        contents = rq_contents()
        events = case["events"]
        fresh = rq_fresh({"replay": ("replay", events)}, scratch, contents)
        diffs, runs = rq_execute(events, scratch / "rq_replay", scratch, contents, fresh)
        for i, req, key, got, want, err in diffs:
            print(f"replay: run #{i} pdb2pqr {' '.join(req['opts'])} {req['struct']} in the history {uff_describe(got)}; alone in a fresh process it {uff_describe(want)}")
        print(f"replay: {len(runs)} runs in the history, {len(diffs)} differ from the same request in a fresh process")
        return 1 if diffs else 0
    if kind == "userff-history":
        import_all()
        contents = uff_contents()
        events, struct = case["events"], case["struct"]
        fresh = uff_fresh({"replay": events}, [struct], scratch, contents)
        diffs, runs = uff_execute(events, struct, scratch / "uff_replay", scratch, contents, fresh)
        for i, req, key, got, want, err in diffs:
            print(f"replay: run #{i} {json.dumps(req)} in the history {uff_describe(got)}; alone in a fresh process it {uff_describe(want)}")
        print(f"replay: {len(runs)} runs in the history, {len(diffs)} differ from the same request in a fresh process")
        return 1 if diffs else 0
    if kind == "environment":
        import_all()
        cfg = tuple(case["cfg"])
        decoy = scratch / "elsewhere"
        build_decoys({n: "replay" for n in case.get("decoys", [])}, decoy)
        build_decoys({n: "replay" for n in case.get("decoys", [])}, scratch / "elsewhere_garbage", garbage=True)
        ref, _ = run_inproc(cfg, scratch, "r")
        if case.get("mode") == "inproc":
            home = os.getcwd()
            try:
                os.chdir(scratch / "elsewhere_garbage" if case["factor"] == "cwd-garbage" else decoy)
                b, err = run_inproc(cfg, scratch, "r")
            finally:
                os.chdir(home)
        else:
            res = run_children([(case["name"], cfg, "0", case["factor"])], scratch, env_of=lambda job: factor_setup(job[3], decoy, case.get("consulted", [])))
            b, info, _ = next(iter(res.values()))
            err = info.get("err")
        print(f"replay: {case['name']} under factor {case['factor']}: {'DIFFERENT bytes' if b != ref else 'same bytes'} (first difference: {first_diff_field(ref, b)}; error: {err})")
        return 1 if b != ref else 0
    if kind in ("fs-tie", "data-ascii"):
        print("replay: re-run ./check C11 (scan/run-time tie of file-system sites)")
        return 0
    if kind == "tie":
        import_all()
        before = snapshot()
        run_inproc(tuple(case["cfg"]), scratch, "r")
        after = snapshot()
        ch = before.get(case["key"]) != after.get(case["key"])
        print(f"replay: run {case['config']} {'changes' if ch else 'does not change'} {case['key']}")
        return 1 if ch else 0
    if kind == "obligation" or data.get("kind") in ("proof-broken", "generator-broken"):
        d = regenerate(ctx)
        if d is None:
            print("replay: generator still aborts")
            return 1
        so, eo = offenders(d)
        print(f"replay: {len(so)} survivors written+flowing, {len(eo)} live entropy sites: {[s['id'] for s in so] + [e['id'] for e in eo]}")
        return 1 if so or eo else 0
    print("replay: nothing to replay in this file")
    return 0
