"""C15 - rigid-body fitting reproduces exact placements; torsion setting keeps the
requested angle and the distances to the axis atoms.

Proof: Coq theorems over R about the arithmetic-generic model Model/Quatfit.v, including the Jacobi
iteration itself (one rotation = orthogonal similarity, invariant for every pivot sequence and fuel,
exact exit => the eigen contract of the fit theorem is discharged).
Tie: the PrimFloat instance of the SAME definitions is executed by vm_compute and
compared bit-for-bit with pdb2pqr.quatfit (<= 1e-12 where numpy/libm intervene).
Search: independent numpy oracle on the real code (find_coordinates, qfit,
Debump.set_dihedral_angle, Residue.rotate_tetrahedral)."""

import copy
import math

import numpy as np

from harness import core

META = {
    "id": "C15",
    "level": "proof",
    "technique": (
        "Coq proofs over R (ring/field/nsatz) about an arithmetic-generic Gallina model of quatfit.py "
        "(Record Arith + Section, instantiated with PrimFloat and R) + bit-exact differential execution of "
        "the PrimFloat instance against the Python code + Jacobi invariant (proved over R) and eigen-solver contract "
        "measured per call on the real code's exit state + independent-oracle search on the real code"
    ),
    "level_text": (
        "Proved for ALL inputs over the reals: q2mat of any unit quaternion is a proper rotation (never a mirror "
        "image); the Rayleigh identity for the exact qtrfit matrix and rotmol indexing; if the structure is a "
        "rotated+translated copy of >=3 non-collinear template atoms and the eigen-solver returns a unit "
        "maximiser (its contract, a hypothesis) then find_coordinates returns exactly the image of the template "
        "atom (full statement, not partial) and the result is equivariant under rigid motions; qchichange is a "
        "proper rotation fixing the axis pointwise, keeps all distances (to both axis atoms in particular); the "
        "(cos,sin) of the dihedral measured by utilities.dihedral after a rotation by theta are those of "
        "phi+theta with the code's sign conventions; +-120 degree tetrahedral rotation lands at squared distance "
        "3*rho^2. "
        "JACOBI (new theorems, over R, all 4x4 inputs): the code's (cscl,sscl) is on the unit circle and is the exact "
        "annihilating angle (the shortcut branch abs(dma)+abs(bscl)<=abs(dma) is dead over R); one rotation of the "
        "model, both branches of `if abs(amat[ip][iq]) > 0.0`, is an orthogonal similarity A' = J^T A J of the "
        "symmetric matrix the code maintains (dvec on the diagonal + STRICT UPPER triangle of amat; the rest of amat "
        "is never written) with V' = V J, pivot entry 0, trace and Frobenius norm kept, off-diagonal mass down by "
        "2*a_pq^2; by induction V^T V = V V^T = I and V^T A0 V = current matrix hold after ANY pivot sequence and at "
        "every exit of the sweep loop for EVERY fuel value; if the off-diagonal part is zero at exit, the columns "
        "of V are unit eigenvectors with eigenvalues dvec and the column qtrfit takes after the code's ascending "
        "selection sort (column 3) is a unit maximiser of q^T A0 q - so the eigen contract is a THEOREM in that "
        "case (C15_jacobi_eigen_contract) and C15_fit_exact_image_jacobi states the exact-image theorem with "
        "'jacobi stops with zero off-diagonal part' in place of the contract; for inexact exits the residual "
        "identity |A0 v_k - d_k v_k|^2 = off-diagonal mass of column k <= half the total off-diagonal mass. "
        "PURITY TIE (checked obligation, not a Coq theorem): the Gallina functions are pure by construction, so the "
        "correspondence 'model = code' additionally requires of every tied quatfit entry (center, translate, rotmol, "
        "q2mat, qtrfit, qfit, qtransform, find_coordinates, qchichange) that impl(args) leaves its argument objects "
        "bit-identical, returns nothing that aliases them, and returns bit-identical results when called again with "
        "the SAME objects (lists, tuples, numpy arrays, lists of arrays/tuples, one object passed for two parameters, "
        "one template reused for a series of placements); checked on the real code by search_purity with a replayable "
        "history per failure; quatfit.jacobi is exempt (in-place by design on the matrix qtrfit builds afresh). The "
        "bit-exact correspondence itself uses fresh argument objects for every call. "
        "SEARCH additions: rotation routines (qchichange, Debump.set_dihedral_angle, Residue.rotate_tetrahedral) are run at boundary "
        "angles (all quarter turns of both signs, +-1e-9 around them, tiny, huge) and judged by the property only; a correspondence "
        "disagreement whose case violates the property under the independent oracle is reported as a failing input with its own replay. "
        "STILL NOT PROVED (validated oracle / measured): convergence (that the off-diagonal mass reaches the "
        "threshold within the 30 sweeps), the effect of the non-zero threshold 1e-12 on the returned eigenvector "
        "(known finding C15-F1 lives exactly there: gap-dependent), and all rounding (1e-6 A, 0.05 degrees). These "
        "are measured on every jacobi call of the search: invariant drift |V^T V - I|, |V^T A0 V - current| in "
        "binary64, the exit residual onorm/dnorm (distribution in the evidence), and the eigen contract to 1e-9."
    ),
    "level_note": (
        "Trusted: Coq kernel + vm_compute; stdlib real-number axioms; the hand-written model (tied bit-exactly by "
        "differential execution on generated inputs); oracles passed in as values: math.cos/sin/acos, "
        "numpy.linalg.norm, numpy.inner; Jacobi CONVERGENCE and the effect of the 1e-12 exit threshold (the invariant and "
        "the exact-exit case are theorems; exit residual, invariant drift and contract measured per call at run time); the "
        "rounding gap between the R and binary64 instances."
    ),
    "design_ref": "DESIGN.md 4 C15 (and Rot.v parts of C04/C05)",
}

THEOREMS = [
    "C15_q2mat_rotation",
    "C15_rayleigh_identity",
    "C15_fit_exact_image",
    "C15_eigen_contract_satisfiable",
    "C15_fit_equivariant",
    "C15_chi_axis_fixed",
    "C15_chi_isometry",
    "C15_set_dihedral_distances",
    "C15_torsion_addition",
    "C15_torsion_addition_angles",
    "C15_tetra_120",
    "C15_nonvacuous",
    "C15_jacobi_angle_exact",
    "C15_jacobi_rotation_similarity",
    "C15_jacobi_plane_orthogonal",
    "C15_jacobi_rotation_masses",
    "C15_jacobi_invariant_any_pivots",
    "C15_jacobi_invariant",
    "C15_jacobi_exit_exact",
    "C15_jacobi_eigen_contract",
    "C15_fit_exact_image_jacobi",
    "C15_jacobi_exit_residual",
    "C15_jacobi_nonvacuous",
]

ALLOWED_AXIOMS = [
    "ClassicalDedekindReals.sig_forall_dec",
    "ClassicalDedekindReals.sig_not_dec",
    "FunctionalExtensionality.functional_extensionality_dep",
]

HEADER = (
    "From Coq Require Import List ZArith String PrimFloat.\n"
    "From PV Require Import Model.Quatfit.\n"
    "Import ListNotations.\n"
)

TOL_POS = 1e-6  # Angstrom (property text)
TOL_TORS = 0.05  # degrees (property text)
SIN_ILL = 0.02  # below this sine of the widest template angle the fit is called ill-conditioned


# --------------------------------------------------------------------------
# Coq literals / decoding


def fh(x):
    return core.float_hex(float(x))


def cpt(p):
    return "(" + ", ".join(fh(v) for v in p) + ")"


def cpts(l):
    return core.coq_list([cpt(p) for p in l])


def cmat3(m):
    return "(" + ", ".join(cpt(r) for r in m) + ")"


def cquat(q):
    return "(" + ", ".join(fh(v) for v in q) + ")"


def cmat4(m):
    return core.coq_list([core.coq_list([fh(v) for v in row]) for row in m])


def dec(tok):
    if tok == "nan":
        return float("nan")
    if tok == "+inf":
        return float("inf")
    if tok == "-inf":
        return float("-inf")
    sign = -1.0 if tok[0] == "-" else 1.0
    m, e = tok[1:].split("e")
    return math.copysign(math.ldexp(int(m), int(e)), sign)


def decs(s):
    return [dec(t) for t in s.split() if not t.startswith("#")]


def same_bits(a, b):
    a, b = float(a), float(b)
    if a != a or b != b:
        return a != a and b != b
    return a.hex() == b.hex()


def json_key(d):
    return tuple(sorted((str(k), str(v)) for k, v in d.items()))


def fresh(x):
    """A new argument object per implementation call: the correspondence compares VALUES of single calls;
    purity (arguments unchanged, repeatable, no aliasing) is the separate obligation checked by search_purity."""
    return copy.deepcopy(x)


def flat(x):
    out = []
    for v in x:
        if isinstance(v, (list, tuple, np.ndarray)):
            out.extend(flat(v))
        else:
            out.append(float(v))
    return out


# --------------------------------------------------------------------------
# geometry helpers of the harness (independent of pdb2pqr)


def unit(v):
    v = np.asarray(v, float)
    return v / np.linalg.norm(v)


def rodrigues(axis, theta):
    """Standard right-handed rotation matrix R (applied as R @ v)."""
    a = unit(axis)
    K = np.array([[0, -a[2], a[1]], [a[2], 0, -a[0]], [-a[1], a[0], 0]])
    return np.eye(3) + math.sin(theta) * K + (1 - math.cos(theta)) * (K @ K)


def rand_axis(rng):
    while True:
        v = np.array([rng.gauss(0, 1) for _ in range(3)])
        if np.linalg.norm(v) > 1e-3:
            return unit(v)


def rand_rotation(rng):
    r = rng.random()
    if r < 0.6:
        th = rng.uniform(-math.pi, math.pi)
    else:
        th = rng.choice([0.0, math.pi, -math.pi, math.pi - 1e-6, math.pi - 1e-9, 1e-6, 2 * math.pi / 3, -2 * math.pi / 3, math.pi / 2, 3.0, -3.1])
    ax = rand_axis(rng) if rng.random() < 0.8 else np.array(rng.choice([(1.0, 0, 0), (0, 1.0, 0), (0, 0, 1.0), (0, 0, -1.0)]))
    return rodrigues(ax, th), th


def rand_translation(rng):
    scale = rng.choice([0.0, 1.0, 30.0, 100.0, 1e3, 1e4, 1e5, 1e5])
    return np.array([rng.uniform(-scale, scale) for _ in range(3)]), scale


def independent_dihedral(p1, p2, p3, p4):
    """IUPAC torsion in degrees by atan2 (no acos, exact 180/pi)."""
    p1, p2, p3, p4 = (np.asarray(p, float) for p in (p1, p2, p3, p4))
    b1, b2, b3 = p2 - p1, p3 - p2, p4 - p3
    n1, n2 = np.cross(b1, b2), np.cross(b2, b3)
    y = np.linalg.norm(b2) * np.dot(b1, n2)
    x = np.dot(n1, n2)
    return math.degrees(math.atan2(y, x))


def angdiff(a, b):
    d = (a - b) % 360.0
    return min(d, 360.0 - d)


def template_sine(pts):
    """Conditioning of a template: second singular value / first of the centred set
    (0 = collinear). For a triple this is ~ the sine scale of its shape."""
    P = np.asarray(pts, float)
    P = P - P.mean(axis=0)
    s = np.linalg.svd(P, compute_uv=False)
    return float(s[1] / s[0]) if s[0] > 0 else 0.0


# --------------------------------------------------------------------------
# input generation


def gen_template(rng, kind=None):
    """Template points (list of lists) + a dict describing them."""
    kind = kind or rng.choice(["bonded", "bonded", "bonded", "random", "random", "nearcol", "quad", "quad", "multi"])
    if kind == "bonded":
        b = rng.uniform(1.0, 1.6)
        ang = math.radians(rng.uniform(95, 130))
        c = rng.uniform(1.0, 1.6)
        pts = [np.zeros(3), np.array([b, 0, 0]), np.array([b - c * math.cos(ang), c * math.sin(ang), 0])]
    elif kind == "nearcol":
        s = 10 ** rng.uniform(-3, -1)
        b = rng.uniform(1.0, 1.6)
        c = rng.uniform(1.0, 3.0) * rng.choice([-1, 1])
        pts = [np.zeros(3), np.array([b, 0, 0]), np.array([c * math.sqrt(1 - s * s), abs(c) * s, 0])]
    elif kind == "quad":
        b = rng.uniform(1.0, 1.6)
        pts = [np.zeros(3), np.array([b, 0, 0]), np.array([-0.5, 1.3, 0]), np.array([-0.5, -0.6, rng.choice([0.0, 1.2, -1.2, 1e-3])])]
    elif kind == "multi":
        n = rng.choice([5, 6])
        pts = [np.array([rng.gauss(0, 2) for _ in range(3)]) for _ in range(n)]
    else:
        pts = [np.array([rng.gauss(0, 1.5) for _ in range(3)]) for _ in range(3)]
    # random pose of the template itself (templates are not axis aligned)
    R0, _ = rand_rotation(rng)
    t0 = np.array([rng.uniform(-3, 3) for _ in range(3)])
    pts = [R0 @ p + t0 for p in pts]
    if rng.random() < 0.5:
        pts = [np.round(p, 3) for p in pts]  # template files carry 3 decimals
    base = pts[rng.randrange(len(pts))]
    atom = base + rand_axis(rng) * rng.uniform(0.9, 1.6)
    return [list(map(float, p)) for p in pts], list(map(float, atom)), kind


def gen_fit_case(rng, kind=None):
    defs, atom, kind = gen_template(rng, kind)
    R, th = rand_rotation(rng)
    T, scale = rand_translation(rng)
    refs = [list(map(float, R @ np.array(p) + T)) for p in defs]
    return {"kind": kind, "defs": defs, "atom": atom, "R": R.tolist(), "T": T.tolist(), "refs": refs, "theta": th, "offset": scale, "n": len(defs)}


def gen_coords(rng, n, style=None):
    style = style or rng.choice(["pdb", "pdb", "unit", "big", "tiny", "int"])
    out = []
    for _ in range(n):
        if style == "pdb":
            p = [round(rng.uniform(-60, 60), 3) for _ in range(3)]
        elif style == "unit":
            p = [rng.uniform(-2, 2) for _ in range(3)]
        elif style == "big":
            p = [rng.uniform(-1e5, 1e5) for _ in range(3)]
        elif style == "tiny":
            p = [rng.uniform(-1e-3, 1e-3) for _ in range(3)]
        else:
            p = [float(rng.randint(-5, 5)) for _ in range(3)]
        out.append(p)
    return out


# --------------------------------------------------------------------------
# correspondence cases: (what, coq term, expected floats | "EXC", mode, replay data)


class Capture:
    """Monkeypatch quatfit.jacobi to record the matrix it is called with."""

    def __init__(self, qf):
        self.qf = qf
        self.orig = qf.jacobi
        self.calls = []

    def __enter__(self):
        def wrapped(amat, nrot):
            snap = copy.deepcopy(amat)
            res = self.orig(amat, nrot)
            # amat is rotated IN PLACE: after the call its strict upper triangle holds the
            # off-diagonal part at exit (in the unsorted basis)
            self.calls.append((snap, nrot, copy.deepcopy(res), copy.deepcopy(amat)))
            return res

        self.qf.jacobi = wrapped
        return self

    def __exit__(self, *a):
        self.qf.jacobi = self.orig


class NPProxy:
    """Stands in for utilities.np to record the values of np.inner."""

    def __init__(self):
        self.inner_vals = []

    def __getattr__(self, name):
        return getattr(np, name)

    def inner(self, a, b):
        v = np.inner(a, b)
        self.inner_vals.append(float(v))
        return v


class MathProxy:
    def __init__(self):
        self.acos_calls = []

    def __getattr__(self, name):
        return getattr(math, name)

    def acos(self, x):
        v = math.acos(x)
        self.acos_calls.append((float(x), v))
        return v


def impl_dihedral_traced(util, p):
    """utilities.dihedral with scal, chiral and acos(scal) observed."""
    npx, mx = NPProxy(), MathProxy()
    onp, om = util.np, util.math
    util.np, util.math = npx, mx
    try:
        with np.errstate(all="ignore"):
            val = util.dihedral(*p)
    finally:
        util.np, util.math = onp, om
    scal, chiral = npx.inner_vals[0], npx.inner_vals[1]
    ac = mx.acos_calls[0][1] if mx.acos_calls else 0.0
    return float(val), scal, chiral, ac


def rand_mat4(rng):
    kind = rng.choice(["sym", "sym", "diag", "zero", "tinyoff", "hugegap", "equal", "zerodiag", "ints"])
    m = [[0.0] * 4 for _ in range(4)]
    for i in range(4):
        for j in range(4):
            if j > i:
                m[i][j] = rng.uniform(-3, 3)
            elif j < i:
                m[i][j] = rng.choice([0.0, 0.0, rng.uniform(-9, 9)])  # junk below the diagonal is never read
            else:
                m[i][j] = rng.uniform(-5, 5)
    if kind == "diag":
        for i in range(4):
            for j in range(i + 1, 4):
                m[i][j] = 0.0
    elif kind == "zero":
        m = [[0.0] * 4 for _ in range(4)]
    elif kind == "tinyoff":
        for i in range(4):
            for j in range(i + 1, 4):
                m[i][j] *= rng.choice([1e-13, 1e-20, 1e-300])
    elif kind == "hugegap":
        m[0][0] = 1e18
        m[3][3] = -1e18
    elif kind == "equal":
        for i in range(4):
            m[i][i] = 2.0
    elif kind == "zerodiag":
        for i in range(4):
            m[i][i] = 0.0
    elif kind == "ints":
        m = [[float(rng.randint(-3, 3)) for _ in range(4)] for _ in range(4)]
    return m, kind


def build_corr_cases(ctx, qf, util, mult, exit_reports=None):
    rng = ctx.rng
    cases = []
    exit_reports = exit_reports if exit_reports is not None else []

    def add(what, term, expected, mode, data):
        cases.append({"what": what, "term": term, "expected": expected, "mode": mode, "data": data})
        ctx.count("corr:" + what.split(" ")[0])

    # center / translate / rotmol / q2mat
    for _ in range(30 * mult):
        n = rng.choice([1, 2, 3, 3, 4, 7])
        pts = gen_coords(rng, n)
        c, rel = qf.center(n, fresh(pts))
        add("center", f"F_center {cpts(pts)}", flat(c) + flat(rel), "exact", {"pts": pts})
    for _ in range(30 * mult):
        n = rng.choice([1, 2, 3, 4])
        pts = gen_coords(rng, n)
        c = gen_coords(rng, 1)[0]
        mode = rng.choice([1, 2, 1, 2, 3])
        add("translate", f"F_translate {mode} {cpt(c)} {cpts(pts)}", flat(qf.translate(n, fresh(pts), fresh(c), mode)), "exact", {"pts": pts, "c": c, "mode": mode})
    for _ in range(30 * mult):
        n = rng.choice([1, 2, 3])
        pts = gen_coords(rng, n)
        m = gen_coords(rng, 3, "unit")
        add("rotmol", f"F_rotmol {cmat3(m)} {cpts(pts)}", flat(qf.rotmol(n, fresh(pts), fresh(m))), "exact", {"pts": pts, "m": m})
    for _ in range(30 * mult):
        q = [rng.uniform(-1, 1) for _ in range(4)]
        if rng.random() < 0.5:
            nq = math.sqrt(sum(x * x for x in q))
            q = [x / nq for x in q]
        add("q2mat", f"F_q2mat {cquat(q)}", flat(qf.q2mat(fresh(q))), "exact", {"q": q})
    # qtrfit matrix, jacobi, qtrfit, find_coordinates on point sets
    for k in range(120 * mult):
        fc = gen_fit_case(rng)
        defs, refs, atom, n = fc["defs"], [list(p) for p in fc["refs"]], fc["atom"], fc["n"]
        r = rng.random()
        if r < 0.4:  # real structures are not exact images
            refs = [[v + rng.gauss(0, 0.05) for v in p] for p in refs]
        elif r < 0.6:
            refs = [[round(v, 3) for v in p] for p in refs]
        if rng.random() < 0.15:  # the 2-point fits used for water / tetrahedral placement
            n = 2
        data = {"refs": refs, "defs": defs, "atom": atom, "n": n}
        with Capture(qf) as cap:
            try:
                out = qf.find_coordinates(n, fresh(refs), fresh(defs), fresh(atom))
            except Exception as e:  # noqa
                out = "EXC"
        add("find_coordinates", f"F_find_coordinates {n} {cpts(refs)} {cpts(defs)} {cpt(atom)}", out if out == "EXC" else flat(out), "exact", data)
        if cap.calls and k % 2 == 0:
            amat, nrot, (dvec, vmat), _final = cap.calls[0]
            _, drel = qf.center(n, fresh(defs))
            _, rrel = qf.center(n, fresh(refs))
            upper = [amat[i][j] for i in range(4) for j in range(i, 4)]
            add("cmat (qtrfit matrix)", f"F_cmat {cpts(drel)} {cpts(rrel)}", upper, "exact", {"defs": drel, "refs": rrel})
            add("jacobi (on qtrfit matrix)", f"F_jacobi {cmat4(amat)} {nrot}", flat(dvec) + flat(vmat), "exact", {"amat": amat, "nrot": nrot})
            q, lrot = qf.qtrfit(n, fresh(drel), fresh(rrel), 30)
            add("qtrfit", f"F_qtrfit 30 {cpts(drel)} {cpts(rrel)}", flat(q) + flat(lrot), "exact", {"defs": drel, "refs": rrel})
    # exception paths of find_coordinates
    pts = gen_coords(rng, 3)
    for n, refs, defs in [(0, pts, pts), (4, pts, pts), (3, pts[:2], pts), (3, pts, pts[:2]), (2, pts, pts)]:
        try:
            out = flat(qf.find_coordinates(n, fresh(refs), fresh(defs), [0.5, 0.25, 1.0]))
        except (ZeroDivisionError, IndexError):
            out = "EXC"
        add("find_coordinates (numpoints edge)", f"F_find_coordinates {n} {cpts(refs)} {cpts(defs)} {cpt([0.5, 0.25, 1.0])}", out, "exact", {"refs": refs, "defs": defs, "atom": [0.5, 0.25, 1.0], "n": n})
    # jacobi on arbitrary 4x4 matrices, incl. fuel exhaustion
    for _ in range(60 * mult):
        m, kind = rand_mat4(rng)
        nrot = rng.choice([30, 30, 30, 0, 1, 2, 5])
        mm = copy.deepcopy(m)
        dvec, vmat = qf.jacobi(mm, nrot)
        add(f"jacobi ({kind})", f"F_jacobi {cmat4(m)} {nrot}", flat(dvec) + flat(vmat), "exact", {"amat": m, "nrot": nrot})
        exit_reports.append((jacobi_exit_check(m, nrot, dvec, vmat, mm), m, nrot, kind))
    # qchichange: libm cos/sin and numpy norm passed in
    for _ in range(70 * mult):
        init = gen_coords(rng, 1, rng.choice(["unit", "unit", "pdb", "int"]))[0]
        if all(v == 0 for v in init):
            init[0] = 1.0
        n = rng.choice([1, 2, 3])
        coords = gen_coords(rng, n, rng.choice(["unit", "pdb"]))
        angle = rng.choice([rng.uniform(-360, 360), rng.uniform(-180, 180), 120, -120, 180, 180.0, 5.0, 20.0, 0.0, 90, -90, 1e-9])
        rad = math.pi * angle / 180.0
        nrm = float(np.linalg.norm(init))
        out = qf.qchichange(fresh(init), fresh(coords), angle)
        add("qchichange", f"F_qchichange {fh(nrm)} {fh(math.cos(rad))} {fh(math.sin(rad))} {cpt(init)} {cpts(coords)}", flat(out), "exact", {"init": init, "coords": coords, "angle": angle})
        add("norm3 vs numpy.linalg.norm", f"F_norm3 {cpt(init)}", [nrm], "rel1e-12", {"init": init})
    # dihedral: algebraic part (<= 1e-12: numpy inner/norm), then the value given scal, chiral, acos
    for k in range(60 * mult):
        p = gen_coords(rng, 4, rng.choice(["unit", "unit", "pdb"]))
        if k % 6 == 0:  # planar cis / trans: exercises the snapping to 0 / 180
            p[3] = list(map(float, np.array(p[2]) + (np.array(p[0]) - np.array(p[1])) * rng.choice([1.0, -1.0]) + rand_axis(rng) * rng.choice([0.0, 1e-5, 1e-9])))
        try:
            val, scal, chiral, ac = impl_dihedral_traced(util, p)
        except Exception:  # noqa
            continue
        if not all(math.isfinite(v) for v in (val, scal, chiral)):
            continue
        add("dihedral_sc vs utilities.dihedral (scal, chiral)", f"F_dihedral_sc {cpt(p[0])} {cpt(p[1])} {cpt(p[2])} {cpt(p[3])}", [scal, chiral], "abs1e-12", {"p": p})
        add("dihedral_value vs utilities.dihedral", f"F_dihedral_value {fh(scal)} {fh(chiral)} {fh(ac)}", [val], "exact", {"p": p})
    for scal, chiral in [(1.0, 0.0), (-1.0, 0.0), (1 - 5e-8, -1.0), (-1 + 5e-8, -2.0), (1 - 2e-7, -1.0), (-1 + 2e-7, 1.0), (0.0, -0.0), (0.5, -1e-300)]:
        ac = math.acos(scal)
        add("dihedral_value (snap boundaries)", f"F_dihedral_value {fh(scal)} {fh(chiral)} {fh(ac)}", [py_dihedral_tail(util, scal, chiral)], "exact", {"scal": scal, "chiral": chiral})
    from pdb2pqr import config

    add("constants", "F_constants", [1e-12, config.SMALL_NUMBER, config.RADIANS_TO_DEGREES, 0.5], "exact", {})
    return cases


def py_dihedral_tail(util, scal, chiral):
    """Run the tail of utilities.dihedral on chosen (scal, chiral) by feeding the
    real function through a proxy whose inner() returns them."""

    class P(NPProxy):
        def __init__(self):
            super().__init__()
            self.k = 0

        def inner(self, a, b):
            self.k += 1
            return np.float64(scal) if self.k == 1 else np.float64(chiral)

    onp = util.np
    util.np = P()
    try:
        with np.errstate(all="ignore"):
            return float(util.dihedral([1.0, 0, 0], [0.0, 0, 0], [0, 0, 1.0], [0, 1.0, 1.0]))
    finally:
        util.np = onp


def compare(case, got_str):
    exp = case["expected"]
    if exp == "EXC" or got_str == "EXC":
        return None if (exp == "EXC" and got_str == "EXC") else f"impl={exp if exp == 'EXC' else 'value'} model={got_str[:40]}"
    got = decs(got_str)
    if len(got) != len(exp):
        return f"length {len(got)} != {len(exp)}"
    for i, (g, e) in enumerate(zip(got, exp)):
        if case["mode"] == "exact":
            if not same_bits(g, e):
                return f"index {i}: impl={float(e).hex()} ({e!r}) model={g.hex()} ({g!r})"
        elif case["mode"] == "rel1e-12":
            if not abs(g - e) <= 1e-12 * max(abs(e), 1e-300):
                return f"index {i}: impl={e!r} model={g!r}"
        else:
            if not abs(g - e) <= 1e-12 * max(1.0, abs(e)):
                return f"index {i}: impl={e!r} model={g!r}"
    return None


# --------------------------------------------------------------------------
# eigen-solver contract, validated per call on the real code


class ContractMonitor:
    """Wraps quatfit.qtrfit and quatfit.jacobi: for every call records the matrix
    and checks that the returned quaternion is a unit vector, an eigenvector
    (residual) and attains the largest eigenvalue (numpy.linalg.eigvalsh)."""

    def __init__(self, qf):
        self.qf = qf
        self.cap = Capture(qf)
        self.orig_qtrfit = qf.qtrfit
        self.reports = []
        self.ncalls = 0
        self.last = None
        self.exit_stats = ExitStats()
        self.inv_failures = []

    def __enter__(self):
        self.cap.__enter__()

        def wrapped(numpoints, defcoords, refcoords, nrot):
            k0 = len(self.cap.calls)
            quat, lrot = self.orig_qtrfit(numpoints, defcoords, refcoords, nrot)
            self.ncalls += 1
            if len(self.cap.calls) > k0:
                amat, nrot_, (dvec_, vmat_), final_ = self.cap.calls[k0]
                self.last = self.check(amat, quat)
                inv = jacobi_exit_check(amat, nrot_, dvec_, vmat_, final_)
                self.exit_stats.add(inv)
                self.last["inv"] = inv
                if inv["why"]:
                    self.inv_failures.append((inv, amat, nrot_))
            else:
                self.last = {"ok": False, "why": "jacobi-not-called", "gap": 0.0}
            del self.cap.calls[k0:]
            return quat, lrot

        self.qf.qtrfit = wrapped
        return self

    def __exit__(self, *a):
        self.qf.qtrfit = self.orig_qtrfit
        self.cap.__exit__()

    @staticmethod
    def check(amat, quat):
        C = np.array(amat, float)
        C = np.triu(C) + np.triu(C, 1).T
        q = np.array([float(v) for v in quat])
        scale = max(1e-300, float(np.abs(C).max()))
        w = np.linalg.eigvalsh(C)
        lam = float(q @ C @ q)
        res = float(np.linalg.norm(C @ q - lam * q)) / scale
        gap = float(w[3] - w[2]) / scale
        why = None
        if not all(math.isfinite(v) for v in q):
            why = "non-finite"
        elif abs(float(q @ q) - 1.0) > 1e-10:
            why = "not-unit"
        elif res > 1e-9:
            why = "residual"
        elif (w[3] - lam) / scale > 1e-9:
            why = "not-maximal"
        return {"ok": why is None, "why": why, "gap": gap, "res": res, "lam_deficit": float(w[3] - lam) / scale, "C": C, "w": w}


INV_ORTH_TOL = 1e-12  # |V^T V - I|_max
INV_SIM_TOL = 1e-10  # relative deviation of V^T A0 V from the current matrix (see jacobi_exit_check)
EXIT_TOL = 1e-12  # the code's own exit test onorm / dnorm


def jacobi_exit_check(amat0, nrot, dvec, vmat, amat_final):
    """The invariant proved in Coq over R (C15_jacobi_invariant: V orthogonal and V^T A0 V = the
    current matrix [dvec on the diagonal, strict upper triangle of the in-place rotated amat off
    it], for EVERY fuel value) measured on the real code's outputs at exit, in binary64:
      orth = |V^T V - I|_max
      sim  = max( |diag(V^T A0 V) - dvec|_max , | |offdiag(V^T A0 V)|_F - |offdiag(current)|_F | ) / |A0|_max
             (Frobenius norms: the sort permutes dvec/vmat columns but not amat, norms do not care)
      res  = onorm/dnorm recomputed from the rotated amat and dvec = the quantity the code tests
             against 1e-12; the Coq exit theorem C15_jacobi_exit_exact needs it to be 0
      diag = |V^T A0 V - diag(dvec)|_max / |A0|_max (what qtrfit's consumer sees).
    'why' is None when fine."""
    A0 = np.array(amat0, float)
    A0 = np.triu(A0) + np.triu(A0, 1).T
    V = np.array(vmat, float)
    d = np.array([float(x) for x in dvec])
    F = np.array(amat_final, float)
    out = {"why": None, "orth": float("inf"), "sim": float("inf"), "diag": float("inf"), "res": None, "off": None}
    if not (np.all(np.isfinite(V)) and np.all(np.isfinite(d)) and np.all(np.isfinite(A0)) and np.all(np.isfinite(np.triu(F, 1)))):
        out["why"] = "non-finite"
        return out
    scale = float(np.abs(A0).max())
    inv_scale = 1.0 / scale if scale > 0 else 1.0
    out["orth"] = float(np.abs(V.T @ V - np.eye(4)).max())
    M = V.T @ A0 @ V
    offM = M - np.diag(np.diag(M))
    off_m = math.sqrt(float((offM * inv_scale * offM * inv_scale).sum()))
    Fu = np.triu(F, 1) * inv_scale
    off_f = math.sqrt(2.0 * float((Fu * Fu).sum()))
    out["sim"] = max(float(np.abs(np.diag(M) - d).max()) * inv_scale, abs(off_m - off_f))
    out["diag"] = float(np.abs(M - np.diag(d)).max()) * inv_scale
    onorm = float(sum(abs(F[i][j]) for j in range(4) for i in range(j)))
    dnorm = float(np.abs(d).sum())
    out["off"] = off_f
    if dnorm != 0:
        out["res"] = onorm / dnorm
    if out["orth"] > INV_ORTH_TOL:
        out["why"] = "V-not-orthogonal"
    elif out["sim"] > INV_SIM_TOL:
        out["why"] = "VtA0V-not-current-matrix"
    elif any(d[i] > d[i + 1] for i in range(3)):
        out["why"] = "dvec-not-ascending"
    elif nrot >= 30 and dnorm != 0 and out["res"] > EXIT_TOL:
        out["why"] = "not-converged-in-nrot-sweeps"
    return out


class ExitStats:
    """Distribution of what the Coq theorems leave open: the exit residual onorm/dnorm and the
    float drift of the invariant."""

    EDGES = [0.0, 1e-300, 1e-100, 1e-50, 1e-40, 1e-30, 1e-25, 1e-20, 1e-18, 1e-16, 1e-15, 1e-14, 1e-13, 1e-12]

    def __init__(self):
        self.n = 0
        self.hist = {}
        self.max_res = 0.0
        self.max_orth = 0.0
        self.max_sim = 0.0
        self.max_diag = 0.0
        self.res_values = []

    @classmethod
    def bucket(cls, r):
        if r is None:
            return "dnorm=0 (never breaks)"
        if r == 0.0:
            return "=0 (exact exit: C15_jacobi_exit_exact applies verbatim)"
        for e in cls.EDGES[1:]:
            if r <= e:
                return f"<={e:g}"
        return ">1e-12 (sweeps exhausted)"

    def add(self, rep, converged_expected=True):
        self.n += 1
        b = self.bucket(rep["res"])
        self.hist[b] = self.hist.get(b, 0) + 1
        if rep["res"] is not None and (converged_expected or rep["res"] <= EXIT_TOL):
            self.max_res = max(self.max_res, rep["res"])
            self.res_values.append(rep["res"])
        if math.isfinite(rep["orth"]):
            self.max_orth = max(self.max_orth, rep["orth"])
        if math.isfinite(rep["sim"]):
            self.max_sim = max(self.max_sim, rep["sim"])
        if math.isfinite(rep["diag"]) and rep["res"] is not None and rep["res"] <= EXIT_TOL:
            self.max_diag = max(self.max_diag, rep["diag"])

    def summary(self):
        order = ["=0 (exact exit: C15_jacobi_exit_exact applies verbatim)"] + [f"<={e:g}" for e in self.EDGES[1:]] + [">1e-12 (sweeps exhausted)", "dnorm=0 (never breaks)"]
        vals = sorted(self.res_values)
        q = {}
        if vals:
            for name, f in (("p50", 0.5), ("p90", 0.9), ("p99", 0.99), ("max", 1.0)):
                q[name] = vals[min(len(vals) - 1, int(f * (len(vals) - 1) + 0.5))]
        return {
            "calls": self.n,
            "exit_residual_onorm_over_dnorm_hist": {k: self.hist[k] for k in order if k in self.hist},
            "exit_residual_quantiles": q,
            "invariant_orth_err_max": self.max_orth,
            "invariant_VtA0V_minus_current_rel_max": self.max_sim,
            "converged_VtA0V_minus_diag_rel_max": self.max_diag,
        }


def best_quat_numpy(C):
    w, v = np.linalg.eigh(C)
    return v[:, 3]


def q2mat_indep(q):
    """Textbook rotation matrix of a unit quaternion (harness' own)."""
    a, b, c, d = q
    return np.array(
        [
            [a * a + b * b - c * c - d * d, 2 * (b * c - a * d), 2 * (b * d + a * c)],
            [2 * (b * c + a * d), a * a - b * b + c * c - d * d, 2 * (c * d - a * b)],
            [2 * (b * d - a * c), 2 * (c * d + a * b), a * a - b * b - c * c + d * d],
        ]
    )


# --------------------------------------------------------------------------
# search 1: exact images through find_coordinates / qfit


def classify_fit(fc, got, mon_last):
    """Deterministic diagnosis of a placement failure -> signature."""
    defs = np.array(fc["defs"])
    refs = np.array(fc["refs"])
    R, T, atom = np.array(fc["R"]), np.array(fc["T"]), np.array(fc["atom"])
    exp = R @ atom + T
    sig = {"site": "quatfit.find_coordinates", "field": "placed-atom"}
    if got is None:
        sig["condition"] = "exception"
        return sig
    got = np.array(got, float)
    if not np.all(np.isfinite(got)):
        sig["condition"] = "non-finite"
        return sig
    err = float(np.linalg.norm(got - exp))
    cd, cr = defs.mean(axis=0), refs.mean(axis=0)
    # mirror image through the plane of the first three structure atoms
    nrm = np.cross(refs[1] - refs[0], refs[2] - refs[0])
    if np.linalg.norm(nrm) > 0:
        nrm = unit(nrm)
        h = float(np.dot(exp - refs[0], nrm))
        mirror = exp - 2 * h * nrm
        if abs(h) > 1e-2 and np.linalg.norm(got - mirror) < 1e-3:
            sig["condition"] = "mirror-image"
            return sig
    if np.linalg.norm(got - (cr + R.T @ (atom - cd))) < 1e-3 and err > 1e-3:
        sig["condition"] = "inverse-rotation"
        return sig
    if np.linalg.norm(got - (R @ atom + T - (cr - R @ cd) + (cr - cd))) < 1e-6 and err > 1e-3:
        sig["condition"] = "translation-wrong"
        return sig
    s = template_sine(fc["defs"])
    if mon_last is not None and mon_last.get("C") is not None and s < SIN_ILL:
        # would an exact eigen-solver on the SAME matrix have met the bound?
        qn = best_quat_numpy(mon_last["C"])
        alt = cr + q2mat_indep(qn).T @ (atom - cd)
        alt_err = float(np.linalg.norm(alt - exp))
        if alt_err <= TOL_POS and mon_last["ok"] and err < 0.1:
            sig = {"site": "quatfit.jacobi", "field": "placed-atom", "condition": "early-stop-near-collinear"}
            return sig
    sig["condition"] = "imprecise" if err < 1e-3 else "wrong-position"
    return sig


def search_fit(ctx, qf, ncases, seeds=()):
    rng = ctx.rng
    worst = 0.0
    worst_well = 0.0
    with ContractMonitor(qf) as mon:
        for k in range(ncases):
            fc = seeds[k] if k < len(seeds) else gen_fit_case(rng, "nearcol" if k % 7 == 3 else None)
            defs, refs, atom, n = fc["defs"], fc["refs"], fc["atom"], fc["n"]
            R, T = np.array(fc["R"]), np.array(fc["T"])
            s = template_sine(defs)
            if s < 5e-4:
                continue  # numerically collinear: outside "non-degenerate"
            exp = R @ np.array(atom) + T
            mon.last = None
            try:
                got = qf.find_coordinates(n, [list(p) for p in refs], [list(p) for p in defs], list(atom))
            except Exception as e:  # noqa
                got = None
            last = mon.last
            plane_h = abs(float(np.dot(np.array(atom) - np.array(defs[0]), unit(np.cross(np.array(defs[1]) - np.array(defs[0]), np.array(defs[2]) - np.array(defs[0]))))))
            nontrivial = abs(math.sin(fc["theta"] / 2)) > 0.05 and plane_h > 0.05
            ctx.evaluated(("fit", fc["kind"], n, round(math.log10(max(s, 1e-9))), round(math.log10(fc["offset"] + 1)), round(fc["theta"], 1)), nontrivial)
            ctx.count(f"fit:{fc['kind']}")
            ctx.count(f"fit-offset:1e{round(math.log10(fc['offset'] + 1))}")
            err = float("inf") if got is None else float(np.linalg.norm(np.array(got, float) - exp))
            if s >= SIN_ILL:
                worst_well = max(worst_well, err)
            worst = max(worst, err)
            casedata = {"type": "fit", "defs": defs, "refs": refs, "atom": atom, "n": n, "R": fc["R"], "T": fc["T"], "kind": fc["kind"], "theta": fc["theta"], "offset": fc["offset"]}
            if not (err <= TOL_POS):
                sig = classify_fit(fc, got, last)
                if sig.get("condition") == "early-stop-near-collinear" and last is not None and last.get("inv"):
                    # where the known finding lives: non-zero exit residual x tiny top eigenvalue gap
                    ctx.cov.setdefault("known_F1_exit_residual_vs_gap", [])
                    if len(ctx.cov["known_F1_exit_residual_vs_gap"]) < 5:
                        ctx.cov["known_F1_exit_residual_vs_gap"].append({"placement_error_A": err, "exit_residual_onorm_over_dnorm": last["inv"]["res"], "top_eigenvalue_gap_rel": last["gap"], "template_conditioning": s})
                ctx.fail(sig, f"find_coordinates misses the exact rigid image by {err:.3g} A (template conditioning {s:.2g}, offset {fc['offset']:g})", dict(casedata, observed=None if got is None else list(map(float, got)), expected=exp.tolist(), error=err))
            # eigen-solver contract for this call
            if last is not None and not last["ok"]:
                ctx.fail({"site": "quatfit.qtrfit/jacobi", "field": "quaternion", "condition": "contract:" + str(last["why"])}, f"eigen-solver contract violated ({last['why']}): residual {last.get('res')}, deficit {last.get('lam_deficit')}", dict(casedata, check="contract"))
            # equivariance (well-conditioned templates)
            if got is not None and s >= 0.05 and k % 2 == 0:
                G, _ = rand_rotation(rng)
                S, _ = rand_translation(rng)
                refs2 = [list(map(float, G @ np.array(p) + S)) for p in refs]
                try:
                    got2 = np.array(qf.find_coordinates(n, refs2, [list(p) for p in defs], list(atom)), float)
                    e2 = float(np.linalg.norm(got2 - (G @ np.array(got, float) + S)))
                except Exception:  # noqa
                    e2 = float("inf")
                ctx.evaluated(("equiv", fc["kind"], n, round(fc["theta"], 1)), nontrivial)
                if not (e2 <= TOL_POS):
                    ctx.fail({"site": "quatfit.find_coordinates", "field": "placed-atom", "condition": "not-equivariant"}, f"result does not move with the structure: {e2:.3g} A", dict(casedata, check="equivariance", G=G.tolist(), S=S.tolist(), error=e2))
        # handedness / properness of the fitted rotation for ARBITRARY input
        # (noisy, planar, and mirror-image structures): never a reflection
        for k in range(max(40, ncases // 5)):
            fc = gen_fit_case(rng, rng.choice(["quad", "multi", "bonded", "random"]))
            defs, n = fc["defs"], fc["n"]
            refs = np.array(fc["refs"])
            mode = rng.choice(["noisy", "mirrored", "exact"])
            if mode == "noisy":
                refs = refs + np.array([[rng.gauss(0, 0.1) for _ in range(3)] for _ in range(n)])
            elif mode == "mirrored":
                refs = refs * np.array([1.0, 1.0, -1.0])
            try:
                _, _, lrot = qf.qfit(n, refs.tolist(), [list(p) for p in defs])
                M = np.array(lrot, float)
                bad = None
                if not np.all(np.isfinite(M)):
                    bad = "non-finite"
                elif np.abs(M.T @ M - np.eye(3)).max() > 1e-9:
                    bad = "not-orthogonal"
                elif abs(np.linalg.det(M) - 1.0) > 1e-9:
                    bad = "reflection" if np.linalg.det(M) < 0 else "det-not-1"
            except Exception as e:  # noqa
                bad = "exception"
            ctx.evaluated(("proper", mode, fc["kind"], n, k), True)
            ctx.count(f"proper:{mode}")
            if bad:
                ctx.fail({"site": "quatfit.qfit", "field": "rotation-matrix", "condition": bad}, f"qfit returned a matrix that is not a proper rotation ({bad}) for a {mode} structure", {"type": "proper", "defs": defs, "refs": refs.tolist(), "n": n})
    # Jacobi invariant at exit, every qtrfit call of this search (exact-image, equivariance, noisy/mirrored)
    report_exit_failures(ctx, mon.inv_failures)
    ctx.cov["contract_calls_checked"] = mon.ncalls
    ctx.cov["worst_placement_error_A"] = worst
    ctx.cov["worst_placement_error_wellconditioned_A"] = worst_well
    return mon.exit_stats


def report_exit_failures(ctx, fails):
    for inv, amat, nrot in fails[:10]:
        ctx.fail(
            {"site": "quatfit.jacobi", "field": "invariant", "condition": inv["why"]},
            f"jacobi exit state violates the invariant proved over R ({inv['why']}): |VtV-I|={inv['orth']:.3g}, "
            f"rel. deviation of VtA0V from the current matrix={inv['sim']:.3g}, exit residual onorm/dnorm={inv['res']}",
            {"type": "jacobi", "amat": amat, "nrot": nrot},
        )


# --------------------------------------------------------------------------
# search 2: torsions through the real Debump.set_dihedral_angle and
# Residue.rotate_tetrahedral


class SAtom:
    def __init__(self, name, xyz):
        self.name = name
        self.x, self.y, self.z = (float(v) for v in xyz)
        self.bonds = []
        self.cell = None

    @property
    def coords(self):
        return [self.x, self.y, self.z]


class SRef:
    def __init__(self, dihedrals):
        self.dihedrals = dihedrals


class SRes:
    """Minimal residue for Debump.set_dihedral_angle: 4 dihedral atoms A B C D,
    movers = D and everything listed after it."""

    def __init__(self, atoms, moveable, util):
        self.map = {a.name: a for a in atoms}
        self.reference = SRef(["A B C D"])
        self.moveable = moveable
        c = [self.map[n].coords for n in "ABCD"]
        self.dihedrals = [util.dihedral(*c)]

    def has_atom(self, name):
        return name in self.map

    def get_atom(self, name):
        return self.map.get(name)

    def get_moveable_names(self, pivot):
        assert pivot == "C"
        return list(self.moveable)


class SCells:
    def __init__(self):
        self.removed = 0
        self.added = 0

    def remove_cell(self, atom):
        self.removed += 1

    def add_cell(self, atom):
        self.added += 1


class SDebump:
    def __init__(self):
        self.cells = SCells()


def gen_torsion_case(rng):
    kind = rng.choice(["chain", "chain", "chain", "nearcol", "near180", "big", "random"])
    b1, b2, b3 = (rng.uniform(1.0, 1.6) for _ in range(3))
    a1 = math.radians(rng.uniform(95, 125))
    a2 = math.radians(rng.uniform(95, 125))
    phi = math.radians(rng.uniform(-180, 180))
    if kind == "nearcol":
        a1 = math.radians(rng.choice([rng.uniform(0.5, 5), rng.uniform(175, 179.5)]))
    if kind == "near180":
        phi = math.radians(rng.choice([180, -180, 179.99, -179.99, 179.9999999, 0.0, 1e-7, -1e-7, 0.01]))
    B = np.zeros(3)
    C = np.array([0, 0, b2])
    A = B + b1 * np.array([math.sin(a1), 0, -math.cos(a1)])
    D = C + b3 * np.array([math.sin(a2) * math.cos(phi), math.sin(a2) * math.sin(phi), math.cos(a2)])
    extra = [D + rand_axis(rng) * rng.uniform(0.9, 1.5) for _ in range(rng.choice([0, 1, 3]))]
    pts = [A, B, C, D] + extra
    if kind == "random":
        pts = [np.array([rng.gauss(0, 1.5) for _ in range(3)]) for _ in range(4)] + extra
    R, _ = rand_rotation(rng)
    T, scale = rand_translation(rng) if kind == "big" or rng.random() < 0.3 else (np.zeros(3), 0.0)
    pts = [R @ p + T for p in pts]
    if rng.random() < 0.4:
        pts = [np.round(p, 3) for p in pts]
    angle = rng.choice([rng.uniform(-180, 180), rng.uniform(-180, 180), rng.uniform(-360, 360), 180.0, -180.0, 179.99, -179.99, 0.0, 60.0, -60.0, 120.0, 1e-3])
    return {"kind": kind, "pts": [list(map(float, p)) for p in pts], "angle": float(angle), "offset": scale}


def run_torsion_case(tc, util, Debump):
    names = ["A", "B", "C", "D"] + [f"E{i}" for i in range(len(tc["pts"]) - 4)]
    atoms = [SAtom(n, p) for n, p in zip(names, tc["pts"])]
    res = SRes(atoms, names[3:], util)
    before = {a.name: np.array(a.coords) for a in atoms}
    old = res.dihedrals[0]
    with np.errstate(all="ignore"):
        Debump.set_dihedral_angle(SDebump(), res, 0, tc["angle"])
    after = {a.name: np.array(a.coords) for a in atoms}
    return names, before, after, float(old), float(res.dihedrals[0])


def diagnose_torsion(tc, names, before, after, old, stored, util):
    """None if fine, else (signature, message)."""
    site = "Debump.set_dihedral_angle"
    for n in "ABC":
        if not all(float(x).hex() == float(y).hex() for x, y in zip(before[n], after[n])):
            return {"site": site, "field": "unmoved-atom", "condition": "changed"}, f"atom {n} (not in the moved set) changed"
    if not all(np.all(np.isfinite(after[n])) for n in names):
        return {"site": site, "field": "moved-atom", "condition": "non-finite"}, "non-finite coordinates"
    meas_code = float(util.dihedral(after["A"], after["B"], after["C"], after["D"]))
    meas_ind = independent_dihedral(after["A"], after["B"], after["C"], after["D"])
    old_ind = independent_dihedral(before["A"], before["B"], before["C"], before["D"])
    want = tc["angle"]
    e_code, e_ind = angdiff(meas_code, want), angdiff(meas_ind, want)
    if e_ind > TOL_TORS or e_code > TOL_TORS:
        diff = want - old_ind
        cond = "off-target"
        if angdiff(meas_ind, old_ind - diff) <= TOL_TORS and abs(math.sin(math.radians(diff))) > 1e-3:
            cond = "rotated-in-reverse-sense"
        elif e_ind <= TOL_TORS < e_code:
            cond = "measurement-disagrees-with-independent-torsion"
        elif angdiff(meas_ind, old_ind) <= TOL_TORS:
            cond = "not-rotated"
        return {"site": site, "field": "torsion", "condition": cond}, f"requested {want:.6f}, measured {meas_code:.6f} (code) / {meas_ind:.6f} (independent), before {old_ind:.6f}"
    if angdiff(stored, want) > TOL_TORS:
        return {"site": site, "field": "stored-dihedral", "condition": "off-target"}, f"residue.dihedrals holds {stored}, requested {want}"
    for n in names[3:]:
        for ax in "BC":
            d0 = float(np.linalg.norm(before[n] - before[ax]))
            d1 = float(np.linalg.norm(after[n] - after[ax]))
            if abs(d0 - d1) > TOL_POS:
                return {"site": site, "field": "axis-distance", "condition": "changed"}, f"distance {n}-{ax} changed {d0} -> {d1}"
    for i, n in enumerate(names[3:]):
        for m in names[3 + i + 1 :]:
            d0 = float(np.linalg.norm(before[n] - before[m]))
            d1 = float(np.linalg.norm(after[n] - after[m]))
            if abs(d0 - d1) > TOL_POS:
                return {"site": site, "field": "moved-set-distance", "condition": "changed"}, f"distance {n}-{m} changed {d0} -> {d1}"
    # handedness of the moved set (mirror would keep all the distances above)
    if len(names) >= 7:
        def trip(c):
            return float(np.dot(np.cross(c[names[4]] - c["D"], c[names[5]] - c["D"]), c[names[6]] - c["D"]))

        t0, t1 = trip(before), trip(after)
        if abs(t0) > 1e-3 and abs(t0 - t1) > 1e-5:
            return {"site": site, "field": "moved-set-handedness", "condition": "changed"}, f"signed volume {t0} -> {t1}"
    return None


def search_torsion(ctx, util, ncases, seeds=()):
    from pdb2pqr.debump import Debump

    rng = ctx.rng
    worst = 0.0
    for k in range(ncases):
        tc = seeds[k] if k < len(seeds) else gen_torsion_case(rng)
        # non-degenerate: both bond angles at least 0.3 degrees from collinear
        p = [np.array(x) for x in tc["pts"][:4]]
        s1 = np.linalg.norm(np.cross(unit(p[0] - p[1]), unit(p[2] - p[1])))
        s2 = np.linalg.norm(np.cross(unit(p[3] - p[2]), unit(p[1] - p[2])))
        if min(s1, s2) < 5e-3:
            continue
        try:
            names, before, after, old, stored = run_torsion_case(tc, util, Debump)
            d = diagnose_torsion(tc, names, before, after, old, stored, util)
        except Exception as e:  # noqa
            d = ({"site": "Debump.set_dihedral_angle", "field": "call", "condition": "exception:" + type(e).__name__}, str(e))
            old = 0.0
        diff = tc["angle"] - old
        nontrivial = abs(math.sin(math.radians(diff))) > 0.05
        ctx.evaluated(("tors", tc["kind"], round(diff), len(tc["pts"]), round(math.log10(tc["offset"] + 1))), nontrivial)
        ctx.count(f"torsion:{tc['kind']}")
        if d:
            ctx.fail(d[0], "set torsion: " + d[1], {"type": "torsion", **tc})
        else:
            worst = max(worst, angdiff(float(util.dihedral(after["A"], after["B"], after["C"], after["D"])), tc["angle"]))
    ctx.cov["worst_torsion_error_deg"] = worst


def search_tetra(ctx, util, ncases):
    from pdb2pqr.residue import Residue

    rng = ctx.rng
    for k in range(ncases):
        b = rng.uniform(1.0, 1.6)
        R, _ = rand_rotation(rng)
        T, scale = rand_translation(rng) if rng.random() < 0.4 else (np.zeros(3), 0.0)
        a1 = SAtom("X1", R @ np.zeros(3) + T)
        a2 = SAtom("X2", R @ np.array([0, 0, b]) + T)
        hs = []
        for i in range(rng.choice([1, 2, 3])):
            tilt = math.radians(rng.uniform(60, 75))
            az = rng.uniform(0, 2 * math.pi)
            h = np.array([0, 0, b]) + rng.uniform(0.9, 1.1) * np.array([math.sin(tilt) * math.cos(az), math.sin(tilt) * math.sin(az), math.cos(tilt)])
            hs.append(SAtom(f"H{i}", R @ h + T))
        a2.bonds = [a1] + hs
        angle = rng.choice([120, -120, 120.0, 5.0, 20.0, rng.uniform(-180, 180)])
        before = [np.array(h.coords) for h in hs]
        p1, p2 = np.array(a1.coords), np.array(a2.coords)
        try:
            with np.errstate(all="ignore"):
                Residue.rotate_tetrahedral(a1, a2, angle)
        except Exception as e:  # noqa
            ctx.fail({"site": "Residue.rotate_tetrahedral", "field": "call", "condition": "exception:" + type(e).__name__}, str(e), {"type": "tetra"})
            continue
        ctx.evaluated(("tetra", round(angle), len(hs), round(math.log10(scale + 1))), abs(math.sin(math.radians(angle))) > 0.05)
        ctx.count("tetra")
        axis = unit(p2 - p1)
        case = {"type": "tetra", "a1": p1.tolist(), "a2": p2.tolist(), "hs": [x.tolist() for x in before], "angle": float(angle)}
        for h, b0 in zip(hs, before):
            b1 = np.array(h.coords)
            exp = p1 + rodrigues(axis, math.radians(angle)) @ (b0 - p1)
            err = float(np.linalg.norm(b1 - exp))
            if not (err <= TOL_POS):
                rev = p1 + rodrigues(axis, -math.radians(angle)) @ (b0 - p1)
                cond = "rotated-in-reverse-sense" if np.linalg.norm(b1 - rev) <= 1e-4 else "wrong-position"
                ctx.fail({"site": "Residue.rotate_tetrahedral", "field": "moved-atom", "condition": cond}, f"rotation by {angle} about the bond lands {err:.3g} A from the right-handed image", case)
                break
            if abs(angle) == 120:
                rho2 = float(np.dot(b0 - p1, b0 - p1) - np.dot(b0 - p1, axis) ** 2)
                if abs(float(np.dot(b1 - b0, b1 - b0)) - 3 * rho2) > 1e-6:
                    ctx.fail({"site": "Residue.rotate_tetrahedral", "field": "moved-atom", "condition": "not-3rho2"}, "120 degree image not at squared distance 3 rho^2", case)
                    break


def search_real_residues(ctx, util, rounds):
    """Real Biomolecule / Residue / Debump objects (tests/data/1AJJ.pdb): every
    side-chain dihedral of every amino residue set to chosen angles."""
    from pdb2pqr import aa, cells, debump
    from pdb2pqr import io as pio
    from pdb2pqr import main as pmain

    rng = ctx.rng
    path = core.REPO / "tests" / "data" / "1AJJ.pdb"
    if not path.exists():
        ctx.notes.append("tests/data/1AJJ.pdb missing: real-residue torsion search skipped")
        return
    definition = pio.get_definitions()
    pdblist, _ = pio.get_molecule(str(path))
    bm, definition, _ = pmain.setup_molecule(pdblist, definition, None)
    bm.set_termini(neutraln=False, neutralc=False)
    bm.update_bonds()
    offset = np.array([0.0, 0.0, 0.0])
    for rnd in range(rounds):
        if rnd == 1:  # large offset: move the whole molecule
            offset = np.array([9.0e4, -7.5e4, 8.25e4])
            for a in bm.atoms:
                a.x, a.y, a.z = a.x + offset[0], a.y + offset[1], a.z + offset[2]
        db = debump.Debump(bm)
        db.cells = cells.Cells(5)
        db.cells.assign_cells(bm)
        bm.calculate_dihedral_angles()
        bm.set_donors_acceptors()
        bm.update_internal_bonds()
        bm.set_reference_distance()
        for res in bm.residues:
            if not isinstance(res, aa.Amino):
                continue
            for k, dstr in enumerate(res.reference.dihedrals):
                nm = dstr.split()
                if not all(res.has_atom(x) for x in nm) or res.dihedrals[k] is None:
                    continue
                movers = res.get_moveable_names(nm[2])
                if nm[3] not in movers:
                    continue  # backbone dihedrals (phi/psi): the 4th atom is not in the moved set
                angle = rng.choice([rng.uniform(-180, 180), 180.0, -179.99, 60.0, -60.0, 0.0])
                before = {a.name: np.array(a.coords) for a in res.atoms}
                old = res.dihedrals[k]
                with np.errstate(all="ignore"):
                    db.set_dihedral_angle(res, k, angle)
                after = {a.name: np.array(a.coords) for a in res.atoms}
                diff = angle - old
                ctx.evaluated(("real", res.name, k, round(diff), rnd), abs(math.sin(math.radians(diff))) > 0.05)
                ctx.count("torsion:real-residue")
                case = {"type": "real-torsion", "residue": str(res), "dihedral": dstr, "angle": angle, "round": rnd}
                site = "Debump.set_dihedral_angle"
                c4 = [after[x] for x in nm]
                meas = float(util.dihedral(*c4))
                ind = independent_dihedral(*c4)
                if angdiff(meas, angle) > TOL_TORS or angdiff(ind, angle) > TOL_TORS or angdiff(res.dihedrals[k], angle) > TOL_TORS:
                    oldi = independent_dihedral(*[before[x] for x in nm])
                    cond = "rotated-in-reverse-sense" if angdiff(ind, oldi - (angle - oldi)) <= TOL_TORS and abs(math.sin(math.radians(angle - oldi))) > 1e-3 else "off-target"
                    ctx.fail({"site": site, "field": "torsion", "condition": cond}, f"{res} {dstr}: requested {angle}, measured {meas} / {ind}", case)
                    continue
                bad = None
                for name in before:
                    if name in movers:
                        for ax in (nm[1], nm[2]):
                            d0 = np.linalg.norm(before[name] - before[ax])
                            d1 = np.linalg.norm(after[name] - after[ax])
                            if abs(d0 - d1) > TOL_POS:
                                bad = ({"site": site, "field": "axis-distance", "condition": "changed"}, f"{res} {dstr}: distance {name}-{ax} {d0} -> {d1}")
                    elif not all(float(x).hex() == float(y).hex() for x, y in zip(before[name], after[name])):
                        bad = ({"site": site, "field": "unmoved-atom", "condition": "changed"}, f"{res} {dstr}: atom {name} outside the moved set changed")
                if bad:
                    ctx.fail(bad[0], bad[1], case)



# --------------------------------------------------------------------------
# search 0: PURITY of every quatfit entry that is tied to a (pure) Gallina function.
# The model functions are mathematical functions; the implementation corresponds to them only
# if a call leaves its argument objects bit-identical, returns nothing that aliases them, and a
# second call with the SAME objects returns bit-identical results.  (quatfit.jacobi is exempt: it
# diagonalises its matrix argument in place by design; qtrfit hands it a freshly built matrix.)

ARG_KINDS = ["list", "tuple", "ndarray", "list-of-ndarray", "list-of-tuple"]


def conv(x, kind):
    """Plain nested lists of floats -> an argument object of the given kind (always a new object)."""
    nested = bool(x) and isinstance(x[0], (list, tuple))
    if kind == "list":
        return copy.deepcopy(x)
    if kind == "tuple":
        return tuple(tuple(r) for r in x) if nested else tuple(x)
    if kind == "ndarray":
        return np.array(x, float)
    if kind == "list-of-ndarray":
        return [np.array(r, float) for r in x] if nested else np.array(x, float)
    if kind == "list-of-tuple":
        return [tuple(r) for r in x] if nested else tuple(x)
    raise ValueError(kind)


def snap(x):
    """Bit-exact, structure-exact snapshot of an argument / result object."""
    if isinstance(x, np.ndarray):
        return ("nd", x.shape, str(x.dtype), x.tobytes())
    if isinstance(x, (list, tuple)):
        return (type(x).__name__, tuple(snap(v) for v in x))
    if isinstance(x, (bool, int)) and not isinstance(x, np.generic):
        return ("i", int(x))
    return ("f", float(x).hex())


def bits(x):
    """Values only (container types ignored): for comparing results."""
    if isinstance(x, (list, tuple, np.ndarray)):
        return tuple(bits(v) for v in x)
    v = float(x)
    return "nan" if v != v else v.hex()


def containers(x, acc=None):
    acc = [] if acc is None else acc
    if isinstance(x, (list, np.ndarray)):
        acc.append(x)
    if isinstance(x, (list, tuple)):
        for v in x:
            containers(v, acc)
    return acc


def aliases(result, args):
    """Does a mutable container of the result share storage with one of the arguments?"""
    ac = [c for a in args for c in containers(a)]
    for r in containers(result):
        for c in ac:
            if r is c or (isinstance(r, np.ndarray) and isinstance(c, np.ndarray) and r.size and c.size and np.shares_memory(r, c)):
                return True
    return False


# entry -> (argument names, indices of the object-valued arguments)
PURITY_FNS = {
    "center": (("numpoints", "refcoords"), (1,)),
    "translate": (("numpoints", "refcoords", "center_", "mode"), (1, 2)),
    "rotmol": (("numpoints", "coor", "lrot"), (1, 2)),
    "q2mat": (("quat",), (0,)),
    "qtrfit": (("numpoints", "defcoords", "refcoords", "nrot"), (1, 2)),
    "qfit": (("numpoints", "refcoords", "defcoords"), (1, 2)),
    "qtransform": (("numpoints", "defcoords", "refcenter", "fitcenter", "rotation"), (1, 2, 3, 4)),
    "find_coordinates": (("numpoints", "refcoords", "defcoords", "defatomcoords"), (1, 2, 3)),
    "qchichange": (("initcoords", "refcoords", "angle"), (0, 1)),
}

# (function, alias scenario) -> how one object is passed for two parameters
PURITY_ALIASES = {
    "translate": [None, "center_ is refcoords[0]"],
    "qtrfit": [None, "refcoords is defcoords"],
    "qfit": [None, "refcoords is defcoords"],
    "qtransform": [None, "fitcenter is refcenter"],
    "find_coordinates": [None, "refcoords is defcoords", "defatomcoords is defcoords[0]"],
    "qchichange": [None, "initcoords is refcoords[0]"],
}


def purity_build(fn, plain, kind, alias):
    """Argument tuple for one history from plain data; object arguments are new objects of `kind`."""
    names, objidx = PURITY_FNS[fn]
    args = [conv(v, kind) if i in objidx else v for i, v in enumerate(plain)]
    if alias == "center_ is refcoords[0]":
        args[2] = args[1][0]
    elif alias == "refcoords is defcoords":
        args[1] = args[2]
    elif alias == "fitcenter is refcenter":
        args[3] = args[2]
    elif alias == "defatomcoords is defcoords[0]":
        args[3] = args[2][0]
    elif alias == "initcoords is refcoords[0]":
        args[0] = args[1][0]
    return args


def purity_run(qf, fn, plain, kind, alias, plains_series=None):
    """One history on the real code.  Returns None or (condition, field, message).
    plains_series: further plain argument tuples whose object arguments marked None are taken from the
    FIRST call's objects (the same template object reused for several placements)."""
    names, objidx = PURITY_FNS[fn]
    f = getattr(qf, fn)
    args = purity_build(fn, plain, kind, alias)
    before = [snap(a) for a in args]
    try:
        with np.errstate(all="ignore"):
            r1 = f(*args)
    except Exception as e:  # noqa
        return "raises:" + type(e).__name__, "call", f"{fn} raised {type(e).__name__}: {e} for {kind} arguments"
    after = [snap(a) for a in args]
    changed = [names[i] for i in range(len(args)) if before[i] != after[i]]
    if changed:
        try:
            with np.errstate(all="ignore"):
                again = "differs from" if bits(f(*args)) != bits(r1) else "equals"
        except Exception as e:  # noqa
            again = "raises " + type(e).__name__ + " unlike"
        return "mutates-its-argument", changed[0], (
            f"{fn}: argument(s) {changed} changed during the call ({kind} objects{', ' + alias if alias else ''}); "
            f"a second call with the same objects {again} the first"
        )
    if aliases(r1, [args[i] for i in objidx]):
        return "result-aliases-argument", "result", f"{fn}: the result shares a mutable container with an argument ({kind} objects)"
    b1 = bits(r1)
    try:
        with np.errstate(all="ignore"):
            r2 = f(*args)
    except Exception as e:  # noqa
        return "repeated-call-differs", "result", f"{fn}: second call with the same objects raised {type(e).__name__}"
    if bits(r2) != b1:
        return "repeated-call-differs", "result", f"{fn}: second call with the same argument objects returns different values ({kind} objects)"
    # same values, new plain-list objects: the result may not depend on the object kind / history
    rf = f(*purity_build(fn, plain, "list", alias))
    if bits(rf) != b1:
        return "repeated-call-differs", "result", f"{fn}: result for {kind} objects differs from the result for fresh lists with equal values"
    for plain2 in plains_series or ():
        a2 = [args[i] if v is None else (conv(v, kind) if i in objidx else v) for i, v in enumerate(plain2)]
        full = [plain[i] if v is None else v for i, v in enumerate(plain2)]
        with np.errstate(all="ignore"):
            rr = f(*a2)
            rfresh = f(*purity_build(fn, full, "list", None))
        if bits(rr) != bits(rfresh):
            return "repeated-call-differs", "result", f"{fn}: placement with a REUSED template object differs from the same call with fresh objects"
        if [snap(a) for a in args] != before:
            return "mutates-its-argument", "template", f"{fn}: reused template objects changed over a series of calls"
    return None


def purity_plain(rng, fn):
    """Plain (nested list) argument data with centroids away from the origin."""
    n = rng.choice([2, 3, 3, 4])
    shift = [rng.uniform(-20, 20) for _ in range(3)]
    pts = [[round(v + sh, 3) for v, sh in zip(p, shift)] for p in gen_coords(rng, n, "unit")]
    pts2 = gen_coords(rng, n, "pdb")
    m = gen_coords(rng, 3, "unit")
    if fn == "center":
        return (n, pts)
    if fn == "translate":
        return (n, pts, gen_coords(rng, 1, "pdb")[0], rng.choice([1, 2, 3]))
    if fn == "rotmol":
        return (n, pts, m)
    if fn == "q2mat":
        return ([rng.uniform(-1, 1) for _ in range(4)],)
    if fn == "qtrfit":
        return (n, pts, pts2, 30)
    if fn == "qfit":
        return (n, pts2, pts)
    if fn == "qtransform":
        k = rng.choice([1, n])
        return (k, pts[0] if k == 1 else pts, gen_coords(rng, 1, "pdb")[0], gen_coords(rng, 1, "unit")[0], m)
    if fn == "find_coordinates":
        return (n, pts2, pts, [round(v + sh, 3) for v, sh in zip(gen_coords(rng, 1, "unit")[0], shift)])
    if fn == "qchichange":
        return (pts[0], pts2, rng.choice([120.0, -60.0, 180.0, rng.uniform(-180, 180)]))
    raise ValueError(fn)


def search_purity(ctx, qf, rounds):
    rng = ctx.rng
    seen = set()
    for _ in range(rounds):
        for fn in PURITY_FNS:
            plain = purity_plain(rng, fn)
            for alias in PURITY_ALIASES.get(fn, [None]):
                for kind in ARG_KINDS:
                    series = None
                    if fn == "find_coordinates" and alias is None:
                        # the caller keeps ONE template (defcoords, defatomcoords) and places it onto several structures
                        series = [(plain[0], gen_coords(rng, plain[0], "pdb"), None, None) for _ in range(3)]
                    bad = purity_run(qf, fn, plain, kind, alias, series)
                    ctx.evaluated(("purity", fn, kind, alias, _), True)
                    ctx.count(f"purity:{fn}")
                    if bad and (fn, bad[0], bad[1]) not in seen:
                        seen.add((fn, bad[0], bad[1]))
                        cond, field, msg = bad
                        ctx.fail(
                            {"site": f"quatfit.{fn}", "field": field, "condition": cond},
                            "purity: " + msg,
                            {"type": "purity", "fn": fn, "kind": kind, "alias": alias, "args": list(plain), "series": [list(x) for x in series] if series else None},
                        )



# --------------------------------------------------------------------------
# search 3: rotation routines at BOUNDARY angles, judged by the property only
# (qchichange, Debump.set_dihedral_angle, Residue.rotate_tetrahedral)

BOUNDARY_BASE = [0.0, 90.0, 180.0, 270.0, 360.0, 450.0, 720.0]


def boundary_angles(rng):
    """One angle from the boundary set (both signs, +-1e-9 around the quarter turns) or at random."""
    r = rng.random()
    if r < 0.45:
        a = rng.choice(BOUNDARY_BASE) * rng.choice([1.0, -1.0])
        return a + rng.choice([0.0, 0.0, 0.0, 1e-9, -1e-9])
    if r < 0.7:
        return rng.choice([5.0, -5.0, 120.0, -120.0, 1e-300, -1e-300, 1e6 + 45, -(1e6 + 45), 1e-9, -1e-9, 60.0, -60.0, 179.99, -179.99])
    if r < 0.8:
        return 90.0 * rng.randint(-12, 12)
    return rng.uniform(-720, 720)


def angle_class(a):
    """Stable classification of a rotation angle (degrees) for signatures / coverage."""
    a = float(a)
    if a == 0.0:
        return "zero"
    sign = "negative" if a < 0 else "positive"
    if abs(a) < 1e-100:
        return f"{sign}-tiny"
    if abs(a) >= 1e5:
        return f"{sign}-huge"
    if math.fmod(a, 90.0) == 0.0:
        k = int(round(abs(a) / 90.0))
        return f"{sign}-odd-quarter-turn" if k % 2 else f"{sign}-multiple-of-180"
    if abs(a / 90.0 - round(a / 90.0)) * 90.0 <= 1e-6:
        return f"{sign}-near-quarter-turn"
    return "generic"


def judge_rotation(site, pa, pb, moved0, moved1, angle=None, torsion_ref=None, want=None, unmoved=()):
    """Property-only judgement of a rotation about the axis pa -> pb.
    moved0 / moved1: coordinates of the moved set before / after; angle: the rotation asked for (each moved
    atom's torsion about pa->pb relative to a fixed reference must advance by it, mod 360); want + torsion_ref:
    instead the absolute torsion (torsion_ref, pa, pb, moved[0]) must equal want (mod 360);
    unmoved: (name, before, after) triples that must be bit-identical.  Returns (condition, message) or None."""
    pa, pb = np.asarray(pa, float), np.asarray(pb, float)
    m0 = [np.asarray(x, float) for x in moved0]
    m1 = [np.asarray(x, float) for x in moved1]
    for name, b0, b1 in unmoved:
        if not all(float(x).hex() == float(y).hex() for x, y in zip(b0, b1)):
            return "unmoved-atom-changed", f"atom {name} outside the moved set changed"
    if not all(np.all(np.isfinite(x)) for x in m1):
        return "non-finite", "non-finite coordinates"
    # rigid: all pair distances inside the moved set and to both axis atoms
    for i in range(len(m0)):
        for lab, ax in (("axis atom 1", pa), ("axis atom 2", pb)):
            d0, d1 = float(np.linalg.norm(m0[i] - ax)), float(np.linalg.norm(m1[i] - ax))
            if abs(d0 - d1) > TOL_POS:
                return "not-rigid", f"distance of moved atom {i} to {lab} changed {d0!r} -> {d1!r}"
        for j in range(i + 1, len(m0)):
            d0, d1 = float(np.linalg.norm(m0[i] - m0[j])), float(np.linalg.norm(m1[i] - m1[j]))
            if abs(d0 - d1) > TOL_POS:
                return "not-rigid", f"distance between moved atoms {i} and {j} changed {d0!r} -> {d1!r}"
    # handedness: signed volume spanned from the first axis atom
    if len(m0) >= 3:
        v0 = float(np.dot(np.cross(m0[0] - pa, m0[1] - pa), m0[2] - pa))
        v1 = float(np.dot(np.cross(m1[0] - pa, m1[1] - pa), m1[2] - pa))
        if abs(v0) > 1e-3 and abs(v0 - v1) > 1e-5 * max(1.0, abs(v0)):
            return "handedness", f"signed volume of the moved set {v0!r} -> {v1!r}"
    # torsion
    e = unit(pb - pa)
    if want is not None:
        meas = independent_dihedral(torsion_ref, pa, pb, m1[0])
        if angdiff(meas, want) > TOL_TORS:
            return "torsion-not-reproduced", f"requested torsion {want!r}, measured {meas:.6f} (before {independent_dihedral(torsion_ref, pa, pb, m0[0]):.6f})"
    if angle is not None:
        # a reference point off the axis, fixed in space
        t = np.cross(e, [1.0, 0.0, 0.0]) if abs(e[0]) < 0.9 else np.cross(e, [0.0, 1.0, 0.0])
        ref = pa + unit(t)
        for i in range(len(m0)):
            rho = np.linalg.norm((m0[i] - pa) - np.dot(m0[i] - pa, e) * e)
            if rho < 0.1:
                continue
            delta = independent_dihedral(ref, pa, pb, m1[i]) - independent_dihedral(ref, pa, pb, m0[i])
            if angdiff(delta, angle) > TOL_TORS:
                return "torsion-not-reproduced", f"rotation by {angle!r} degrees asked, torsion of moved atom {i} about the axis advanced by {delta % 360.0:.6f} (mod 360)"
    return None


def run_rotation_case(case, qf, util):
    """Execute one boundary case on the real code and judge it. Returns (site, verdict)."""
    from pdb2pqr.debump import Debump
    from pdb2pqr.residue import Residue

    kind = case["routine"]
    if kind == "qchichange":
        init, coords, angle = case["init"], case["coords"], case["angle"]
        with np.errstate(all="ignore"):
            out = qf.qchichange(fresh(init), fresh(coords), angle)
        return "quatfit.qchichange", judge_rotation("quatfit.qchichange", [0.0, 0.0, 0.0], init, coords, out, angle=angle)
    if kind == "set_dihedral":
        tc = {"pts": case["pts"], "angle": case["angle"]}
        names, before, after, old, stored = run_torsion_case(tc, util, Debump)
        v = judge_rotation(
            "Debump.set_dihedral_angle", before["B"], before["C"], [before[n] for n in names[3:]], [after[n] for n in names[3:]],
            want=case["angle"], torsion_ref=before["A"], unmoved=[(n, before[n], after[n]) for n in "ABC"],
        )
        if v is None and angdiff(stored, case["angle"]) > TOL_TORS:
            v = ("torsion-not-reproduced", f"residue.dihedrals holds {stored!r}, requested {case['angle']!r}")
        return "Debump.set_dihedral_angle", v
    if kind == "rotate_tetrahedral":
        a1, a2 = SAtom("X1", case["a1"]), SAtom("X2", case["a2"])
        hs = [SAtom(f"H{i}", h) for i, h in enumerate(case["hs"])]
        a2.bonds = [a1] + hs
        with np.errstate(all="ignore"):
            Residue.rotate_tetrahedral(a1, a2, case["angle"])
        v = judge_rotation(
            "Residue.rotate_tetrahedral", case["a1"], case["a2"], case["hs"], [h.coords for h in hs], angle=case["angle"],
            unmoved=[("X1", case["a1"], a1.coords), ("X2", case["a2"], a2.coords)],
        )
        return "Residue.rotate_tetrahedral", v
    raise ValueError(kind)


def gen_rotation_case(rng, util, routine):
    R, _ = rand_rotation(rng)
    T, scale = rand_translation(rng) if rng.random() < 0.25 else (np.zeros(3), 0.0)
    b = boundary_angles(rng)
    if routine == "qchichange":
        init = list(map(float, rand_axis(rng) * rng.uniform(0.9, 1.6)))
        coords = [list(map(float, np.array(init) * rng.uniform(0.5, 1.2) + rand_axis(rng) * rng.uniform(0.8, 1.6))) for _ in range(rng.choice([1, 3, 4]))]
        return {"type": "rotation", "routine": routine, "init": init, "coords": coords, "angle": float(b), "rotation_angle": float(b)}
    if routine == "rotate_tetrahedral":
        bl = rng.uniform(1.0, 1.6)
        hs = []
        for i in range(3):
            tilt, az = math.radians(rng.uniform(55, 80)), rng.uniform(0, 2 * math.pi)
            hs.append(np.array([0, 0, bl]) + rng.uniform(0.9, 1.1) * np.array([math.sin(tilt) * math.cos(az), math.sin(tilt) * math.sin(az), math.cos(tilt)]))
        return {"type": "rotation", "routine": routine, "a1": list(map(float, R @ np.zeros(3) + T)), "a2": list(map(float, R @ np.array([0, 0, bl]) + T)),
                "hs": [list(map(float, R @ h + T)) for h in hs], "angle": float(b), "rotation_angle": float(b)}
    # set_dihedral: the rotation handed to qchichange is requested - current, so the boundary value is put on
    # the DIFFERENCE: requested = current + b, adjusted by a few ulps so that requested - current == b exactly
    tc = gen_torsion_case(rng)
    while len(tc["pts"]) < 7:
        tc["pts"].append(list(map(float, np.array(tc["pts"][3]) + rand_axis(rng) * rng.uniform(0.9, 1.5))))
    old = float(util.dihedral(*tc["pts"][:4]))
    req = old + b
    for _ in range(8):
        if req - old == b or not math.isfinite(req):
            break
        req = np.nextafter(req, math.inf if (req - old) < b else -math.inf)
    req = float(req)
    return {"type": "rotation", "routine": "set_dihedral", "pts": tc["pts"], "angle": req, "rotation_angle": float(req - old), "current": old}


def search_rotation_boundary(ctx, qf, util, ncases):
    rng = ctx.rng
    seen = set()
    for k in range(ncases):
        routine = ("qchichange", "set_dihedral", "rotate_tetrahedral")[k % 3]
        try:
            case = gen_rotation_case(rng, util, routine)
        except Exception:  # noqa - degenerate random chain
            continue
        if routine == "set_dihedral":
            p = [np.array(x) for x in case["pts"][:4]]
            s1 = np.linalg.norm(np.cross(unit(p[0] - p[1]), unit(p[2] - p[1])))
            s2 = np.linalg.norm(np.cross(unit(p[3] - p[2]), unit(p[1] - p[2])))
            if min(s1, s2) < 5e-2 or not math.isfinite(case["current"]):
                continue
        cls = angle_class(case["rotation_angle"])
        try:
            site, v = run_rotation_case(case, qf, util)
        except Exception as e:  # noqa
            site, v = {"qchichange": "quatfit.qchichange", "set_dihedral": "Debump.set_dihedral_angle", "rotate_tetrahedral": "Residue.rotate_tetrahedral"}[routine], ("exception:" + type(e).__name__, str(e))
        ra = case["rotation_angle"]
        ctx.evaluated(("rotation", routine, cls, round(ra, 6) if abs(ra) < 1e5 else ra), abs(math.sin(math.radians(ra))) > 0.05)
        ctx.count(f"rotation:{routine}:{cls}")
        if v and (site, v[0], cls) not in seen:
            seen.add((site, v[0], cls))
            ctx.fail({"site": site, "condition": v[0], "angle-class": cls}, f"{site} by {ra!r} degrees: {v[1]}", case)


def judge_corr_case(c, qf, util):
    """A correspondence case that disagrees is re-judged by the model-independent oracle where one exists:
    if the implementation's result violates the property, the case IS a failing input.
    Returns (signature, message, replayable case) or None."""
    what, d = c["what"].split(" ")[0], c["data"]
    try:
        if what == "qchichange":
            case = {"type": "rotation", "routine": "qchichange", "init": d["init"], "coords": d["coords"], "angle": float(d["angle"]), "rotation_angle": float(d["angle"])}
            site, v = run_rotation_case(case, qf, util)
            if v:
                return {"site": site, "condition": v[0], "angle-class": angle_class(d["angle"])}, f"{site} by {d['angle']!r} degrees: {v[1]}", case
            return None
        tol = 1e-9
        if what == "center":
            P = np.array(d["pts"], float)
            cen, rel = qf.center(len(P), fresh(d["pts"]))
            sc = max(1.0, float(np.abs(P).max()))
            bad = np.abs(np.array(cen, float) - P.mean(axis=0)).max() > tol * sc or np.abs(np.array(rel, float) - (P - P.mean(axis=0))).max() > tol * sc
        elif what == "translate":
            P, cc = np.array(d["pts"], float), np.array(d["c"], float)
            out = np.array(qf.translate(len(P), fresh(d["pts"]), fresh(d["c"]), d["mode"]), float)
            m = {1: -1.0, 2: 1.0}.get(d["mode"], 0.0)
            bad = np.abs(out - (P + m * cc)).max() > tol * max(1.0, float(np.abs(P).max()), float(np.abs(cc).max()))
        elif what == "rotmol":
            P, M = np.array(d["pts"], float), np.array(d["m"], float)
            out = np.array(qf.rotmol(len(P), fresh(d["pts"]), fresh(d["m"])), float)
            bad = np.abs(out - P @ M).max() > tol * max(1.0, float(np.abs(P).max()) * max(1.0, float(np.abs(M).max())))
        elif what == "q2mat":
            q = np.array(d["q"], float)
            bad = np.abs(np.array(qf.q2mat(fresh(d["q"])), float) - q2mat_indep(q)).max() > tol
        else:
            return None
    except Exception as e:  # noqa
        return {"site": f"quatfit.{what}", "condition": "exception:" + type(e).__name__}, str(e), {"type": "corrjudge", "what": c["what"], "data": d}
    if bad:
        return {"site": f"quatfit.{what}", "condition": "differs-from-independent-formula"}, f"quatfit.{what} differs from the independent numpy formula by more than 1e-9", {"type": "corrjudge", "what": c["what"], "data": d}
    return None


# --------------------------------------------------------------------------


def run(ctx):
    import logging

    logging.getLogger().setLevel(logging.ERROR)
    from pdb2pqr import quatfit as qf
    from pdb2pqr import utilities as util

    ctx.cov["rule"] = (
        "purity: every tied quatfit entry x argument kinds (list, tuple, ndarray, list of ndarray, list of tuple) x aliasing "
        "(one object for two parameters, template reused over 4 placements), centroids away from the origin so an in-place shift is visible. "
        "rotations at boundary angles: qchichange / Debump.set_dihedral_angle (boundary value put on requested - current, exact to the ulp) / "
        "Residue.rotate_tetrahedral with angles 0, +-90, +-180, +-270, +-360, +-450, +-720 (+-1e-9), k*90 for |k| <= 12, +-5, +-60, +-120, +-179.99, "
        "+-1e-300, +-(1e6+45), uniform(-720, 720); judged by torsion reproduced (mod 360), rigidity, handedness, unmoved atoms; counted per angle-class. "
        "fits: templates (bonded 3-point with 95-130 degree angle, random triples, near-collinear with sine 1e-3..1e-1, "
        "planar/non-planar quadruples, 5-6 points; half rounded to 3 decimals) x rotations (random axis/angle plus "
        "0, pi, pi-1e-6, pi-1e-9, 1e-6, +-120, 90 degrees) x translations (0..1e5 per axis); structure = numpy image; "
        "oracle = numpy image of the template atom. torsions: chains with bond angles 95-125 (and 0.5-5 / 175-179.5 degrees), "
        "initial torsion anywhere incl. +-180/0 +-1e-7, requested angles anywhere incl. +-180, +-179.99; extra atoms ride "
        "along; real residues of 1AJJ (all side-chain dihedrals, also shifted by ~9e4 A). non-trivial = rotation angle "
        "not ~0 (|sin(theta/2)| > 0.05) and placed atom >= 0.05 A off the template plane (a mirror image would differ) / "
        "torsion change with |sin(diff)| > 0.05 (a sign error is visible). distinct by (kind, n, log10 conditioning, "
        "log10 offset, angle rounded)."
    )
    ok = core.proof_stage(ctx, "C15", THEOREMS, ALLOWED_AXIOMS)
    mult = 12 if ctx.thorough else 2
    # ---- corpus (minimised regression cases) first
    seeds_fit = []
    cdir = core.CORPUS / "C15"
    if cdir.is_dir():
        import json

        for f in sorted(cdir.glob("*.json")):
            c = json.loads(f.read_text())
            if c.get("type") == "fit":
                seeds_fit.append(c)
                ctx.count("corpus:fit")
    # ---- correspondence
    corr_broken = False
    with np.errstate(all="ignore"):
        exit_reports = []
        cases = build_corr_cases(ctx, qf, util, mult, exit_reports)
        for c in seeds_fit:
            out = flat(qf.find_coordinates(c["n"], fresh(c["refs"]), fresh(c["defs"]), fresh(c["atom"])))
            cases.insert(0, {"what": "find_coordinates (corpus)", "term": f"F_find_coordinates {c['n']} {cpts(c['refs'])} {cpts(c['defs'])} {cpt(c['atom'])}", "expected": out, "mode": "exact", "data": {k: c[k] for k in ("refs", "defs", "atom", "n")}})
    try:
        res = core.run_cases("C15", HEADER, [c["term"] for c in cases], chunk=80)
    except core.CoqEvalError as e:
        res = None
        corr_broken = True
        ctx.broke("correspondence-broken", "model evaluation failed", str(e))
    judged_seen = set()
    if res is not None:
        for c, r in zip(cases, res):
            ctx.cov["correspondence_cases"] += 1
            why = compare(c, r)
            if why:
                ctx.cov["correspondence_disagreements"] += 1
                corr_broken = True
                # a disagreeing case that the model-independent oracle can judge and that violates the
                # property IS a failing input: report it with its own replay
                judged = judge_corr_case(c, qf, util)
                if judged and json_key(judged[0]) not in judged_seen:
                    judged_seen.add(json_key(judged[0]))
                    ctx.fail(judged[0], "correspondence case violates the property: " + judged[1], judged[2])
                if len([b for b in ctx.broken if b["kind"] == "correspondence-broken"]) < 4:
                    ctx.broke("correspondence-broken", f"Model.Quatfit {c['term'].split(' ')[0]} vs pdb2pqr {c['what']}", why, {"type": "corr", "what": c["what"], "data": c["data"]})
        sweeps = [int(t[1:]) for r in res for t in r.split() if t.startswith("#")]
        if sweeps:
            ctx.cov["jacobi_sweeps_max"] = max(sweeps)
            ctx.cov["jacobi_sweeps_hist"] = {str(k): sweeps.count(k) for k in sorted(set(sweeps))}
    # ---- search on the real code with independent oracles
    boost = 6 if (not ok or corr_broken) else 1
    nfit = (20000 if ctx.thorough else 2500) * boost
    ntors = (20000 if ctx.thorough else 2500) * boost
    search_purity(ctx, qf, (40 if ctx.thorough else 6) * boost)
    exit_stats = search_fit(ctx, qf, nfit, seeds_fit)
    # arbitrary 4x4 matrices of the correspondence stage (incl. nrot < 30: fuel exhaustion - the
    # invariant is proved for every fuel value, convergence is only demanded for nrot = 30)
    arb = ExitStats()
    for rep, m, nrot, kind in exit_reports:
        arb.add(rep, converged_expected=nrot >= 30)
        ctx.evaluated(("jacobi-exit", kind, nrot, len(arb.res_values)), kind not in ("diag", "zero"))
    # convergence within 30 sweeps is demanded of the qtrfit matrices only (above); for arbitrary
    # matrices it is counted, the invariant itself (orthogonality, similarity, ordering) is demanded
    report_exit_failures(ctx, [(rep, m, nrot) for rep, m, nrot, kind in exit_reports if rep["why"] and rep["why"] != "not-converged-in-nrot-sweeps"])
    ctx.cov["jacobi_arbitrary_matrices_not_converged_in_30_sweeps"] = sum(1 for rep, m, nrot, kind in exit_reports if rep["why"] == "not-converged-in-nrot-sweeps")
    ctx.cov["jacobi_exit_qtrfit_calls"] = exit_stats.summary()
    ctx.cov["jacobi_exit_arbitrary_matrices"] = arb.summary()
    search_torsion(ctx, util, ntors)
    search_tetra(ctx, util, (4000 if ctx.thorough else 500) * boost)
    search_rotation_boundary(ctx, qf, util, (15000 if ctx.thorough else 1800) * boost)
    try:
        search_real_residues(ctx, util, 4 if ctx.thorough else 2)
    except Exception as e:  # noqa - the real-structure path is a bonus; its failure to set up is reported, not fatal
        ctx.notes.append(f"real-residue torsion search could not run: {type(e).__name__}: {e}")
    # ---- samples and bookkeeping
    fcs = gen_fit_case(ctx.rng, "bonded")
    ctx.sample({"fit_case": {k: fcs[k] for k in ("defs", "refs", "atom", "theta", "offset")}, "impl": list(map(float, qf.find_coordinates(3, fresh(fcs["refs"]), fresh(fcs["defs"]), fresh(fcs["atom"])))), "oracle": (np.array(fcs["R"]) @ np.array(fcs["atom"]) + np.array(fcs["T"])).tolist()})
    ctx.sample({"correspondence_term": cases[130]["term"][:400], "expected_hex": [float(x).hex() for x in cases[130]["expected"]][:6] if cases[130]["expected"] != "EXC" else "EXC"})
    ctx.sample({"purity_history": "find_coordinates(3, refs, defs, atom) with list objects; snapshot(args) before == after bit for bit; result shares no list with args; second call with the same objects bit-identical; then 3 more placements reusing defs/atom vs fresh-object calls"})
    ctx.sample({"obligation": "C15_jacobi_invariant: wf4 am |- let st := jsweeps nrot (jinit am) in wfst st /\\ orth (st_V st) /\\ meq (V^T (A0_of am) V) (st_sym st)   (every nrot)"})
    ctx.sample({"obligation": "C15_fit_exact_image: unit p, non-collinear template, eigen contract |- find_coordinates (length defs) (map (rigid (q2mat p) T) defs) defs atom = Some (rigid (q2mat p) T atom)"})
    ctx.trusted += [
        "oracles (values passed into the model, never modelled): math.cos, math.sin, math.acos, numpy.linalg.norm, numpy.inner",
        "eigen-solver contract (unit maximiser of q^T C q): a THEOREM when the Jacobi iteration stops with zero off-diagonal part "
        "(C15_jacobi_eigen_contract, C15_fit_exact_image_jacobi); otherwise a HYPOTHESIS of C15_fit_exact_image / C15_fit_equivariant, checked "
        "numerically on every qtrfit call of the search (|q|=1, residual, maximality vs numpy.linalg.eigvalsh)",
        "Jacobi CONVERGENCE within 30 sweeps and the effect of the non-zero exit threshold 1e-12 are NOT proved; measured per call: exit residual "
        "onorm/dnorm (coverage.jacobi_exit_*), drift of the proved invariant (|V^T V - I|, |V^T A0 V - current matrix|) in binary64",
        "rounding gap between the real-number instance (theorems) and the binary64 instance (execution) is not proved; "
        "the tolerances 1e-6 A / 0.05 degrees are measured by the search on the real code",
        "purity of the implementation (arguments unchanged, no aliasing, repeatable) is a CHECKED obligation of the tie (search_purity on the real code, "
        "generated histories), not a theorem: the model is pure by construction; quatfit.jacobi mutates its matrix argument by design and is exempt",
        "modelled, not verified: quatfit.py, utilities.dihedral (hand model Model/Quatfit.v, tied bit-exactly on generated cases)",
    ]
    ctx.assumptions += [
        "CPython float arithmetic is IEEE-754 binary64 without FMA contraction (same as Coq PrimFloat)",
        "non-degenerate = template conditioning (2nd/1st singular value of the centred template) >= 5e-4; bond angles of torsion chains >= 0.3 degrees from collinear",
    ]


def replay(ctx, data):
    import logging

    logging.getLogger().setLevel(logging.ERROR)
    from pdb2pqr import quatfit as qf
    from pdb2pqr import utilities as util

    case = data["case"]
    t = case.get("type")
    if t == "fit":
        with ContractMonitor(qf) as mon:
            try:
                got = qf.find_coordinates(case["n"], fresh(case["refs"]), fresh(case["defs"]), fresh(case["atom"]))
            except Exception as e:  # noqa
                got = None
            last = mon.last
        exp = np.array(case["R"]) @ np.array(case["atom"]) + np.array(case["T"])
        err = float("inf") if got is None else float(np.linalg.norm(np.array(got, float) - exp))
        bad = not (err <= TOL_POS)
        if case.get("check") == "contract":
            bad = bad or (last is not None and not last["ok"])
        if case.get("check") == "equivariance" and got is not None:
            G, S = np.array(case["G"]), np.array(case["S"])
            refs2 = [list(map(float, G @ np.array(p) + S)) for p in case["refs"]]
            got2 = np.array(qf.find_coordinates(case["n"], refs2, fresh(case["defs"]), fresh(case["atom"])), float)
            e2 = float(np.linalg.norm(got2 - (G @ np.array(got, float) + S)))
            bad = bad or not (e2 <= TOL_POS)
            print("replay: equivariance error", e2)
        print("replay:", "FAILS" if bad else "passes", f"placement error {err:.3g} A; signature", classify_fit(case, got, last) if bad else None)
        return 1 if bad else 0
    if t == "proper":
        _, _, lrot = qf.qfit(case["n"], fresh(case["refs"]), fresh(case["defs"]))
        M = np.array(lrot, float)
        bad = np.abs(M.T @ M - np.eye(3)).max() > 1e-9 or abs(np.linalg.det(M) - 1) > 1e-9
        print("replay:", "FAILS" if bad else "passes", "det", float(np.linalg.det(M)))
        return 1 if bad else 0
    if t == "torsion":
        from pdb2pqr.debump import Debump

        try:
            names, before, after, old, stored = run_torsion_case(case, util, Debump)
            d = diagnose_torsion(case, names, before, after, old, stored, util)
        except Exception as e:  # noqa
            d = ({"condition": "exception"}, str(e))
        print("replay:", ("FAILS: " + d[1]) if d else "passes")
        return 1 if d else 0
    if t == "rotation":
        site, v = run_rotation_case(case, qf, util)
        print("replay:", ("FAILS: " + str(v)) if v else "passes", site, "rotation by", case.get("rotation_angle"), "degrees", angle_class(case.get("rotation_angle", 0.0)))
        return 1 if v else 0
    if t == "corrjudge":
        j = judge_corr_case({"what": case["what"], "data": case["data"]}, qf, util)
        print("replay:", ("FAILS: " + j[1]) if j else "passes", case["what"])
        return 1 if j else 0
    if t == "purity":
        series = [tuple(x) for x in case["series"]] if case.get("series") else None
        bad = purity_run(qf, case["fn"], tuple(case["args"]), case["kind"], case.get("alias"), series)
        print("replay:", ("FAILS: " + str(bad)) if bad else "passes", f"quatfit.{case['fn']} with {case['kind']} arguments")
        return 1 if bad else 0
    if t == "jacobi":
        mm = copy.deepcopy(case["amat"])
        dvec, vmat = qf.jacobi(mm, case["nrot"])
        rep = jacobi_exit_check(case["amat"], case["nrot"], dvec, vmat, mm)
        print("replay:", "FAILS" if rep["why"] else "passes", {k: rep[k] for k in ("why", "orth", "sim", "res")})
        return 1 if rep["why"] else 0
    if t == "corr":
        print("replay: correspondence case", case.get("what"), "- rerun ./check C15 to re-evaluate the model against the code")
        return 1
    # tetra / real-torsion: rerun the searches
    c2 = core.Ctx("C15", "quick", data.get("seed", 0))
    if t == "tetra":
        search_tetra(c2, util, 200)
    else:
        search_real_residues(c2, util, 2)
    print("replay:", "FAILS" if c2.failures else "passes", [f["what"] for f in c2.failures[:3]])
    return 1 if c2.failures else 0
