"""C14 - neighbour search returns every atom within range."""

import math
import os
import tempfile
from fractions import Fraction

from harness import cellmon, core

META = {
    "id": "C14",
    "level": "proof",
    "technique": "Coq proof (integer-division kernel lemmas + invariant induction over operation histories) of a hand-written model of cells.py, and of a model of every call-site protocol of pdb2pqr that touches the cell list, coordinates or atom membership while a Cells object is live (Model/CellsUse.v; tied to the source by an ast-extracted call-site table that is a proof obligation); correspondence on random op sequences, on replayed real traces and by checking that every observed per-call-site op trace is an instance of its modelled protocol; brute-force monitor of real histories",
    "level_text": (
        "Proved for ALL coordinates (exact rationals m/D: negative, zero, cell boundaries, huge), all cell sizes > 0 and ALL "
        "histories of add/remove/move that keep the discipline (moves and re-adds only on unregistered atoms): query + distance "
        "filter = brute force, no duplicates. The model is the code's int()-then-// bucket and 27-cell scan, tied to cells.py by "
        "exact comparison of ordered query results on random (also undisciplined) op sequences. pdb2pqr's own use of the cell list is "
        "modelled call site by call site (set_dihedral_angle, the debump loop, Flip/Alcoholic/Water/Carboxylic __init__, try_donor, "
        "try_acceptor, try_both, finalize, complete, fix, rename, and everything they call in optimize.py) with all geometry and decisions as "
        "oracles; PROVED for all oracle values and all bond lists: every protocol maps a truthful cell list (Inv, registered <-> in the "
        "structure) to a truthful one, every get_near_cells call inside a protocol is issued in a truthful state, and ANY sequence of "
        "protocols after assign_cells answers every query like brute force (C14_histories_of_protocols, no side condition). "
        "get_positions_with_two_bonds / get_position_with_three_bonds rotate REGISTERED atoms without telling the cell list; since "
        "e1a3cf3 (finding C14-F6) they write the saved coordinates back, which is what the model has and why they are disciplined for all "
        "rotation results. Every logged query carries the atom the returned block is USED for (q_used); the model, the static table "
        "query_use (C14_blocks_used_where_queried) and the run-time use-site oracle all demand that a block is used for the atom it was queried "
        "for (C14_block_reuse_misses shows a group mate in another cell loses a neighbour otherwise). The model-to-source tie is (i) the ast-extracted table of call-site skeletons "
        "(obligation C14_sites_table_matches_model breaks when any function gains, loses or reorders a cell op, coordinate write, atom "
        "creation/removal or rotation), (ii) a shape check of every observed per-call-site op trace of the monitored runs against the "
        "modelled protocol, and (iii) the brute-force monitor + invariant sweep on every query of real runs. Bond-list bookkeeping of "
        "create_atom (which atoms a new atom is bonded to) and which run-time branch is taken are oracles, explored not proved."
    ),
    "level_note": (
        "Trusted: Coq kernel+vm_compute; the hand model Model/Cells.v (tied by differential execution); exact float->rational "
        "conversion in the harness; the monitor (monkeypatches Cells, Atom.__setattr__, Residue.remove_atom). Real histories are "
        "explored on a fixed set of structures, not proved."
    ),
    "design_ref": "DESIGN.md 4 C14",
}

THEOREMS = [
    "C14_key_code_idx",
    "C14_idx_adjacent",
    "C14_query_exact",
    "C14_query_nodup",
    "C14_inv_step",
    "C14_reachable_query_exact",
    "C14_undisciplined_miss",
    "C14_nonvacuous",
    "C14_sites_table_matches_model",
    "C14_protocol_assign_cells_disciplined",
    "C14_protocol_set_dihedral_angle_disciplined",
    "C14_protocol_debump_window_disciplined",
    "C14_protocol_remove_delete_disciplined",
    "C14_protocol_flip_init_disciplined",
    "C14_protocol_carboxylic_disciplined",
    "C14_protocol_try_donor_acceptor_disciplined",
    "C14_protocol_try_both_disciplined",
    "C14_protocol_finalize_disciplined",
    "C14_protocol_get_positions_disciplined",
    "C14_get_positions_regression",
    "C14_blocks_used_where_queried",
    "C14_block_reuse_misses",
    "C14_histories_of_protocols",
    "C14_history_nonvacuous",
]

# ---- call-site protocols: observed op letters per call site must match ----------
# letters (harness/cellmon.py): A add, B add of a registered atom, R remove, W write on an
# unregistered atom, X write on a REGISTERED atom, Q query, N new Atom object, D remove_atom of an
# unregistered atom, G remove_atom of a REGISTERED atom.  One regex per modelled call site = the
# language of its protocol in Model/CellsUse.v, starred because consecutive calls of the same
# function merge into one segment.
_RD = r"(?:RD)*"
SHAPES = {
    # assign_cells: one add per atom of the structure
    "debump.Debump.debump_biomolecule": r"A*",
    "debump.Debump.get_bump_score": r"A*",
    "hydrogens.HydrogenRoutines.initialize_full_optimization": r"A*",
    "hydrogens.HydrogenRoutines.initialize_wat_optimization": r"A*",
    "debump.Debump.debump_residue": r"(?:RW*A)*",  # set_dihedral_angle
    "debump.Debump.find_nearby_atoms": r"Q*",
    "debump.Debump.get_closest_atom": r"Q*",
    "debump.Debump.get_bump_score_atom": r"Q*",
    "hydrogens.HydrogenRoutines.optimize_hydrogens": r"Q*",
    "hydrogens.structures.Flip.__init__": r"(?:RW*A|NW*A)*",
    "hydrogens.structures.Carboxylic.__init__": r"(?:RW*A|NW*A)*",
    "hydrogens.structures.Flip.fix_flip": _RD,
    "hydrogens.structures.Flip.finalize": _RD,
    "hydrogens.structures.Alcoholic.__init__": _RD,
    "hydrogens.structures.Alcoholic.complete": _RD,
    "hydrogens.structures.Water.complete": _RD,
    "hydrogens.structures.Carboxylic.fix": _RD,
    "hydrogens.structures.Carboxylic.rename": _RD,
    "hydrogens.structures.Carboxylic.try_acceptor": _RD,
    "hydrogens.structures.Alcoholic.try_both": _RD,
    "hydrogens.structures.Water.try_both": _RD,
    "hydrogens.structures.Water.try_donor": _RD,
    "hydrogens.structures.Carboxylic.finalize": r"(?:Q|RD)*",
    "hydrogens.optimize.Optimize.make_atom_with_no_bonds": r"(?:NW*A)*",
    "hydrogens.optimize.Optimize.make_atom_with_one_bond_h": r"(?:NW*)*",
    "hydrogens.optimize.Optimize.make_atom_with_one_bond_lp": r"(?:NW*)*",
    "hydrogens.optimize.Optimize.make_water_with_one_bond": r"(?:NW*)*",
    "hydrogens.optimize.Optimize.try_single_alcoholic_h": r"(?:W*[AD])*",
    "hydrogens.optimize.Optimize.try_single_alcoholic_lp": r"(?:W*[AD])*",
    "hydrogens.optimize.Optimize.try_positions_with_two_bonds_h": r"(?:NW*[AD])*",
    "hydrogens.optimize.Optimize.try_positions_with_two_bonds_lp": r"(?:NW*[AD])*",
    "hydrogens.optimize.Optimize.try_positions_three_bonds_h": r"(?:NW*[AD])*",
    "hydrogens.optimize.Optimize.try_positions_three_bonds_lp": r"(?:NW*[AD])*",
    # registered atoms are written here (X) and restored exactly (C14-F6, fixed by e1a3cf3); the monitor's sweep checks they are back in their cell
    "hydrogens.optimize.Optimize.get_positions_with_two_bonds": r"[XW]*",
    "hydrogens.optimize.Optimize.get_position_with_three_bonds": r"[XW]*",
    "hydrogens.structures.Alcoholic.finalize": r"(?:A|RW*A|NW*A|Q)*",
    "hydrogens.structures.Water.finalize": r"(?:A|RW*A|NW*A)*",
}
# rows of the table that are primitives of the model or window set-up (no protocol of their own)
TABLE_PRIMS = {
    "aa.Amino.create_atom", "aa.LIG.create_atom", "aa.WAT.create_atom", "na.Nucleic.create_atom", "cells.Cells.add_cell",
    "cells.Cells.assign_cells", "cells.Cells.remove_cell", "debump.Debump.__init__", "debump.Debump.debump_biomolecule",
    "debump.Debump.get_bump_score", "debump.Debump.set_dihedral_angle", "debump.Debump.find_residue_conflicts",
    "debump.Debump.score_dihedral_angle", "hydrogens.HydrogenRoutines.cleanup", "hydrogens.HydrogenRoutines.initialize_full_optimization",
    "hydrogens.HydrogenRoutines.initialize_wat_optimization", "main.non_trivial", "residue.Residue.rotate_tetrahedral", "structures.Atom.__init__",
}


def regenerate_sites(ctx):
    """gen/c14_sites.py: coq/Generated/C14Sites.v from the CURRENT source tree."""
    import subprocess
    import sys

    p = subprocess.run([sys.executable, str(core.VERIF / "gen" / "c14_sites.py")], capture_output=True, text=True, env={**os.environ, "VERIF_REPO": str(core.REPO)})
    if p.returncode != 0:
        ctx.broke("generator-broken", "gen/c14_sites.py (call-site table from the source)", (p.stdout + p.stderr)[-1500:])
        return None
    import json

    js = json.loads((core.VERIF / "coq" / "Generated" / "c14_sites.json").read_text())
    regenerate_sites.query_use = js.pop("__query_use__", [])
    return js


def modelled_table():
    import re

    txt = (core.VERIF / "coq" / "Model" / "CellsUse.v").read_text()
    body = txt[txt.index("Definition modelled_sites") :]
    body = body[: body.index("Fixpoint table_eqb")]
    return dict(re.findall(r'\("([^"]+)", "([^"]*)"\)', body))


def table_diff(sites):
    want = modelled_table()
    out = []
    for n in sorted(set(want) | set(sites)):
        a, b = want.get(n), (sites.get(n) or {}).get("skeleton")
        if a != b:
            out.append(f"{n}: model has {a!r}, source has {b!r}")
    return out


def shape_check(ctx, mon, label):
    """Every per-call-site segment of the observed op trace (inside a live window, i.e. up to the last
    query before the next assign_cells) must be an instance of the modelled protocol of that site."""
    import re

    evs = mon.events
    # windows
    starts = [i for i, e in enumerate(evs) if e[0] == "S"] + [len(evs)]
    bad = []
    nseg = 0
    for w in range(len(starts) - 1):
        win = evs[starts[w] + 1 : starts[w + 1]]
        lastq = max((i for i, e in enumerate(win) if e[0] == "Q"), default=-1)
        win = win[: lastq + 1]
        i = 0
        while i < len(win):
            raw = win[i][2]
            site = raw.replace("hydrogens.__init__.", "hydrogens.")
            j = i
            while j < len(win) and win[j][2] == raw:
                j += 1
            letters = "".join(e[0] for e in win[i:j])
            nseg += 1
            ctx.count(f"site-segment:{site}")
            rx = SHAPES.get(site)
            if rx is None:
                bad.append((site, "unmodelled call site", letters[:60]))
            elif not re.fullmatch(rx, letters):
                bad.append((site, "not an instance of the modelled protocol " + rx, letters[:80]))
            i = j
    ctx.count("site-segments-checked", nseg)
    seen = set()
    for site, why, letters in bad:
        if (site, why) in seen:
            continue
        seen.add((site, why))
        ctx.cov["correspondence_disagreements"] += 1
        if sum(b["kind"] == "correspondence-broken" for b in ctx.broken) < 6:
            ctx.broke("correspondence-broken", f"op trace of {site} in {label} vs Model/CellsUse.v", f"{why}: observed {letters!r}")
    ctx.cov["correspondence_cases"] += nseg
    return not bad

HEADER = "From Coq Require Import ZArith List String.\nFrom PV Require Import Model.Cells.\nImport ListNotations.\nOpen Scope Z_scope.\n"


class FakeAtom:
    __slots__ = ("x", "y", "z", "cell", "i")

    def __init__(self, i, p):
        self.i = i
        self.x, self.y, self.z = p
        self.cell = None


def special_coords(rng, size):
    base = rng.choice([0.0, -0.0, float(size), -float(size), 2.0 * size, -3.0 * size, 1.0, -1.0, 0.5, -0.5, 1e6, -1e6, 1e15, -1e15, 4.999999999999999, -4.999999999999999, 123456.75])
    r = rng.random()
    if r < 0.3:
        return base
    if r < 0.5:
        return math.nextafter(base, math.inf)
    if r < 0.7:
        return math.nextafter(base, -math.inf)
    if r < 0.85:
        return base + rng.choice([-1, 1]) * rng.random() * size
    return rng.uniform(-3 * size, 3 * size)


def gen_seq(rng, disciplined):
    size = rng.choice([2, 5, 5, 1, 3])
    n = rng.randint(2, 7)
    centre = [special_coords(rng, size) for _ in range(3)]

    def pt():
        if rng.random() < 0.75:
            return tuple(c + rng.uniform(-1.2 * size, 1.2 * size) if abs(c) < 1e9 else c + rng.choice([-size, 0, size, 0.5]) for c in centre)
        return tuple(special_coords(rng, size) for _ in range(3))

    p0 = [pt() for _ in range(n)]
    ops = []
    reg = [False] * n
    for _ in range(rng.randint(4, 40)):
        a = rng.randrange(n)
        r = rng.random()
        if r < 0.3:
            if disciplined and reg[a]:
                ops.append(("remove", a))
                reg[a] = False
            else:
                ops.append(("add", a))
                reg[a] = True
        elif r < 0.45:
            ops.append(("remove", a))
            reg[a] = False
        elif r < 0.65:
            if disciplined and reg[a]:
                ops.append(("remove", a))
                ops.append(("move", a, pt()))
                ops.append(("add", a))
            else:
                ops.append(("move", a, pt()))
        else:
            ops.append(("query", a))
    # query -> an atom enters a bordering cell that was never occupied -> query again from the same cell
    # (catches memoised neighbourhoods / stale per-cell caches inside Cells)
    if rng.random() < 0.5 and all(abs(c) < 1e9 for c in centre):
        a, b = rng.sample(range(n), 2)
        if not reg[a]:
            ops.append(("add", a))
            reg[a] = True
        ops.append(("query", a))
        if reg[b]:
            ops.append(("remove", b))
            reg[b] = False
        k = rng.randrange(3)
        far = [c + 40.0 * size * rng.choice([-1, 1]) for c in centre]  # a region nothing else visits
        pa = tuple(far[i] + rng.uniform(0.1, 0.4) * size for i in range(3))
        pb = tuple(pa[i] + (0.8 * size if i == k else 0.0) * rng.choice([-1, 1]) for i in range(3))
        ops.append(("remove", a))
        reg[a] = False
        ops.append(("move", a, pa))
        ops.append(("add", a))
        reg[a] = True
        ops.append(("query", a))
        ops.append(("move", b, pb))
        ops.append(("add", b))
        reg[b] = True
        ops.append(("query", a))
        ops.append(("query", b))
    for a in range(n):
        ops.append(("query", a))
    return {"size": size, "p0": p0, "ops": ops, "disciplined": disciplined}


def run_impl(case):
    from pdb2pqr.cells import Cells

    c = Cells(case["size"])
    atoms = [FakeAtom(i, p) for i, p in enumerate(case["p0"])]
    out = []
    bad = []
    for op in case["ops"]:
        a = atoms[op[1]]
        if op[0] == "add":
            c.add_cell(a)
        elif op[0] == "remove":
            c.remove_cell(a)
        elif op[0] == "move":
            a.x, a.y, a.z = op[2]
        else:
            res = c.get_near_cells(a)
            out.append(",".join(str(b.i) for b in res))
            if case["disciplined"] and a.cell is not None:
                s2 = Fraction(case["size"]) ** 2
                want = {
                    b.i
                    for b in atoms
                    if b is not a and b.cell is not None and (Fraction(b.x) - Fraction(a.x)) ** 2 + (Fraction(b.y) - Fraction(a.y)) ** 2 + (Fraction(b.z) - Fraction(a.z)) ** 2 < s2
                }
                got = [b.i for b in res]
                regd = {b.i for b in atoms if b.cell is not None}
                if not want <= set(got):
                    bad.append(("miss", sorted(want - set(got))))
                if len(got) != len(set(got)):
                    bad.append(("dup", got))
                if not set(got) <= regd - {a.i}:
                    bad.append(("unsound", got))
    return ";".join(out), bad


def exact_scale(vals):
    """Common denominator D = 2^K for a list of floats; returns (D, [m])."""
    fr = [Fraction(v) for v in vals]
    D = 1
    for f in fr:
        D = max(D, f.denominator)
    return D, [int(f * D) for f in fr]


def pos3(m):
    return f"({core.coq_Z(m[0])}, {core.coq_Z(m[1])}, {core.coq_Z(m[2])})"


def model_term(case):
    vals = [v for p in case["p0"] for v in p] + [v for op in case["ops"] if op[0] == "move" for v in op[2]]
    D, ms = exact_scale(vals)
    it = iter(ms)
    p0 = [(next(it), next(it), next(it)) for _ in case["p0"]]
    xs = []
    for op in case["ops"]:
        if op[0] == "add":
            xs.append(f"XAdd {op[1]}%nat")
        elif op[0] == "remove":
            xs.append(f"XRemove {op[1]}%nat")
        elif op[0] == "move":
            m = (next(it), next(it), next(it))
            xs.append(f"XMove {op[1]}%nat {pos3(m)}")
        else:
            xs.append(f"XQuery {op[1]}%nat")
    tab = core.coq_list([f"({i}%nat, {pos3(m)})" for i, m in enumerate(p0)])
    return f"run_trace {core.coq_Z(case['size'])} {core.coq_Z(D)} {tab} {core.coq_list(xs)}"


# ---- real histories ------------------------------------------------------

QUICK_INPUTS = [
    ("1AJJ.pdb", ["--ff=AMBER"]),
    ("1A1P.pdb", ["--ff=PARSE"]),
    ("1BX8.pdb", ["--ff=CHARMM"]),
    ("cterm_hid.pdb", ["--ff=AMBER"]),
    ("5vav_cyclic_peptide.pdb", ["--ff=AMBER"]),
    ("1AJJ.pdb", ["--ff=PARSE", "--nodebump"]),
    ("1BX8.pdb", ["--ff=AMBER", "--noopt"]),
    # protonated carboxylic acids (Carboxylic optimisation objects; finding C14-F5e)
    ("1AJJ.pdb", ["--ff=AMBER", "--titration-state-method=propka", "--with-ph=4.0"]),
]
THOROUGH_INPUTS = QUICK_INPUTS + [
    ("1K1I.pdb", ["--ff=AMBER"]),
    ("1AFS.pdb", ["--ff=AMBER"]),
    ("1US0.pdb", ["--ff=PARSE"]),
    ("1AJJ.pdb", ["--ff=PARSE", "--titration-state-method=propka", "--with-ph=2.0"]),
    ("1BX8.pdb", ["--ff=SWANSON", "--titration-state-method=propka", "--with-ph=10.0"]),
    ("1K1I.pdb", ["--ff=TYL06", "--nodebump"]),
    # Carboxylic.rename with a left-over *2 hydrogen (finding C14-F5f)
    ("1US0.pdb", ["--ff=PARSE", "--titration-state-method=propka", "--with-ph=2.0"]),
]


def translated(text, shift):
    """Rigidly translated copy of PDB text (the cell grid then cuts the molecule elsewhere)."""
    out = []
    for line in text.splitlines():
        if line.startswith(("ATOM", "HETATM")):
            xyz = [float(line[30 + 8 * i : 38 + 8 * i]) + shift[i] for i in range(3)]
            line = f"{line[:30]}{xyz[0]:8.3f}{xyz[1]:8.3f}{xyz[2]:8.3f}{line[54:]}"
        out.append(line)
    return "\n".join(out) + "\n"


def run_real(ctx, pdb, extra, keep_trace=False, extra_lines=None, shift=None):
    from pdb2pqr import main as pmain

    d = ctx.scratch_dir()
    out = str(d / "o.pqr")
    src = core.REPO / "tests" / "data" / pdb
    if shift and any(shift):
        txt = translated(src.read_text(), shift)
        src = d / "in.pdb"
        src.write_text(txt)
    if extra_lines:
        body = [ln.rstrip("\n") for ln in src.read_text().splitlines() if ln.startswith(("ATOM", "HETATM"))]
        src = d / "in.pdb"
        src.write_text("\n".join(body + list(extra_lines) + ["END"]) + "\n")
    args = pmain.build_main_parser().parse_args([*extra, str(src), out])
    mon = cellmon.CellMonitor()
    if not keep_trace:
        mon.trace_limit = 0
    err = None
    with cellmon.monitor(mon):
        try:
            pmain.main_driver(args)
        except Exception as e:  # the run failing is not C14's business
            err = f"{type(e).__name__}: {e}"
    for f in list(d.glob("o.*")) + list(d.glob("in.pdb")):
        f.unlink()
    return mon, err


def report_use_findings(ctx, mon, pdb, extra_args, shift=None):
    """Use-site oracle: the block of neighbours examined for atom a vs brute force around a."""
    label = f"{pdb} {' '.join(extra_args)} translated by {tuple(shift) if shift else (0, 0, 0)}"
    ctx.count("use-site:block-iterations", mon.uses)
    ctx.count("use-site:rechecked-by-brute-force", mon.uses_checked)
    if mon.use_errors:
        ctx.notes.append(f"use-site monitor error in {label}: {mon.use_errors[0]}")
    for site, n in mon.use_unknown.items():
        ctx.cov["correspondence_disagreements"] += 1
        ctx.broke("correspondence-broken", f"use site {site} of a get_near_cells block is not modelled", f"{n} iterations in {label}")
    if mon.uses_other_atom and sum("queried for another atom" in b.get("detail", "") for b in ctx.broken) < 2:
        ctx.cov["correspondence_disagreements"] += 1
        f0 = next((f for f in mon.use_findings if f["why"].startswith("block was queried")), None)
        ctx.broke(
            "correspondence-broken",
            "Model/CellsUse.v: every block is used for the atom it was queried for (q_used = q_atom)",
            f"{mon.uses_other_atom} block iterations in {label} used a block that was queried for another atom" + (f", e.g. block of {f0['block_queried_for']} used for {f0['atom']}" if f0 else ""),
        )
    seen = set()
    for f in mon.use_findings:
        sig = {"site": f["site"], "condition": f["condition"]}
        if core.sha(sig) in seen:
            continue
        seen.add(core.sha(sig))
        ff = {k: (float(v) if hasattr(v, "__float__") and not isinstance(v, (str, list)) else ([float(x) for x in v] if isinstance(v, list) else v)) for k, v in f.items()}
        ctx.fail(
            sig,
            f"{label}: at {f['site']} the candidates examined for {f['atom']} do not include {f['partner']} at {float(f['distance']):.3f} A (< {f['cutoff']} A): {f['why']} ({f['block_queried_for']})",
            {"pdb": pdb, "args": extra_args, "shift": list(shift) if shift else [0.0, 0.0, 0.0], "finding": ff},
        )
    return len(seen)


def report_findings(ctx, mon, pdb, extra_args, extra_lines=None):
    report_use_findings(ctx, mon, pdb, extra_args)
    seen = set()
    allf = mon.misses + mon.ghosts + mon.latent
    for f in allf:
        sig = {"site": f["site"], "cause": f["cause"], "kind": f["kind"]}
        key = core.sha(sig)
        if key in seen:
            continue
        seen.add(key)
        case = {"pdb": pdb, "args": extra_args, "finding": f, "count": sum(1 for g in allf if (g["site"], g["cause"], g["kind"]) == (f["site"], f["cause"], f["kind"]))}
        if extra_lines:
            case["extra_lines"] = list(extra_lines)
        ctx.fail(sig, f"real history {pdb} {' '.join(extra_args)}: {f['kind']} of {f['atom']} ({f['cause']} at {f['site']}; query from {f['query']})", case)
    return len(seen)


def trace_to_model(mon, limit_ops=2500):
    """Real trace (first Cells object with queries) -> Coq term + expected answers."""
    # cut the trace at the last 'assign' before the first query, keep a bounded prefix
    tr = mon.trace
    first_q = next((i for i, e in enumerate(tr) if e[0] == "query"), None)
    if first_q is None:
        return None
    start = max(i for i, e in enumerate(tr[: first_q + 1]) if e[0] == "assign")
    size = tr[start][2]
    seg = []
    for e in tr[start + 1 :]:
        if e[0] == "assign":
            break
        seg.append(e)
        if len(seg) >= limit_ops:
            break
    # atom positions: track from add/write events
    cur = {}
    floats = []
    xs = []
    exp = []
    ids = {}

    def nid(a):
        return ids.setdefault(a, len(ids))

    pend = {}
    for e in seg:
        if e[0] == "add":
            a = nid(e[1])
            p = (e[2], e[3], e[4])
            if cur.get(a) != p:
                cur[a] = p
                xs.append(("move", a, p))
            xs.append(("add", a))
        elif e[0] == "remove":
            xs.append(("remove", nid(e[1])))
        elif e[0] == "write":
            a = nid(e[1])
            p = list(cur.get(a, (0.0, 0.0, 0.0)))
            p["xyz".index(e[2])] = e[3]
            cur[a] = tuple(p)
            xs.append(("move", a, tuple(p)))
        elif e[0] == "query":
            xs.append(("query", nid(e[1])))
            exp.append(",".join(str(nid(b)) for b in e[2]))
    for o in xs:
        if o[0] == "move":
            floats.extend(o[2])
    D, ms = exact_scale(floats) if floats else (1, [])
    it = iter(ms)
    terms = []
    for o in xs:
        if o[0] == "move":
            terms.append(f"XMove {o[1]}%nat {pos3((next(it), next(it), next(it)))}")
        else:
            terms.append({"add": "XAdd", "remove": "XRemove", "query": "XQuery"}[o[0]] + f" {o[1]}%nat")
    return f"run_trace {size} {core.coq_Z(D)} [] {core.coq_list(terms)}", ";".join(exp), len(xs), len(exp)


def run(ctx):
    ctx.cov["rule"] = (
        "random op sequences over 2-7 atoms (sizes 1,2,3,5; coordinates negative, +-0.0, exact multiples of the size, +-1 ulp, 1e6, 1e15; "
        "half disciplined, half not) compared model vs cells.py; plus every neighbour query of real runs on fixed structures compared "
        "with brute force. Non-trivial = a sequence whose queries return >= 1 atom, or a real query with >= 1 atom in range; distinct by "
        "content hash (sequences) / (structure, options, query index)"
    )
    sites = regenerate_sites(ctx)
    ok = core.proof_stage(ctx, "C14", THEOREMS, [])
    if sites is not None:
        stale_blocks = [r for r in regenerate_sites.query_use if not r[2]]
        if stale_blocks:
            ok = False
            ctx.broke("proof-broken", "C14_blocks_used_where_queried: a block of neighbours is not iterated where it was queried (the block used for atom a must have been queried for a)", "; ".join(f"{a}: {b}" for a, b, _ in stale_blocks))
        d = table_diff(sites)
        if d:
            ok = False
            ctx.broke("proof-broken", "call-site table (gen/c14_sites.py) differs from Model/CellsUse.v modelled_sites", "\n".join(d[:12]))
        missing = [n for n in sites if n not in SHAPES and n not in TABLE_PRIMS and not any(t in sites[n]["skeleton"] for t in ()) and any(k in sites[n]["skeleton"] for k in ("add(", "rem(", "qry(", "new(", "del(", "W(", "Wx(", "Wy(", "Wz(", "rot(", "dih"))]
        if missing:
            ok = False
            ctx.broke("correspondence-broken", "call sites without a modelled protocol", ", ".join(missing))
    elif sites is None:
        ok = False
    # --- correspondence on random sequences
    n = 6000 if ctx.thorough else 600
    cases = [gen_seq(ctx.rng, k % 2 == 0) for k in range(n)]
    impl = [run_impl(c) for c in cases]
    corr_broken = False
    try:
        res = core.run_cases("C14", HEADER, [model_term(c) for c in cases], chunk=100)
    except core.CoqEvalError as e:
        res = None
        corr_broken = True
        ctx.broke("correspondence-broken", "model evaluation failed", str(e))
    if res is not None:
        for c, (iout, bad), mout in zip(cases, impl, res):
            ctx.cov["correspondence_cases"] += 1
            if iout != mout:
                ctx.cov["correspondence_disagreements"] += 1
                corr_broken = True
                if sum(b["kind"] == "correspondence-broken" for b in ctx.broken) < 3:
                    ctx.broke("correspondence-broken", "Model.Cells.run_trace vs cells.Cells", f"impl={iout!r} model={mout!r}", c)
    # --- brute-force oracle on the random sequences (disciplined ones)
    extra = []
    if not ok or corr_broken:
        extra = [gen_seq(ctx.rng, True) for _ in range(6000)]
    for c, (iout, bad) in list(zip(cases, impl)) + [(c, run_impl(c)) for c in extra]:
        ctx.count(f"seq:size={c['size']}:{'disc' if c['disciplined'] else 'undisc'}")
        ctx.evaluated(("seq", core.sha(c)), any(x for x in iout.split(";")))
        for kind, detail in bad:
            ctx.fail({"site": "cells.Cells", "cause": "bucket-or-scan", "kind": kind}, f"Cells query on a disciplined history: {kind} {detail}", c)
    ctx.sample({"op_sequence": cases[0], "impl_queries": impl[0][0]})
    # --- corpus: constructed real runs (regression cases of findings)
    import json

    for cf in sorted((core.VERIF / "corpus" / "C14").glob("*.json")):
        c = json.loads(cf.read_text())
        mon, err = run_real(ctx, c["base"], c["args"], extra_lines=c["extra_lines"])
        ctx.count("corpus-runs")
        ctx.cov["evaluations"] += mon.queries
        ctx.evaluated(("corpus", c["name"]), mon.nontrivial_queries > 0)
        if err:
            ctx.notes.append(f"corpus {c['name']}: run ended with {err}")
        n = report_findings(ctx, mon, c["base"], c["args"], c["extra_lines"])
        ctx.count(f"corpus:{c['name']}:findings", n)
        if not shape_check(ctx, mon, f"corpus {c['name']}"):
            corr_broken = True
    # --- real histories
    # a broken proof / table / correspondence escalates the search to the full input set
    inputs = THOROUGH_INPUTS if (ctx.thorough or not ok or corr_broken) else QUICK_INPUTS
    for k, (pdb, extra_args) in enumerate(inputs):
        keep = pdb in ("1A1P.pdb", "5vav_cyclic_peptide.pdb", "cterm_hid.pdb")
        mon, err = run_real(ctx, pdb, extra_args, keep_trace=keep)
        ctx.count(f"real:{pdb}:queries", mon.queries)
        ctx.cov["evaluations"] += mon.queries
        for q in range(mon.nontrivial_queries):
            ctx._distinct.add(f"real:{pdb}:{' '.join(extra_args)}:{q}")
        ctx.cov["distinct_nontrivial"] = len(ctx._distinct)
        if err:
            ctx.notes.append(f"{pdb} {extra_args}: run ended with {err}")
        report_findings(ctx, mon, pdb, extra_args)
        if not shape_check(ctx, mon, f"{pdb} {' '.join(extra_args)}"):
            corr_broken = True
        if k == 0:
            ctx.sample({"real_run": pdb, "args": extra_args, "queries": mon.queries, "ops": mon.ops, "misses": len(mon.misses), "ghosts": len(mon.ghosts)})
        if keep and mon.trace:
            t = trace_to_model(mon)
            if t:
                term, exp, nops, nq = t
                try:
                    got = core.run_cases("C14t", HEADER, [term], timeout=900)[0]
                    ctx.cov["correspondence_cases"] += 1
                    ctx.count("real-trace-replayed-ops", nops)
                    ctx.count("real-trace-replayed-queries", nq)
                    if got != exp:
                        ctx.cov["correspondence_disagreements"] += 1
                        ctx.broke("correspondence-broken", f"real trace of {pdb} replayed in Model.Cells", f"first diff at query {next((i for i,(a,b) in enumerate(zip(got.split(';'), exp.split(';'))) if a != b), '?')}")
                except core.CoqEvalError as e:
                    ctx.broke("correspondence-broken", f"real trace of {pdb}: model evaluation failed", str(e))
    # --- the cell grid cuts the molecule elsewhere: translated structures (use-site oracle + monitor)
    offs = [tuple(v if i == k else 0.0 for i in range(3)) for k in range(3) for v in (2.5, 2.6, 3.9)]
    big = [(0.0, 2.6, 0.0), (0.0, 0.0, 3.9), (2.5, 0.0, 0.0)]
    plan = [("1A1P.pdb", ["--ff=PARSE"], o) for o in offs] + [("1AJJ.pdb", ["--ff=AMBER"], o) for o in offs]
    plan += [("1QBS.pdb", ["--ff=AMBER"], o) for o in [(0.0, 0.0, 0.0)] + (offs if (ctx.thorough or not ok or corr_broken) else big)]
    if ctx.thorough:
        plan += [("1BX8.pdb", ["--ff=CHARMM"], o) for o in offs] + [("1K1I.pdb", ["--ff=AMBER"], o) for o in offs]
    for pdb, extra_args, sh in plan:
        mon, err = run_real(ctx, pdb, extra_args, shift=sh)
        ctx.count("translated-runs")
        ctx.cov["evaluations"] += mon.queries
        for q in range(mon.nontrivial_queries):
            ctx._distinct.add(f"real:{pdb}:{' '.join(extra_args)}:{sh}:{q}")
        ctx.cov["distinct_nontrivial"] = len(ctx._distinct)
        if err:
            ctx.notes.append(f"{pdb} {extra_args} shift {sh}: run ended with {err}")
        report_use_findings(ctx, mon, pdb, extra_args, sh)
        allf = mon.misses + mon.ghosts + mon.latent
        seen = set()
        for f in allf:
            sig = {"site": f["site"], "cause": f["cause"], "kind": f["kind"]}
            if core.sha(sig) in seen:
                continue
            seen.add(core.sha(sig))
            ctx.fail(sig, f"real history {pdb} {' '.join(extra_args)} translated by {sh}: {f['kind']} of {f['atom']} ({f['cause']} at {f['site']}; query from {f['query']})", {"pdb": pdb, "args": extra_args, "shift": list(sh), "finding": f, "count": len(allf)})
    ctx.trusted += [
        "modelled, not verified: cells.py (hand model Model/Cells.v, tied by exact ordered-result equality on random op sequences and replayed real traces)",
        "use-site oracle (harness/cellmon.py NearList): every get_near_cells result is tagged with its query atom; when a modelled use site starts iterating it, the subject atom is read from the caller's frame (local variable per site) and, if it is another atom or the structure changed since the query, the block is compared with brute force around the subject within the site's cutoff (own-residue / bonded partners that the site discards are not counted); run on structures translated by 2.5, 2.6, 3.9 A along each axis",
        "call-site protocols: hand model Model/CellsUse.v; tied to the source by the ast call-site table (gen/c14_sites.py, obligation C14_sites_table_matches_model) and by the shape check of observed per-site op traces; which atoms create_atom bonds a new atom to, which branch runs and that removed Atom objects are never re-inserted are oracles/assumptions",
        "caching or any other hidden state inside Cells is outside Model/Cells.v (get_near_cells is a pure function of the cell map there): covered only by the op-sequence correspondence (incl. query -> add into a NEW bordering cell -> query patterns) and the brute-force monitor",
    ]
    ctx.assumptions += ["atoms compare by identity (structures.Atom defines no __eq__)", "coordinates are finite floats"]


def replay(ctx, data):
    case = data["case"]
    if "ops" in case:
        out, bad = run_impl(case)
        print("replay: ", "FAILS " + str(bad) if bad else "passes")
        return 1 if bad else 0
    mon, err = run_real(ctx, case["pdb"], case["args"], extra_lines=case.get("extra_lines"), shift=case.get("shift"))
    f = case["finding"]
    if "condition" in f:
        hits = [g for g in mon.use_findings if g["site"] == f["site"]]
        print(f"replay: {len(hits)} partner(s) within the cutoff not examined at {f['site']}" + (f" (e.g. {hits[0]['atom']} / {hits[0]['partner']})" if hits else ""))
        return 1 if hits else 0
    hits = [g for g in mon.misses + mon.ghosts + mon.latent if (g["site"], g["cause"]) == (f["site"], f["cause"])]
    print(f"replay: {len(hits)} occurrences of {f['cause']} at {f['site']}")
    return 1 if hits else 0
