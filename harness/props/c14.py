"""C14 - neighbour search returns every atom within range."""

import math
import os
import tempfile
from fractions import Fraction

from harness import cellmon, core

META = {
    "id": "C14",
    "level": "proof",
    "technique": "Coq proof (integer-division kernel lemmas + invariant induction over operation histories) of a hand-written model of cells.py; correspondence on random op sequences and on replayed real traces; brute-force monitor for the discipline of real histories",
    "level_text": (
        "Proved for ALL coordinates (exact rationals m/D: negative, zero, cell boundaries, huge), all cell sizes > 0 and ALL "
        "histories of add/remove/move that keep the discipline (moves and re-adds only on unregistered atoms): query + distance "
        "filter = brute force, no duplicates. The model is the code's int()-then-// bucket and 27-cell scan, tied to cells.py by "
        "exact comparison of ordered query results on random (also undisciplined) op sequences. That pdb2pqr's own histories keep "
        "the discipline is not a theorem: it is checked by monitoring every neighbour query of real runs against brute force, by an "
        "invariant sweep at every query (an atom removed from its residue or moved while still registered is reported as a latent breach "
        "as soon as the same cell map is queried again, whether or not a query near it is issued) and by replaying real traces in the model."
    ),
    "level_note": (
        "Trusted: Coq kernel+vm_compute; the hand model Model/Cells.v (tied by differential execution); exact float->rational "
        "conversion in the harness; the monitor (monkeypatches Cells, Atom.__setattr__, Residue.remove_atom). Real histories are "
        "explored on a fixed set of structures, not proved."
    ),
    "design_ref": "DESIGN.md 4 C14",
}

THEOREMS = [
    "C14_key_code_idx",
    "C14_idx_adjacent",
    "C14_query_exact",
    "C14_query_nodup",
    "C14_inv_step",
    "C14_reachable_query_exact",
    "C14_undisciplined_miss",
    "C14_nonvacuous",
]

HEADER = "From Coq Require Import ZArith List String.\nFrom PV Require Import Model.Cells.\nImport ListNotations.\nOpen Scope Z_scope.\n"


class FakeAtom:
    __slots__ = ("x", "y", "z", "cell", "i")

    def __init__(self, i, p):
        self.i = i
        self.x, self.y, self.z = p
        self.cell = None


def special_coords(rng, size):
    base = rng.choice([0.0, -0.0, float(size), -float(size), 2.0 * size, -3.0 * size, 1.0, -1.0, 0.5, -0.5, 1e6, -1e6, 1e15, -1e15, 4.999999999999999, -4.999999999999999, 123456.75])
    r = rng.random()
    if r < 0.3:
        return base
    if r < 0.5:
        return math.nextafter(base, math.inf)
    if r < 0.7:
        return math.nextafter(base, -math.inf)
    if r < 0.85:
        return base + rng.choice([-1, 1]) * rng.random() * size
    return rng.uniform(-3 * size, 3 * size)


def gen_seq(rng, disciplined):
    size = rng.choice([2, 5, 5, 1, 3])
    n = rng.randint(2, 7)
    centre = [special_coords(rng, size) for _ in range(3)]

    def pt():
        if rng.random() < 0.75:
            return tuple(c + rng.uniform(-1.2 * size, 1.2 * size) if abs(c) < 1e9 else c + rng.choice([-size, 0, size, 0.5]) for c in centre)
        return tuple(special_coords(rng, size) for _ in range(3))

    p0 = [pt() for _ in range(n)]
    ops = []
    reg = [False] * n
    for _ in range(rng.randint(4, 40)):
        a = rng.randrange(n)
        r = rng.random()
        if r < 0.3:
            if disciplined and reg[a]:
                ops.append(("remove", a))
                reg[a] = False
            else:
                ops.append(("add", a))
                reg[a] = True
        elif r < 0.45:
            ops.append(("remove", a))
            reg[a] = False
        elif r < 0.65:
            if disciplined and reg[a]:
                ops.append(("remove", a))
                ops.append(("move", a, pt()))
                ops.append(("add", a))
            else:
                ops.append(("move", a, pt()))
        else:
            ops.append(("query", a))
    for a in range(n):
        ops.append(("query", a))
    return {"size": size, "p0": p0, "ops": ops, "disciplined": disciplined}


def run_impl(case):
    from pdb2pqr.cells import Cells

    c = Cells(case["size"])
    atoms = [FakeAtom(i, p) for i, p in enumerate(case["p0"])]
    out = []
    bad = []
    for op in case["ops"]:
        a = atoms[op[1]]
        if op[0] == "add":
            c.add_cell(a)
        elif op[0] == "remove":
            c.remove_cell(a)
        elif op[0] == "move":
            a.x, a.y, a.z = op[2]
        else:
            res = c.get_near_cells(a)
            out.append(",".join(str(b.i) for b in res))
            if case["disciplined"] and a.cell is not None:
                s2 = Fraction(case["size"]) ** 2
                want = {
                    b.i
                    for b in atoms
                    if b is not a and b.cell is not None and (Fraction(b.x) - Fraction(a.x)) ** 2 + (Fraction(b.y) - Fraction(a.y)) ** 2 + (Fraction(b.z) - Fraction(a.z)) ** 2 < s2
                }
                got = [b.i for b in res]
                regd = {b.i for b in atoms if b.cell is not None}
                if not want <= set(got):
                    bad.append(("miss", sorted(want - set(got))))
                if len(got) != len(set(got)):
                    bad.append(("dup", got))
                if not set(got) <= regd - {a.i}:
                    bad.append(("unsound", got))
    return ";".join(out), bad


def exact_scale(vals):
    """Common denominator D = 2^K for a list of floats; returns (D, [m])."""
    fr = [Fraction(v) for v in vals]
    D = 1
    for f in fr:
        D = max(D, f.denominator)
    return D, [int(f * D) for f in fr]


def pos3(m):
    return f"({core.coq_Z(m[0])}, {core.coq_Z(m[1])}, {core.coq_Z(m[2])})"


def model_term(case):
    vals = [v for p in case["p0"] for v in p] + [v for op in case["ops"] if op[0] == "move" for v in op[2]]
    D, ms = exact_scale(vals)
    it = iter(ms)
    p0 = [(next(it), next(it), next(it)) for _ in case["p0"]]
    xs = []
    for op in case["ops"]:
        if op[0] == "add":
            xs.append(f"XAdd {op[1]}%nat")
        elif op[0] == "remove":
            xs.append(f"XRemove {op[1]}%nat")
        elif op[0] == "move":
            m = (next(it), next(it), next(it))
            xs.append(f"XMove {op[1]}%nat {pos3(m)}")
        else:
            xs.append(f"XQuery {op[1]}%nat")
    tab = core.coq_list([f"({i}%nat, {pos3(m)})" for i, m in enumerate(p0)])
    return f"run_trace {core.coq_Z(case['size'])} {core.coq_Z(D)} {tab} {core.coq_list(xs)}"


# ---- real histories ------------------------------------------------------

QUICK_INPUTS = [
    ("1AJJ.pdb", ["--ff=AMBER"]),
    ("1A1P.pdb", ["--ff=PARSE"]),
    ("1BX8.pdb", ["--ff=CHARMM"]),
    ("cterm_hid.pdb", ["--ff=AMBER"]),
    ("5vav_cyclic_peptide.pdb", ["--ff=AMBER"]),
    ("1AJJ.pdb", ["--ff=PARSE", "--nodebump"]),
    ("1BX8.pdb", ["--ff=AMBER", "--noopt"]),
    # protonated carboxylic acids (Carboxylic optimisation objects; finding C14-F5e)
    ("1AJJ.pdb", ["--ff=AMBER", "--titration-state-method=propka", "--with-ph=4.0"]),
]
THOROUGH_INPUTS = QUICK_INPUTS + [
    ("1K1I.pdb", ["--ff=AMBER"]),
    ("1AFS.pdb", ["--ff=AMBER"]),
    ("1US0.pdb", ["--ff=PARSE"]),
    ("1AJJ.pdb", ["--ff=PARSE", "--titration-state-method=propka", "--with-ph=2.0"]),
    ("1BX8.pdb", ["--ff=SWANSON", "--titration-state-method=propka", "--with-ph=10.0"]),
    ("1K1I.pdb", ["--ff=TYL06", "--nodebump"]),
    # Carboxylic.rename with a left-over *2 hydrogen (finding C14-F5f)
    ("1US0.pdb", ["--ff=PARSE", "--titration-state-method=propka", "--with-ph=2.0"]),
]


def run_real(ctx, pdb, extra, keep_trace=False):
    from pdb2pqr import main as pmain

    d = ctx.scratch_dir()
    out = str(d / "o.pqr")
    args = pmain.build_main_parser().parse_args([*extra, str(core.REPO / "tests" / "data" / pdb), out])
    mon = cellmon.CellMonitor()
    if not keep_trace:
        mon.trace_limit = 0
    err = None
    with cellmon.monitor(mon):
        try:
            pmain.main_driver(args)
        except Exception as e:  # the run failing is not C14's business
            err = f"{type(e).__name__}: {e}"
    for f in d.glob("o.*"):
        f.unlink()
    return mon, err


def trace_to_model(mon, limit_ops=2500):
    """Real trace (first Cells object with queries) -> Coq term + expected answers."""
    # cut the trace at the last 'assign' before the first query, keep a bounded prefix
    tr = mon.trace
    first_q = next((i for i, e in enumerate(tr) if e[0] == "query"), None)
    if first_q is None:
        return None
    start = max(i for i, e in enumerate(tr[: first_q + 1]) if e[0] == "assign")
    size = tr[start][2]
    seg = []
    for e in tr[start + 1 :]:
        if e[0] == "assign":
            break
        seg.append(e)
        if len(seg) >= limit_ops:
            break
    # atom positions: track from add/write events
    cur = {}
    floats = []
    xs = []
    exp = []
    ids = {}

    def nid(a):
        return ids.setdefault(a, len(ids))

    pend = {}
    for e in seg:
        if e[0] == "add":
            a = nid(e[1])
            p = (e[2], e[3], e[4])
            if cur.get(a) != p:
                cur[a] = p
                xs.append(("move", a, p))
            xs.append(("add", a))
        elif e[0] == "remove":
            xs.append(("remove", nid(e[1])))
        elif e[0] == "write":
            a = nid(e[1])
            p = list(cur.get(a, (0.0, 0.0, 0.0)))
            p["xyz".index(e[2])] = e[3]
            cur[a] = tuple(p)
            xs.append(("move", a, tuple(p)))
        elif e[0] == "query":
            xs.append(("query", nid(e[1])))
            exp.append(",".join(str(nid(b)) for b in e[2]))
    for o in xs:
        if o[0] == "move":
            floats.extend(o[2])
    D, ms = exact_scale(floats) if floats else (1, [])
    it = iter(ms)
    terms = []
    for o in xs:
        if o[0] == "move":
            terms.append(f"XMove {o[1]}%nat {pos3((next(it), next(it), next(it)))}")
        else:
            terms.append({"add": "XAdd", "remove": "XRemove", "query": "XQuery"}[o[0]] + f" {o[1]}%nat")
    return f"run_trace {size} {core.coq_Z(D)} [] {core.coq_list(terms)}", ";".join(exp), len(xs), len(exp)


def run(ctx):
    ctx.cov["rule"] = (
        "random op sequences over 2-7 atoms (sizes 1,2,3,5; coordinates negative, +-0.0, exact multiples of the size, +-1 ulp, 1e6, 1e15; "
        "half disciplined, half not) compared model vs cells.py; plus every neighbour query of real runs on fixed structures compared "
        "with brute force. Non-trivial = a sequence whose queries return >= 1 atom, or a real query with >= 1 atom in range; distinct by "
        "content hash (sequences) / (structure, options, query index)"
    )
    ok = core.proof_stage(ctx, "C14", THEOREMS, [])
    # --- correspondence on random sequences
    n = 6000 if ctx.thorough else 600
    cases = [gen_seq(ctx.rng, k % 2 == 0) for k in range(n)]
    impl = [run_impl(c) for c in cases]
    corr_broken = False
    try:
        res = core.run_cases("C14", HEADER, [model_term(c) for c in cases], chunk=100)
    except core.CoqEvalError as e:
        res = None
        corr_broken = True
        ctx.broke("correspondence-broken", "model evaluation failed", str(e))
    if res is not None:
        for c, (iout, bad), mout in zip(cases, impl, res):
            ctx.cov["correspondence_cases"] += 1
            if iout != mout:
                ctx.cov["correspondence_disagreements"] += 1
                corr_broken = True
                if sum(b["kind"] == "correspondence-broken" for b in ctx.broken) < 3:
                    ctx.broke("correspondence-broken", "Model.Cells.run_trace vs cells.Cells", f"impl={iout!r} model={mout!r}", c)
    # --- brute-force oracle on the random sequences (disciplined ones)
    extra = []
    if not ok or corr_broken:
        extra = [gen_seq(ctx.rng, True) for _ in range(6000)]
    for c, (iout, bad) in list(zip(cases, impl)) + [(c, run_impl(c)) for c in extra]:
        ctx.count(f"seq:size={c['size']}:{'disc' if c['disciplined'] else 'undisc'}")
        ctx.evaluated(("seq", core.sha(c)), any(x for x in iout.split(";")))
        for kind, detail in bad:
            ctx.fail({"site": "cells.Cells", "cause": "bucket-or-scan", "kind": kind}, f"Cells query on a disciplined history: {kind} {detail}", c)
    ctx.sample({"op_sequence": cases[0], "impl_queries": impl[0][0]})
    # --- real histories
    inputs = THOROUGH_INPUTS if ctx.thorough else QUICK_INPUTS
    for k, (pdb, extra_args) in enumerate(inputs):
        keep = pdb in ("1A1P.pdb", "5vav_cyclic_peptide.pdb", "cterm_hid.pdb")
        mon, err = run_real(ctx, pdb, extra_args, keep_trace=keep)
        ctx.count(f"real:{pdb}:queries", mon.queries)
        ctx.cov["evaluations"] += mon.queries
        for q in range(mon.nontrivial_queries):
            ctx._distinct.add(f"real:{pdb}:{' '.join(extra_args)}:{q}")
        ctx.cov["distinct_nontrivial"] = len(ctx._distinct)
        if err:
            ctx.notes.append(f"{pdb} {extra_args}: run ended with {err}")
        seen = set()
        for f in mon.misses + mon.ghosts + mon.latent:
            sig = {"site": f["site"], "cause": f["cause"], "kind": f["kind"]}
            key = core.sha(sig)
            if key in seen:
                continue
            seen.add(key)
            ctx.fail(sig, f"real history {pdb} {' '.join(extra_args)}: {f['kind']} of {f['atom']} ({f['cause']} at {f['site']}; query from {f['query']})", {"pdb": pdb, "args": extra_args, "finding": f, "count": sum(1 for g in mon.misses + mon.ghosts + mon.latent if (g['site'], g['cause'], g['kind']) == (f['site'], f['cause'], f['kind']))})
        if k == 0:
            ctx.sample({"real_run": pdb, "args": extra_args, "queries": mon.queries, "ops": mon.ops, "misses": len(mon.misses), "ghosts": len(mon.ghosts)})
        if keep and mon.trace:
            t = trace_to_model(mon)
            if t:
                term, exp, nops, nq = t
                try:
                    got = core.run_cases("C14t", HEADER, [term], timeout=900)[0]
                    ctx.cov["correspondence_cases"] += 1
                    ctx.count("real-trace-replayed-ops", nops)
                    ctx.count("real-trace-replayed-queries", nq)
                    if got != exp:
                        ctx.cov["correspondence_disagreements"] += 1
                        ctx.broke("correspondence-broken", f"real trace of {pdb} replayed in Model.Cells", f"first diff at query {next((i for i,(a,b) in enumerate(zip(got.split(';'), exp.split(';'))) if a != b), '?')}")
                except core.CoqEvalError as e:
                    ctx.broke("correspondence-broken", f"real trace of {pdb}: model evaluation failed", str(e))
    ctx.trusted += [
        "modelled, not verified: cells.py (hand model Model/Cells.v, tied by exact ordered-result equality on random op sequences and replayed real traces)",
        "discipline of pdb2pqr's own histories: observed by the monitor on a fixed set of structures/options, not proved",
    ]
    ctx.assumptions += ["atoms compare by identity (structures.Atom defines no __eq__)", "coordinates are finite floats"]


def replay(ctx, data):
    case = data["case"]
    if "ops" in case:
        out, bad = run_impl(case)
        print("replay: ", "FAILS " + str(bad) if bad else "passes")
        return 1 if bad else 0
    mon, err = run_real(ctx, case["pdb"], case["args"])
    f = case["finding"]
    hits = [g for g in mon.misses + mon.ghosts + mon.latent if (g["site"], g["cause"]) == (f["site"], f["cause"])]
    print(f"replay: {len(hits)} occurrences of {f['cause']} at {f['site']}")
    return 1 if hits else 0
