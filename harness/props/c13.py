"""C13 - disulfide bridges are detected symmetrically and exclusively."""

import io as _io
import itertools
import logging
import math
import os
import re
from pathlib import Path

from harness import core

META = {
    "id": "C13",
    "level": "proof",
    "technique": (
        "Coq proof (loop invariant + induction over the sulfur list, all orders) about a hand-written model of "
        "Biomolecule.update_ss_bridges / add_hydrogens(HG) / CYS.set_state, tied to the code by differential "
        "execution on constructed structures (exact integer coordinates, boundary at 2.5 A)"
    ),
    "level_text": (
        "Theorems over ALL ordered residue lists and all symmetric distance relations: an exclusive pair gets "
        "partner lists [j]/[i], both flags, mutual pointers, CYX patch + CYX name and no HG; an isolated CYS is "
        "unflagged, gets HG, stays CYS; results are invariant under every permutation (given at most one sulfur in "
        "range) and under any chain/number relabelling; witnesses show order dependence and non-mutual flags once a "
        "third sulfur is in range. The model is tied to the real functions (called in main.py's order, and through "
        "main_driver) on 2-6 cysteine structures with S-S distances at 2.5 A exactly, +-1 ulp, +-1e-3, +-0.5, in all "
        "chain/order/numbering layouts; an independent brute-force oracle checks mutuality, CYX/HG/charges and "
        "reordering invariance on the real code. Pipeline level (the property speaks of the RETURNED model): for every "
        "stage list meeting an order obligation (detection not controlled by args.debump; behind it no second "
        "detection and no heavy-atom mover other than one controlled by args.debump) and every stage semantics "
        "respecting three frame conditions, the flags returned with --nodebump are detect(final sulfurs) "
        "(C13_detection_sees_final_sulfurs); the obligation is discharged by vm_compute on the stage table "
        "gen/stages.py translates from the current main.py (C13_ss_stage_order_table) and shown necessary "
        "(C13_detection_before_repair_is_wrong). PARTIAL there: the frame conditions are modelled and tied at run "
        "time only (cysteines whose SG record is missing, sulfur rebuilt by repair_heavy, --nodebump --noopt, "
        "classification by the sulfur positions of the returned model); with debumping on the returned sulfurs may "
        "differ from the ones detection saw and that case is not judged."
    ),
    "level_note": (
        "Trusted: Coq kernel+vm_compute; numpy.linalg.norm is an oracle (binary64 with FMA here; the float instance "
        "of the model takes its values and does the `< 2.5` test itself; the integer instance is exact in 0.001 A "
        "units and agrees with binary64 except at d^2 = 6.25 exactly with non-dyadic coordinates); the processing "
        "order (chains sorted by id, file order inside a chain) is predicted by the harness and checked by the tie; "
        "hydrogen optimisation/debumping are not modelled (they never changed HG presence in the runs); titration "
        "(--titration-state-method) is out of scope (C06)."
    ),
    "design_ref": "DESIGN.md 4 C13",
}

THEOREMS = [
    "C13_ss_pair_symmetric",
    "C13_ss_isolated_free",
    "C13_ss_perm_invariant",
    "C13_ss_perm_invariant_all",
    "C13_ss_label_invariant",
    "C13_closeZ_symmetric",
    "C13_ss_third_sulfur_order_dependent",
    "C13_ss_third_sulfur_not_mutual",
    "C13_ss_free_unbuildable_named_CYX",
    "C13_nonvacuous",
    "C13_detection_sees_final_sulfurs",
    "C13_ss_stage_order_table",
    "C13_detection_before_repair_is_wrong",
]
ALLOWED_AXIOMS = []

HEADER = (
    "From Coq Require Import List ZArith String PrimFloat Bool.\n"
    "From PV Require Import Model.SSBridge.\nImport ListNotations.\n"
)

LIMIT2 = 2500 * 2500  # (2.5 A)^2 in (0.001 A)^2

# --------------------------------------------------------------------------
# structure builder (scaffolding): rigid copies of CYS units on the 0.001 A lattice

# ideal CYS heavy atoms (pdb2pqr/dat/AA.xml) + OXT of the CTERM patch, HG of the template
TPL_CYS = [
    ("N", 1201, 847, 0),
    ("CA", 0, 0, 0),
    ("C", -1250, 881, 0),
    ("O", -2185, 660, -784),
    ("CB", 18, -958, 1184),
    ("SG", 1431, -2085, 1212),
    ("OXT", -1529, 1858, 695),
]
TPL_HG = ("HG", 2014, -1908, 419)

# GLU16-CYS17-ILE18 of tests/data/1AJJ.pdb (heavy atoms): an internal cysteine
TPL_TRI = [
    ("GLU", -1, [("N", 5413, 1293, 6879), ("CA", 6544, 1547, 7767), ("C", 7016, 2986, 7710), ("O", 6745, 3728, 6761),
                 ("CB", 7733, 646, 7437), ("CG", 8431, 838, 6107), ("CD", 7846, 5, 4961), ("OE1", 6624, -76, 4774),
                 ("OE2", 8635, -558, 4204)]),
    ("CYS", 0, [("N", 7700, 3328, 8786), ("CA", 8229, 4667, 8985), ("C", 9736, 4647, 8901), ("O", 10395, 3794, 9508),
                ("CB", 7826, 5168, 10354), ("SG", 6018, 5218, 10528)]),
    ("ILE", 1, [("N", 10283, 5589, 8158), ("CA", 11717, 5686, 7979), ("C", 12200, 7084, 8320), ("O", 11419, 8050, 8348),
                ("CB", 12124, 5352, 6519), ("CG1", 11519, 6361, 5531), ("CG2", 11715, 3912, 6222),
                ("CD1", 11937, 6080, 4074)]),
]


def _rots():
    out = []
    for perm in itertools.permutations(range(3)):
        for signs in itertools.product([1, -1], repeat=3):
            m = [[0] * 3 for _ in range(3)]
            for i in range(3):
                m[i][perm[i]] = signs[i]
            det = (
                m[0][0] * (m[1][1] * m[2][2] - m[1][2] * m[2][1])
                - m[0][1] * (m[1][0] * m[2][2] - m[1][2] * m[2][0])
                + m[0][2] * (m[1][0] * m[2][1] - m[1][1] * m[2][0])
            )
            if det == 1:
                out.append(m)
    return out


ROTS = _rots()  # the 24 rotations of the cube: exact on the lattice


def _apply(rot, v):
    return tuple(sum(rot[i][j] * v[j] for j in range(3)) for i in range(3))


def unit_residues(u):
    """[(resname, seq offset, [(atom, x, y, z)])] of a unit, SG (template position) moved onto u['sg']."""
    rot = ROTS[u["rot"]]
    if u["kind"] == "tri":
        groups = [(rn if rn != "CYS" else u["name"], off, list(at)) for rn, off, at in TPL_TRI]
        sg0 = [a for a in TPL_TRI[1][2] if a[0] == "SG"][0][1:]
    else:
        atoms = list(TPL_CYS) + ([TPL_HG] if u["hg"] else [])
        if u["variant"] == "noSG":
            atoms = [a for a in atoms if a[0] not in ("SG", "HG")]
        elif u["variant"] == "stub":
            atoms = [a for a in atoms if a[0] in ("CA", "SG")]
        groups = [(u["name"], 0, atoms)]
        sg0 = TPL_CYS[5][1:]
    r0 = _apply(rot, sg0)
    sh = [u["sg"][i] - r0[i] for i in range(3)]
    res = []
    for rn, off, atoms in groups:
        out = []
        for n, x, y, z in atoms:
            v = _apply(rot, (x, y, z))
            out.append((n, v[0] + sh[0], v[1] + sh[1], v[2] + sh[2]))
        res.append((rn, off, out))
    return res


def unit_ca(u):
    for rn, off, atoms in unit_residues(u):
        if off == 0:
            for n, x, y, z in atoms:
                if n == "CA":
                    return (x, y, z)
    raise AssertionError("unit without CA")


def has_sg(u):
    return u["variant"] != "noSG"


def pdb_text(case):
    """PDB text of a case = units (geometry) + layout (labels, numbers, file order, TER placement)."""
    lay = case["layout"]
    units = {u["id"]: u for u in case["units"]}
    lines = []
    ser = 1
    order = lay["order"]
    for pos, uid in enumerate(order):
        u = units[uid]
        lab = lay["labels"][str(uid)]
        seq = lay["seqs"][str(uid)]
        ic = lay["icodes"].get(str(uid), " ")
        for rn, off, atoms in unit_residues(u):
            for n, x, y, z in atoms:
                nm = (" " + n).ljust(4) if len(n) < 4 else n
                lines.append(
                    "ATOM  %5d %s %3s %1s%4d%1s   %8.3f%8.3f%8.3f  1.00  0.00          %2s"
                    % (ser % 100000, nm, rn, lab or " ", seq + off, ic if off == 0 else " ", x / 1000, y / 1000, z / 1000, n[0])
                )
                ser += 1
        nxt = order[pos + 1] if pos + 1 < len(order) else None
        if lay["ter"] == "each" or (lay["ter"] == "chain" and (nxt is None or lay["labels"][str(nxt)] != lab)):
            lines.append("TER")
    lines.append("END")
    return "\n".join(lines) + "\n"


def processing_order(case):
    """Order of Biomolecule.residues as the harness predicts it: chains sorted by
    id (python string order), file order inside a chain; blank ids are either one
    chain or lettered A, B, ... by TER count in file order."""
    lay = case["layout"]
    order = lay["order"]
    if all((lay["labels"][str(u)] or "") == "" for u in order):
        return list(order)
    return sorted(order, key=lambda u: lay["labels"][str(u)])  # stable


# --------------------------------------------------------------------------
# running the implementation

_DEF = None


def _definition():
    global _DEF
    if _DEF is None:
        from pdb2pqr import io as pio

        _DEF = pio.get_definitions()
    return _DEF


class _Capture(logging.Handler):
    def __init__(self):
        super().__init__(level=logging.WARNING)
        self.multi = 0

    def emit(self, record):
        try:
            if "multiple potential" in record.getMessage():
                self.multi += 1
        except Exception:
            pass


def _observe(bio, case):
    """{unit id: (bonded, partner id or None, patched, hg, ffname[-3:], name, SG charge)} by CA position."""
    from pdb2pqr import aa

    bykey = {}
    for r in bio.residues:
        if isinstance(r, aa.CYS):
            ca = r.get_atom("CA")
            if ca is not None:
                bykey[(round(ca.x * 1000), round(ca.y * 1000), round(ca.z * 1000))] = r
    rid = {}
    for u in case["units"]:
        r = bykey.get(unit_ca(u))
        if r is None:
            return f"EXC-lost-unit-{u['id']}"
        rid[id(r)] = u["id"]
    obs = {}
    for u in case["units"]:
        r = bykey[unit_ca(u)]
        p = r.ss_bonded_partner
        pid = None
        if p is not None:
            pid = rid.get(id(p.residue), -1)
            if p.name != "SG":
                pid = -2
        sg = r.get_atom("SG")
        obs[u["id"]] = (
            bool(r.ss_bonded),
            pid,
            "CYX" in r.patches,
            bool(r.has_atom("HG")),
            str(r.ffname)[-3:],
            r.name,
            getattr(sg, "ffcharge", None) if sg is not None else None,
        )
    return obs


def run_direct(case):
    """The stage functions in main.py's order, without repair/debump/optimisation."""
    from pdb2pqr import main as pmain
    from pdb2pqr import pdb as ppdb

    lg = logging.getLogger("pdb2pqr.biomolecule")
    cap = _Capture()
    old_level, old_prop = lg.level, lg.propagate
    lg.addHandler(cap)
    lg.setLevel(logging.WARNING)
    lg.propagate = False
    try:
        pdblist, _errs = ppdb.read_pdb(_io.StringIO(pdb_text(case)))
        bio, _d, _l = pmain.setup_molecule(pdblist, _definition(), None)
        bio.set_termini(neutraln=False, neutralc=False)
        bio.update_bonds()
        bio.update_ss_bridges()
        bio.add_hydrogens()
        bio.set_states()
        obs = _observe(bio, case)
    except Exception as e:  # noqa
        return f"EXC-{type(e).__name__}: {e}", 0
    finally:
        lg.removeHandler(cap)
        lg.setLevel(old_level)
        lg.propagate = old_prop
    return obs, cap.multi


def run_driver(ctx, case, text=None):
    """The whole pipeline through main.main_driver."""
    from pdb2pqr import main as pmain

    d = ctx.scratch_dir()
    inp = d / "in.pdb"
    inp.write_text(text if text is not None else pdb_text(case))
    out = d / "out.pqr"
    if out.exists():
        out.unlink()
    args = pmain.build_main_parser().parse_args([*case.get("extra", ["--ff=AMBER"]), "--log-level=CRITICAL", str(inp), str(out)])
    root = logging.getLogger()
    lvl = root.level
    try:
        _missed, _pka, bio = pmain.main_driver(args)
    except BaseException as e:  # noqa  (main_driver may raise SystemExit/RuntimeError)
        if isinstance(e, KeyboardInterrupt):
            raise
        return f"EXC-{type(e).__name__}: {e}", None
    finally:
        root.setLevel(lvl)
        for h in list(root.handlers):
            if isinstance(h, logging.FileHandler):
                root.removeHandler(h)
    if text is not None:
        return bio, None
    return _observe(bio, case), bio


def canon_impl(case, obs):
    if isinstance(obs, str):
        return obs.split(":")[0]
    out = []
    for uid in processing_order(case):
        b, p, pt, hg, ff, _nm, _q = obs[uid]
        out.append(f"{uid}:{int(b)}:{'-' if p is None else p}:{int(pt)}:{int(hg)}:{ff}")
    return ";".join(out)


def canon_model(s):
    """drop the partner-list field; return (canonical string, #residues with >1 partners)"""
    if s.startswith("ERR"):
        return s, 0
    out = []
    multi = 0
    for item in s.split(";"):
        f = item.split(":")
        if len(f[1].split(",")) > 1:
            multi += 1
        out.append(":".join([f[0]] + f[2:]))
    return ";".join(out), multi


# --------------------------------------------------------------------------
# model terms

NAMECODE = {"CYS": 0, "CYX": 1, "CYM": 2}


def _b(x):
    return "true" if x else "false"


def model_residues(case):
    units = {u["id"]: u for u in case["units"]}
    items = []
    for uid in processing_order(case):
        u = units[uid]
        items.append(f"({uid}, {NAMECODE[u['name']]}, {_b(has_sg(u))}, {_b(u['hg'] and u['variant'] == 'full')}, {_b(u['variant'] != 'stub')})")
    return core.coq_list(items)


def term_Z(case):
    coords = core.coq_list([f"({u['id']}, ({core.coq_Z(u['sg'][0])}, {core.coq_Z(u['sg'][1])}, {core.coq_Z(u['sg'][2])}))" for u in case["units"] if has_sg(u)])
    return f"run_ssZ {model_residues(case)} {coords}"


def parsed_coords(u):
    """The floats pdb.ATOM parses from the %8.3f columns."""
    return [float("%8.3f" % (c / 1000)) for c in u["sg"]]


def np_dist(p, q):
    import numpy as np

    return float(np.linalg.norm(np.array(p) - np.array(q)))


def term_F(case):
    us = [u for u in case["units"] if has_sg(u)]
    items = []
    for a in us:
        for b in us:
            if a["id"] != b["id"]:
                items.append(f"({a['id']}, {b['id']}, {core.float_hex(np_dist(parsed_coords(a), parsed_coords(b)))})")
    return f"run_ssF {model_residues(case)} {core.coq_list(items)}"


# --------------------------------------------------------------------------
# exact geometry (model independent): d^2 in (0.001 A)^2


def d2(a, b):
    return sum((a[i] - b[i]) ** 2 for i in range(3))


def exact_relation(case):
    """{(i,j): True / False / None} - None when d is exactly 2.5 A (the verdict of
    the binary64 code then depends on rounding; not judged by the oracle)."""
    us = [u for u in case["units"] if has_sg(u)]
    rel = {}
    for a in us:
        for b in us:
            if a["id"] != b["id"]:
                n = d2(a["sg"], b["sg"])
                rel[(a["id"], b["id"])] = True if n < LIMIT2 else (False if n > LIMIT2 else None)
    return rel


def classify(case):
    """per unit: ('pair', j) | ('isolated',) | ('other',) under the property's hypothesis."""
    rel = exact_relation(case)
    ids = [u["id"] for u in case["units"] if has_sg(u)]
    nb = {i: [j for j in ids if j != i and rel[(i, j)] is True] for i in ids}
    und = {i: any(rel[(i, j)] is None for j in ids if j != i) for i in ids}
    cls = {}
    for u in case["units"]:
        i = u["id"]
        if not has_sg(u):
            cls[i] = ("isolated",)
        elif und[i]:
            cls[i] = ("other",)
        elif not nb[i]:
            cls[i] = ("isolated",)
        elif len(nb[i]) == 1 and not und[nb[i][0]] and nb[nb[i][0]] == [i]:
            cls[i] = ("pair", nb[i][0])
        else:
            cls[i] = ("other",)
    return cls, rel


_FFSETS = None


def amber_sg_charges():
    """SG charges of the (N|C)CYX and (N|C)CYS rows of AMBER.DAT, read directly."""
    global _FFSETS
    if _FFSETS is None:
        import pdb2pqr

        cyx, cys = set(), set()
        for line in (Path(pdb2pqr.__file__).parent / "dat" / "AMBER.DAT").read_text().splitlines():
            w = line.split()
            if len(w) >= 4 and w[1] == "SG":
                if re.fullmatch(r"[NC]?CYX", w[0]):
                    cyx.add(float(w[2]))
                elif re.fullmatch(r"[NC]?CYS", w[0]):
                    cys.add(float(w[2]))
        _FFSETS = (cyx, cys)
    return _FFSETS


def oracle(case, obs, check_charge=False, cls_rel=None, with_sulfur=None):
    """Independent check of the property on observed results.
    Returns [(signature, message)].  cls_rel: a classification made elsewhere (final geometry of the returned
    model, see rebuilt_sulfur_check) instead of the input geometry; with_sulfur: ids of units that have a sulfur there."""
    if isinstance(obs, str):
        return [({"site": "pipeline", "field": "exception", "condition": obs.split(":")[0]}, f"run failed: {obs[:200]}")]
    bad = []
    cls, rel = cls_rel if cls_rel is not None else classify(case)
    units = {u["id"]: u for u in case["units"]}
    site = "Biomolecule.update_ss_bridges"
    for i, c in cls.items():
        b, p, pt, hg, ff, nm, q = obs[i]
        u = units[i]
        if c[0] == "pair":
            j = c[1]
            if not b:
                bad.append(({"site": site, "field": "ss_bonded", "condition": "exclusive-pair"}, f"unit {i}: exclusive pair with {j} not flagged"))
            if p != j:
                bad.append(({"site": site, "field": "ss_bonded_partner", "condition": "exclusive-pair"}, f"unit {i}: partner is {p}, expected {j}"))
            if ff != "CYX" or not pt:
                bad.append(({"site": "Biomolecule.update_ss_bridges/CYS.set_state", "field": "ffname", "condition": "exclusive-pair"}, f"unit {i}: ffname ..{ff}, CYX patch {pt}"))
            if hg:
                bad.append(({"site": "Biomolecule.add_hydrogens", "field": "HG", "condition": "exclusive-pair"}, f"unit {i}: bridged cysteine has HG"))
            if check_charge and q is not None and q not in amber_sg_charges()[0]:
                bad.append(({"site": "Biomolecule.apply_force_field", "field": "SG charge", "condition": "exclusive-pair"}, f"unit {i}: SG charge {q} is not a CYX charge"))
        elif c[0] == "isolated" and u["name"] == "CYS" and u["variant"] != "stub":
            if b or p is not None:
                bad.append(({"site": site, "field": "ss_bonded", "condition": "isolated"}, f"unit {i}: isolated cysteine flagged (partner {p})"))
            if not hg:
                bad.append(({"site": "Biomolecule.add_hydrogens", "field": "HG", "condition": "isolated"}, f"unit {i}: free CYS without HG"))
            if ff != "CYS" or pt:
                bad.append(({"site": "Biomolecule.update_ss_bridges/CYS.set_state", "field": "ffname", "condition": "isolated"}, f"unit {i}: free CYS named ..{ff}, CYX patch {pt}"))
            if check_charge and q is not None and (has_sg(u) or with_sulfur is not None) and q not in amber_sg_charges()[1]:
                bad.append(({"site": "Biomolecule.apply_force_field", "field": "SG charge", "condition": "isolated"}, f"unit {i}: SG charge {q} is not a CYS charge"))
        elif c[0] == "isolated" and u["name"] == "CYM" and u["variant"] != "stub":
            # exclusivity: a thiolate (named CYM in the input) with no sulfur in range is not a bridged cysteine
            if b or p is not None:
                bad.append(({"site": site, "field": "ss_bonded", "condition": "isolated-thiolate"}, f"unit {i}: isolated CYM flagged (partner {p})"))
            if ff == "CYX" or pt:
                bad.append(({"site": "Biomolecule.update_ss_bridges/CYS.set_state", "field": "ffname", "condition": "isolated-thiolate"}, f"unit {i}: isolated thiolate CYM gets bridged-cysteine name ..{ff} (CYX patch {pt})"))
        # exclusivity in the wide sense: whoever is flagged points at a sulfur within the limit
        if p is not None:
            if p < 0 or not (has_sg(u) if with_sulfur is None else i in with_sulfur) or (i, p) not in rel or rel[(i, p)] is False:
                bad.append(({"site": site, "field": "ss_bonded_partner", "condition": "partner-out-of-range"}, f"unit {i}: partner {p} is not a sulfur within 2.5 A"))
        if b != (p is not None):
            bad.append(({"site": site, "field": "ss_bonded_partner", "condition": "flag-without-partner"}, f"unit {i}: ss_bonded={b} partner={p}"))
    return bad


def hypothesis_view(case, obs):
    """what must be layout-independent: results of the units under the hypothesis"""
    cls, _ = classify(case)
    stub = {u["id"] for u in case["units"] if u["variant"] == "stub"}  # outside the guard of isolated_free
    return {i: obs[i][:5] for i, c in cls.items() if c[0] != "other" and i not in stub}


# --------------------------------------------------------------------------
# sulfurs that are not in the input: the property speaks of the sulfur atoms of the returned model


def final_sulfurs(bio, case):
    """{unit id: (x, y, z) of SG on the returned biomolecule} (units found by CA position)"""
    from pdb2pqr import aa

    bykey = {}
    for r in bio.residues:
        if isinstance(r, aa.CYS):
            ca = r.get_atom("CA")
            if ca is not None:
                bykey[(round(ca.x * 1000), round(ca.y * 1000), round(ca.z * 1000))] = r
    out = {}
    for u in case["units"]:
        r = bykey.get(unit_ca(u))
        sg = r.get_atom("SG") if r is not None else None
        if sg is not None:
            out[u["id"]] = (sg.x, sg.y, sg.z)
    return out


def classify_final(case, sul, margin=1e-3):
    """classification by the FINAL sulfur positions; distances within `margin` of the limit are not judged"""
    ids = sorted(sul)
    rel = {}
    for i in ids:
        for j in ids:
            if i != j:
                d = sum((a - b) ** 2 for a, b in zip(sul[i], sul[j])) ** 0.5
                rel[(i, j)] = True if d < 2.5 - margin else (False if d > 2.5 + margin else None)
    nb = {i: [j for j in ids if j != i and rel[(i, j)] is True] for i in ids}
    und = {i: any(rel[(i, j)] is None for j in ids if j != i) for i in ids}
    cls = {}
    for u in case["units"]:
        i = u["id"]
        if i not in sul:
            cls[i] = ("other",)
        elif und[i]:
            cls[i] = ("other",)
        elif not nb[i]:
            cls[i] = ("isolated",)
        elif len(nb[i]) == 1 and not und[nb[i][0]] and nb[nb[i][0]] == [i]:
            cls[i] = ("pair", nb[i][0])
        else:
            cls[i] = ("other",)
    return cls, rel


def gen_rebuilt_case(rng):
    """a driver-mode case in which one or more cysteines arrive WITHOUT their SG record (side chain truncated at
    CB): repair_heavy rebuilds the sulfur from the topology.  --nodebump --noopt: nothing moves after the repair,
    so the sulfur positions of the returned model are those any detection after the repair saw."""
    for _ in range(50):
        pattern = rng.choice(["pair", "pair", "pair+free", "pair+far2", "two_pairs", "free_only"])
        pclass = rng.choice(["typical", "typical", "m0.5", "p0.5", "just_in", "just_out"] if "typical" in PAIR_CLASSES else list(PAIR_CLASSES))
        pts, pattern_, pclass_ = gen_geometry(rng, pattern, pclass)
        units = [{"id": i, "kind": "single", "variant": "full", "name": "CYS", "hg": False, "rot": 0, "sg": p} for i, p in enumerate(pts)]
        if orient_units(rng, units) >= 900 * 900:
            break
    k = rng.choice([1, 1, 1, 2, len(units)])
    for u in rng.sample(units, min(k, len(units))):
        u["variant"] = "noSG"
    ids = list(range(len(units)))
    rng.shuffle(ids)
    for u, i in zip(units, ids):
        u["id"] = i
    units.sort(key=lambda u: u["id"])
    ff = rng.choice(["AMBER", "AMBER", "PARSE", "CHARMM", "SWANSON", "TYL06", "PEOEPB"])
    return {"units": units, "pattern": pattern_, "pclass": pclass_, "mode": "driver", "layout": gen_layout(rng, units), "extra": [f"--ff={ff}", "--nodebump", "--noopt"], "rebuilt": True}


def rebuilt_sulfur_run(ctx, case):
    """run one rebuilt-sulfur case; returns [(signature, message)] and a summary for the counts"""
    obs, bio = run_driver(ctx, case)
    if isinstance(obs, str) or bio is None:
        return [], f"not-judged:{str(obs).split(':')[0]}"
    sul = final_sulfurs(bio, case)
    # the input sulfurs must still be where the input put them (nothing moves under --nodebump --noopt)
    for u in case["units"]:
        if has_sg(u) and u["id"] in sul and any(abs(a - b / 1000) > 5e-4 for a, b in zip(sul[u["id"]], u["sg"])):
            return [], "not-judged:input-sulfur-moved"
    cls, rel = classify_final(case, sul)
    bad = oracle(case, obs, check_charge=False, cls_rel=(cls, rel), with_sulfur=set(sul))
    kinds = sorted(c[0] for i, c in cls.items() if not has_sg({u["id"]: u for u in case["units"]}[i]))
    return [(dict(sig, condition=sig["condition"] + ":sulfur-rebuilt-by-repair"), msg + f" (final sulfur positions of the returned model; units without an SG record in the input: {[u['id'] for u in case['units'] if not has_sg(u)]})") for sig, msg in bad], "rebuilt-unit-is:" + ",".join(kinds)


def rebuilt_sulfur_check(ctx, n):
    rng = ctx.rng
    for _ in range(n):
        b = gen_rebuilt_case(rng)
        for c in (b, relayout(rng, b, 0)):
            bad, summary = rebuilt_sulfur_run(ctx, c)
            ctx.count(f"rebuilt-sulfur:{summary}")
            ctx.evaluated(("rebuilt",) + case_key(c), "pair" in summary)
            for sig, msg in bad:
                ctx.fail(sig, msg, slim(c))


# --------------------------------------------------------------------------
# generation


def _solutions(targets):
    """all a <= b <= c with a^2+b^2+c^2 = t, for each t in targets (one pass)"""
    sols = {t: [] for t in targets}
    top = max(targets)
    for a in range(0, 2502):
        for b in range(a, 2502):
            if top - a * a - b * b < b * b:
                break
            for t in targets:
                c2 = t - a * a - b * b
                if c2 < b * b:
                    continue
                c = math.isqrt(c2)
                if c * c == c2:
                    sols[t].append((a, b, c))
    return sols


# 6249999 = 7 mod 8 is not a sum of three squares: the nearest representable values are 6249998 and 6250001
_SOLS = _solutions([LIMIT2 - 2, LIMIT2, LIMIT2 + 1])
BOUNDARY = _SOLS[LIMIT2]  # integer vectors of length exactly 2500
BOUNDARY_DYADIC = [s for s in BOUNDARY if all(x % 125 == 0 for x in s)]
JUST_IN = _SOLS[LIMIT2 - 2]  # 2.4999996 A
JUST_OUT = _SOLS[LIMIT2 + 1]  # 2.5000002 A


def _signed_perm(rng, v):
    v = list(v)
    rng.shuffle(v)
    return [x * rng.choice([1, -1]) for x in v]


def _vec_len2_near(rng, target2):
    """an integer vector whose squared length is as close as possible to target2 from a random direction"""
    while True:
        x, y, z = (rng.gauss(0, 1) for _ in range(3))
        n = math.sqrt(x * x + y * y + z * z)
        if n < 1e-3:
            continue
        s = math.sqrt(target2) / n
        v = [round(x * s), round(y * s)]
        rest = target2 - v[0] ** 2 - v[1] ** 2
        if rest < 0:
            continue
        zz = math.isqrt(rest)
        return v + [zz * (1 if z >= 0 else -1)]


def pair_vector(rng, cls):
    """vector between two sulfurs for a distance class; returns (vector, dyadic-base-required)"""
    if cls == "exact_dyadic":
        return _signed_perm(rng, rng.choice(BOUNDARY_DYADIC)), True
    if cls == "exact_generic":
        return _signed_perm(rng, rng.choice(BOUNDARY)), False
    if cls in ("just_in", "just_out") and rng.random() < 0.5:
        return _signed_perm(rng, rng.choice(JUST_IN if cls == "just_in" else JUST_OUT)), False
    if cls in ("just_in", "just_out"):
        # squared length within a few units of 6 250 000 (distance differs from 2.5 by ~1e-7 A)
        for _ in range(200):
            v = _vec_len2_near(rng, LIMIT2 + (rng.randint(-3, -1) if cls == "just_in" else rng.randint(1, 4)))
            n = d2(v, (0, 0, 0))
            if (n < LIMIT2) == (cls == "just_in") and n != LIMIT2 and abs(n - LIMIT2) < 6000:
                return v, False
        return ([2499, 0, 0] if cls == "just_in" else [2501, 0, 0]), False
    if cls == "m1e-3":
        return (_signed_perm(rng, [2499, 0, 0]) if rng.random() < 0.4 else _vec_len2_near(rng, 2499 * 2499)), False
    if cls == "p1e-3":
        v = _signed_perm(rng, [2501, 0, 0]) if rng.random() < 0.4 else _vec_len2_near(rng, 2501 * 2501 + 4000)
        return v, False
    if cls == "m0.5":
        return (_signed_perm(rng, rng.choice([(2000, 0, 0), (0, 1200, 1600)])) if rng.random() < 0.4 else _vec_len2_near(rng, 2000 * 2000)), False
    if cls == "p0.5":
        return (_signed_perm(rng, rng.choice([(3000, 0, 0), (0, 1800, 2400)])) if rng.random() < 0.4 else _vec_len2_near(rng, 3000 * 3000)), False
    if cls == "typical":
        return _vec_len2_near(rng, rng.randint(1950, 2150) ** 2), False
    raise ValueError(cls)


PAIR_CLASSES = ["exact_dyadic", "exact_generic", "just_in", "just_out", "m1e-3", "p1e-3", "m0.5", "p0.5", "typical"]
PATTERNS = ["pair", "pair+free", "two_pairs", "triangle", "line3", "line4", "star", "pair+third_boundary", "free_only", "pair+far2"]


def gen_geometry(rng, pattern=None, pclass=None):
    """sulfur positions (0.001 A) as a list of points + the pattern name"""
    pattern = pattern or rng.choice(PATTERNS)
    pclass = pclass or rng.choice(PAIR_CLASSES)
    dyadic = False
    pts = []

    def far_offset(k):
        return [k * 16000, rng.choice([0, 3000, -2000]), rng.choice([0, 1000, -4000])]

    if pattern in ("pair", "pair+free", "pair+far2", "two_pairs", "pair+third_boundary"):
        v, dyadic = pair_vector(rng, pclass)
        pts = [[0, 0, 0], v]
        if pattern == "pair+free":
            pts.append(far_offset(1))
        elif pattern == "pair+far2":
            pts += [far_offset(1), far_offset(2)]
        elif pattern == "two_pairs":
            v2, dy2 = pair_vector(rng, rng.choice(PAIR_CLASSES))
            o = far_offset(1)
            if dyadic or dy2:
                dyadic = True
                o = [c - c % 125 for c in o]
                if not dy2:
                    v2, _ = pair_vector(rng, "exact_dyadic")
                if pclass != "exact_dyadic":
                    v, _ = pair_vector(rng, "exact_dyadic")
                    pts[1] = v
            pts += [o, [o[i] + v2[i] for i in range(3)]]
        elif pattern == "pair+third_boundary":
            # a third sulfur near the limit from the second one, on the far side
            c3 = rng.choice(["exact_generic", "just_in", "just_out", "m1e-3", "p1e-3"])
            for _ in range(100):
                w, _ = pair_vector(rng, c3)
                p3 = [v[i] + w[i] for i in range(3)]
                if d2(p3, pts[0]) > 3200 * 3200:
                    pts.append(p3)
                    break
            else:
                pts.append(far_offset(1))
            dyadic = False
    elif pattern == "triangle":
        pts = [[0, 0, 0], [2000, 0, 0], [1000, 1700, 0]]
        if rng.random() < 0.5:
            pts.append(far_offset(1))
    elif pattern == "line3":
        pts = [[-2000, 0, 0], [0, 0, 0], [2000, rng.choice([0, 300]), 0]]
    elif pattern == "line4":
        pts = [[0, 0, 0], [2000, 0, 0], [4000, 300, 0], [6000, 0, 0]]
    elif pattern == "star":
        pts = [[0, 0, 0], [2000, 0, 0], [-2000, 0, 0], [0, 2000, 0]]
    elif pattern == "free_only":
        pts = [far_offset(k) for k in range(rng.choice([1, 2, 3]))]
    # random rigid lattice motion of the whole constellation
    rot = rng.choice(ROTS)
    pts = [list(_apply(rot, p)) for p in pts]
    if dyadic:
        base = [125 * rng.randint(-300, 300) for _ in range(3)]
    else:
        base = [rng.randint(-60000, 60000) for _ in range(3)]
        if rng.random() < 0.15:
            base = [0, 0, 0]
    pts = [[p[i] + base[i] for i in range(3)] for p in pts]
    return pts, pattern, pclass


def orient_units(rng, units):
    """choose a lattice rotation per unit so that the residues point away from each other"""
    placed = []
    sgs = [u["sg"] for u in units]
    for u in units:
        best = None
        cands = list(range(24))
        rng.shuffle(cands)
        for r in cands:
            u["rot"] = r
            atoms = [a for _rn, _off, ats in unit_residues(u) for a in ats if a[0] not in ("SG", "HG")]
            m = 10**12
            for a in atoms:
                for q in placed:
                    m = min(m, d2(a[1:], q))
                for s in sgs:
                    if s is not u["sg"]:
                        m = min(m, d2(a[1:], s))
            if best is None or m > best[0]:
                best = (m, r)
            if m > 3000 * 3000:
                break
        u["rot"] = best[1]
        u["clear"] = best[0]
        placed += [a[1:] for _rn, _off, ats in unit_residues(u) for a in ats]
    return min(u["clear"] for u in units)


LABELS = list("ABCDEFGHXYZabcxyz0123459")


def gen_layout(rng, units, scheme=None):
    ids = [u["id"] for u in units]
    order = ids[:]
    rng.shuffle(order)
    scheme = scheme or rng.choice(["distinct", "distinct", "distinct", "same", "mixed", "blank_ter", "blank_noter"])
    if any(u["variant"] == "stub" for u in units):
        # a stub {CA, SG} is "unbuildable" only while it has no peptide neighbours (C-1 / N+1
        # would serve as reference atoms): keep it alone in its chain
        scheme = "distinct"
    if scheme == "distinct":
        labs = rng.sample(LABELS, len(ids))
    elif scheme == "same":
        labs = [rng.choice(LABELS)] * len(ids)
    elif scheme == "mixed":
        pool = rng.sample(LABELS, 2)
        labs = [rng.choice(pool) for _ in ids]
    else:
        labs = [""] * len(ids)
    labels = {str(i): l for i, l in zip(ids, labs)}
    ter = "each" if scheme in ("distinct", "blank_ter") else ("none" if scheme == "blank_noter" else rng.choice(["each", "chain", "none"]))
    # residue numbers: spaced at random / consecutive in file order / the same number in every chain
    nscheme = rng.choice(["spaced", "spaced", "consecutive", "consecutive", "same_number"])
    if nscheme == "same_number" and scheme != "distinct":
        nscheme = "consecutive"
    kinds = {u["id"]: u["kind"] for u in units}
    if nscheme == "spaced":
        slots = rng.sample(range(-30, 1900), len(ids))
        seqs = {str(i): 5 * s + rng.randint(0, 1) for i, s in zip(ids, slots)}
    elif nscheme == "same_number":
        n0 = rng.choice([1, 7, -2, 500, 9998])
        seqs = {str(i): n0 for i in ids}
    else:
        cnt = rng.choice([1, 1, -4, 17, 995, 9980])
        seqs = {}
        for i in order:
            if kinds[i] == "tri":
                seqs[str(i)] = cnt + 1
                cnt += 3
            else:
                seqs[str(i)] = cnt
                cnt += 1
    icodes = {str(i): rng.choice("ABZ") for i in ids if rng.random() < 0.1}
    return {"order": order, "labels": labels, "seqs": seqs, "icodes": icodes, "ter": ter, "scheme": scheme, "nscheme": nscheme}


def gen_case(rng, mode, pattern=None, pclass=None):
    for _ in range(50):
        pts, pattern_, pclass_ = gen_geometry(rng, pattern, pclass)
        units = []
        for i, p in enumerate(pts):
            kind = "tri" if rng.random() < 0.25 else "single"
            name = "CYS"
            variant = "full"
            hg = False
            if kind == "single":
                r = rng.random()
                if r < 0.10:
                    name = rng.choice(["CYX", "CYM"])
                elif r < 0.40:
                    hg = True
                if mode == "direct" and name == "CYS":
                    r = rng.random()
                    if r < 0.06:
                        variant, hg = "noSG", False
                    elif r < 0.10:
                        variant, hg = "stub", False
            units.append({"id": i, "kind": kind, "variant": variant, "name": name, "hg": hg, "rot": 0, "sg": p})
        clear = orient_units(rng, units)
        if clear >= 900 * 900:
            break
    ids = list(range(len(units)))
    rng.shuffle(ids)  # ids are not correlated with geometry roles
    for u, i in zip(units, ids):
        u["id"] = i
    units.sort(key=lambda u: u["id"])
    case = {"units": units, "pattern": pattern_, "pclass": pclass_, "mode": mode, "layout": gen_layout(rng, units)}
    if mode == "driver":
        case["extra"] = rng.choice([["--ff=AMBER"], ["--ff=AMBER"], ["--ff=AMBER", "--nodebump"], ["--ff=AMBER", "--noopt"], ["--ff=PARSE"], ["--ff=CHARMM"],
                                    # terminus options: every 'single' unit is a chain end (both ends), 'tri' units have the cysteine inside
                                    ["--ff=PARSE", "--neutraln"], ["--ff=PARSE", "--neutralc"], ["--ff=PARSE", "--neutraln", "--neutralc"], ["--ff=TYL06"], ["--ff=SWANSON", "--keep-chain"]])
    return case


def relayout(rng, case, k):
    """same geometry, another layout (order / chain labels / numbering)"""
    c = dict(case)
    if k == 0:
        lay = dict(case["layout"])
        lay["order"] = list(reversed(lay["order"]))
        # swap chain labels end for end as well so that the processing order really flips
        ids = sorted(int(i) for i in lay["labels"])
        po = processing_order(case)
        labs = sorted((lay["labels"][str(i)] for i in ids))
        if len(set(labs)) == len(labs):
            lay["labels"] = {str(u): l for u, l in zip(reversed(po), labs)}
        c["layout"] = lay
    else:
        c["layout"] = gen_layout(rng, case["units"])
    return c


def has_boundary_pair(case):
    return any(v is None for v in exact_relation(case).values())


def all_dyadic(case):
    return all(c % 125 == 0 for u in case["units"] if has_sg(u) for c in u["sg"])


def case_key(case):
    cls, rel = classify(case)
    kinds = sorted(c[0] for c in cls.values())
    lay = case["layout"]
    return (case["pattern"], case["pclass"] if "pair" in case["pattern"] else "", tuple(kinds), lay["scheme"], lay.get("nscheme"), tuple(processing_order(case)), case["mode"],
            tuple(sorted((u["name"], u["variant"], u["hg"], u["kind"]) for u in case["units"])))


def nontrivial(case):
    cls, _ = classify(case)
    return any(c[0] == "pair" for c in cls.values()) or sum(1 for u in case["units"] if has_sg(u)) >= 2


def slim(case):
    """JSON-able copy for replays"""
    return {k: case[k] for k in ("units", "pattern", "pclass", "mode", "layout", "extra", "rebuilt") if k in case}


# --------------------------------------------------------------------------
# real structures (tests/data): SSBOND annotation and brute force as oracle


def data_file(name):
    for base in (core.REPO, Path("/repo")):
        p = base / "tests" / "data" / name
        if p.exists():
            return p
    return None


def real_structure_check(ctx, name):
    p = data_file(name)
    if p is None:
        ctx.notes.append(f"{name} not available")
        return
    from pdb2pqr import aa

    raw = p.read_text().splitlines()
    sg = {}
    for l in raw:
        if l.startswith("ATOM") and l[12:16].strip() == "SG" and l[17:20] == "CYS" and l[16] in " A":
            sg[(l[21], int(l[22:26]))] = tuple(round(float(l[30 + 8 * i : 38 + 8 * i]) * 1000) for i in range(3))
    ssbond = set()
    for l in raw:
        if l.startswith("SSBOND"):
            ssbond.add(frozenset([(l[15], int(l[17:21])), (l[29], int(l[31:35]))]))
    keys = sorted(sg)
    near = {k: [j for j in keys if j != k and d2(sg[k], sg[j]) < LIMIT2] for k in keys}
    variants = [("as-is", None), ("renumber+chain", (1000, "Q"))]
    results = []
    for vname, tr in variants:
        lines = []
        for l in raw:
            if l.startswith(("ATOM", "HETATM", "TER", "ANISOU")) and tr and len(l) > 26:
                if l.startswith("ANISOU"):
                    continue
                num = l[22:26]
                if num.strip():
                    l = l[:21] + tr[1] + "%4d" % (int(num) + tr[0]) + l[26:]
            lines.append(l)
        case = {"extra": ["--ff=AMBER"]}
        bio, _ = run_driver(ctx, case, text="\n".join(lines) + "\n")
        if isinstance(bio, str):
            ctx.fail({"site": "pipeline", "field": "exception", "condition": bio.split(":")[0]}, f"{name} ({vname}) failed: {bio[:200]}", {"real": name, "variant": vname})
            continue
        off = tr[0] if tr else 0
        got = {}
        for r in bio.residues:
            if isinstance(r, aa.CYS):
                # identify by residue number (chain ids may be rewritten)
                key = [k for k in keys if k[1] == r.res_seq - off]
                key = key[0] if len(key) == 1 else None
                pr = r.ss_bonded_partner
                got[key] = (bool(r.ss_bonded), (pr.residue.res_seq - off) if pr is not None else None, str(r.ffname)[-3:], bool(r.has_atom("HG")))
        results.append(got)
        for k in keys:
            ctx.evaluated(("real", name, vname, k), True)
            g = got.get(k)
            if g is None:
                ctx.fail({"site": "pipeline", "field": "residue", "condition": "cysteine-lost"}, f"{name}: {k} not found in result", {"real": name, "variant": vname})
                continue
            excl = len(near[k]) == 1 and near[near[k][0]] == [k]
            if excl:
                j = near[k][0]
                if not (g[0] and g[1] == j[1] and g[2] == "CYX" and not g[3]):
                    ctx.fail({"site": "Biomolecule.update_ss_bridges", "field": "real-structure", "condition": "exclusive-pair"}, f"{name} {vname}: {k} exclusive pair with {j}, observed {g}", {"real": name, "variant": vname})
                if ssbond and frozenset([k, j]) not in ssbond:
                    ctx.notes.append(f"{name}: pair {k}-{j} within 2.5 A but not in SSBOND records")
            elif not near[k]:
                if g[0] or g[2] != "CYS" or not g[3]:
                    ctx.fail({"site": "Biomolecule.update_ss_bridges", "field": "real-structure", "condition": "isolated"}, f"{name} {vname}: free {k} observed {g}", {"real": name, "variant": vname})
        for b in ssbond:
            a1, a2 = tuple(b)
            if a1 in sg and a2 in sg and d2(sg[a1], sg[a2]) < LIMIT2 and not (got.get(a1, (0,))[0] and got.get(a2, (0,))[0]):
                ctx.fail({"site": "Biomolecule.update_ss_bridges", "field": "real-structure", "condition": "SSBOND-not-detected"}, f"{name} {vname}: SSBOND {sorted(b)} not detected", {"real": name, "variant": vname})
    if len(results) == 2 and results[0] != results[1]:
        ctx.fail({"site": "Biomolecule.update_ss_bridges", "field": "real-structure", "condition": "renumbering"}, f"{name}: result changes under renumbering / chain relabelling", {"real": name})
    ctx.count(f"real:{name}")


# --------------------------------------------------------------------------
# the check


def corpus_cases():
    d = core.CORPUS / "C13"
    out = []
    if d.exists():
        import json

        for f in sorted(d.glob("*.json")):
            out.append(json.loads(f.read_text()))
    return out


def fixed_cases(rng):
    """deterministic boundary cases that every run must contain"""
    out = []
    for pclass in PAIR_CLASSES:
        for pattern in ("pair", "pair+free"):
            out.append(gen_case(rng, "direct", pattern, pclass))
    for pattern in ("triangle", "line3", "line4", "star", "pair+third_boundary", "two_pairs"):
        out.append(gen_case(rng, "direct", pattern))
    return out


def evaluate(ctx, cases, observed, label):
    """correspondence (model vs observed) for a list of cases; returns True if it held"""
    terms = []
    plan = []
    for k, c in enumerate(cases):
        bnd = has_boundary_pair(c)
        useZ = (not bnd) or all_dyadic(c)
        useF = bnd or (k % 5 == 0)
        if useZ:
            plan.append((k, "Z"))
            terms.append(term_Z(c))
        if useF:
            plan.append((k, "F"))
            terms.append(term_F(c))
    try:
        res = core.run_cases("C13" + label, HEADER, terms, chunk=max(60, (len(terms) + 11) // 12))
    except core.CoqEvalError as e:
        ctx.broke("correspondence-broken", "model evaluation failed", str(e))
        return False
    held = True
    for (k, inst), mout in zip(plan, res):
        c = cases[k]
        obs, multi = observed[k]
        iout = canon_impl(c, obs)
        mcanon, mmulti = canon_model(mout)
        ctx.cov["correspondence_cases"] += 1
        ctx.count(f"corr:{c['mode']}:{inst}")
        okc = iout == mcanon and (multi is None or isinstance(obs, str) or multi == mmulti)
        if not okc:
            ctx.cov["correspondence_disagreements"] += 1
            held = False
            if len([b for b in ctx.broken if b["kind"] == "correspondence-broken"]) < 3:
                ctx.broke(
                    "correspondence-broken",
                    f"Model.SSBridge.run_ss{inst} vs Biomolecule.update_ss_bridges/add_hydrogens/CYS.set_state ({c['mode']})",
                    f"impl={iout!r} (multi-partner warnings {multi}) model={mcanon!r} (multi {mmulti}) full model output={mout!r}",
                    slim(c),
                )
    return held


def run(ctx):
    ctx.cov["rule"] = (
        "constructed structures of 1-6 cysteine units (ideal CYS or GLU-CYS-ILE of 1AJJ, lattice rotations, integer 0.001 A "
        "coordinates) in patterns pair/two pairs/triangle/line/star/third sulfur at the limit, pair distance classes "
        "{2.5 exactly dyadic, 2.5 exactly generic (+-1 ulp in binary64), |d^2-6.25|<=6e-3, +-1e-3, +-0.5, 1.95-2.15}, "
        "names CYS/CYX/CYM, HG in input, missing SG, stub residues; layouts: chain labels distinct/same/mixed/blank, TER "
        "placement, numbering, insertion codes, file order; each geometry in 3 layouts. non-trivial = at least two sulfurs "
        "or an exclusive pair; distinct by (pattern, class, per-unit hypothesis class, label scheme, processing order, "
        "mode, unit kinds)"
    )
    from harness.props import c01 as _c01

    gen_ok = _c01.regenerate(ctx, "stages")  # Generated/Stages.v from the current pdb2pqr/main.py
    ok = core.proof_stage(ctx, "C13", THEOREMS, ALLOWED_AXIOMS) if gen_ok else False
    if not gen_ok:
        ctx.obligations.extend(THEOREMS)
    rng = ctx.rng
    ngeo = 3000 if ctx.thorough else 700
    ndrv = 200 if ctx.thorough else 50

    # ---- direct mode: geometry x 3 layouts
    groups = []  # list of lists of case indices sharing a geometry
    cases = []
    for c in corpus_cases():
        groups.append([len(cases)])
        cases.append(c)
    base = fixed_cases(rng) + [gen_case(rng, "direct") for _ in range(ngeo)]
    for b in base:
        g = [len(cases)]
        cases.append(b)
        for k in range(2):
            g.append(len(cases))
            cases.append(relayout(rng, b, k))
        groups.append(g)
    observed = [run_direct(c) if c["mode"] == "direct" else (run_driver(ctx, c)[0], None) for c in cases]
    corr_ok = evaluate(ctx, cases, observed, "d")

    # ---- driver mode: whole pipeline
    dcases = []
    dgroups = []
    fixed_drv = [("pair", "exact_dyadic"), ("pair+free", "exact_generic"), ("pair+free", "just_in"), ("pair", "just_out"),
                 ("two_pairs", "typical"), ("triangle", None), ("pair+free", "m1e-3"), ("pair+free", "p1e-3")]
    for k in range(ndrv):
        b = gen_case(rng, "driver", *(fixed_drv[k] if k < len(fixed_drv) else (None, None)))
        dgroups.append([len(dcases), len(dcases) + 1])
        dcases += [b, relayout(rng, b, 0)]
    dobs = []
    for c in dcases:
        o, _bio = run_driver(ctx, c)
        dobs.append((o, None))
    corr_ok = evaluate(ctx, dcases, dobs, "p") and corr_ok

    # ---- search with the independent oracle
    def search(cs, obs_list, grps):
        for c, (obs, _m) in zip(cs, obs_list):
            ctx.count(f"pattern:{c['pattern']}")
            if "pair" in c["pattern"]:
                ctx.count(f"class:{c['pclass']}")
            ctx.count(f"labels:{c['layout']['scheme']}")
            ctx.evaluated(case_key(c), nontrivial(c))
            for sig, msg in oracle(c, obs, check_charge=(c["mode"] == "driver" and c.get("extra", [""])[0] == "--ff=AMBER")):
                ctx.fail(sig, msg, slim(c))
        for g in grps:
            views = []
            for k in g:
                obs = obs_list[k][0]
                if isinstance(obs, str):
                    break
                views.append(hypothesis_view(cs[k], obs))
            else:
                for k, v in zip(g[1:], views[1:]):
                    if v != views[0]:
                        diff = sorted(i for i in v if v[i] != views[0].get(i))
                        ctx.fail(
                            {"site": "Biomolecule.update_ss_bridges", "field": "layout", "condition": "reordering-changes-result"},
                            f"units {diff}: result differs between two layouts of the same geometry: {views[0]} vs {v}",
                            {"a": slim(cs[g[0]]), "b": slim(cs[k]), "metamorphic": True},
                        )
                full = [{i: o[:5] for i, o in obs_list[k][0].items()} for k in g]
                if any(f != full[0] for f in full[1:]):
                    ctx.count("order_dependent_outside_hypothesis")

    search(cases, observed, groups)
    search(dcases, dobs, dgroups)
    if not ok or not corr_ok:
        # proof or tie broke: search much harder around the boundary
        extra = []
        egroups = []
        for b in ctx.broken:
            if isinstance(b.get("case"), dict) and "units" in b["case"]:
                egroups.append([len(extra)])
                extra.append(b["case"])
        for _ in range(1500):
            b = gen_case(rng, "direct")
            egroups.append([len(extra), len(extra) + 1, len(extra) + 2])
            extra += [b, relayout(rng, b, 0), relayout(rng, b, 1)]
        eobs = [run_direct(c) if c["mode"] == "direct" else (run_driver(ctx, c)[0], None) for c in extra]
        search(extra, eobs, egroups)

    # ---- cysteines whose SG record is missing: the sulfur is rebuilt by repair_heavy; judged on the returned model
    rebuilt_sulfur_check(ctx, 60 if ctx.thorough else 14)

    # ---- real structures
    for name in ["1AJJ.pdb"] + (["1BX8.pdb", "1A1P.pdb"] if ctx.thorough else ["1BX8.pdb"]):
        real_structure_check(ctx, name)

    # ---- the model's witnesses replayed on the real code (outside the hypothesis; informative)
    tri = {"units": [{"id": i, "kind": "single", "variant": "full", "name": "CYS", "hg": False, "rot": 0, "sg": p} for i, p in enumerate([[0, 0, 0], [2000, 0, 0], [1000, 1700, 0]])],
           "pattern": "triangle", "pclass": "", "mode": "direct"}
    orient_units(rng, tri["units"])
    seen = set()
    for perm in itertools.permutations(range(3)):
        t = dict(tri)
        t["layout"] = {"order": list(perm), "labels": {str(u): "ABC"[k] for k, u in enumerate(perm)}, "seqs": {"0": 1, "1": 2, "2": 3}, "icodes": {}, "ter": "each", "scheme": "distinct"}
        o, _m = run_direct(t)
        if not isinstance(o, str):
            seen.add(tuple(sorted((i, v[0]) for i, v in o.items())))
    ctx.notes.append(f"triangle witness on the real code: {len(seen)} different flag assignments over the 6 processing orders (order dependence outside the hypothesis, as C13_ss_third_sulfur_order_dependent states)")
    if len(seen) < 2:
        ctx.broke("correspondence-broken", "witness C13_ss_third_sulfur_order_dependent not reproduced by the real code", str(seen), slim(t))

    c0 = cases[min(len(cases) - 1, 5)]
    ctx.sample({"pdb_head": pdb_text(c0).splitlines()[:16], "processing_order": processing_order(c0), "observed": canon_impl(c0, observed[min(len(cases) - 1, 5)][0]), "pattern": c0["pattern"], "class": c0["pclass"]})
    if dcases:
        ctx.sample({"driver_case": {"pattern": dcases[0]["pattern"], "class": dcases[0]["pclass"], "extra": dcases[0]["extra"], "observed": canon_impl(dcases[0], dobs[0][0])}})
    ctx.sample({"obligation": "C13_ss_pair_symmetric: exclusive pair => partners [j]/[i], both flagged, mutual pointers, CYX, no HG - for all residue lists in any order"})
    ctx.trusted += [
        "oracle: numpy.linalg.norm on parsed %8.3f coordinates (binary64, FMA on this platform); the model's float instance takes its value and performs `< 2.5`",
        "modelled, not verified: Biomolecule.update_ss_bridges, the HG branch of add_hydrogens, apply_patch('CYX') (removal of HG), CYS.set_state (hand model Model/SSBridge.v, tied by equality of flags/partners/patch/HG/ffname and of the number of multiple-partner warnings)",
        "harness prediction of the order of Biomolecule.residues (chains sorted by id, file order inside a chain) - checked by the tie on order-dependent clusters",
        "structure builder (scaffolding); identification of residues by CA position",
    ]
    ctx.assumptions += [
        "sulfur coordinates are multiples of 0.001 A (PDB format); |coordinate| < 100 A in generated cases",
        "no titration state method (PROPKA) - CYM assignment is C06",
        "the guard of C13_ss_isolated_free (HG present or placeable) holds after repair_heavy; stub residues violate it only through direct API calls",
    ]


def model_vs_impl(ctx, case):
    """re-evaluate the model on one case and compare with the implementation"""
    obs, multi = run_direct(case) if case["mode"] == "direct" else (run_driver(ctx, case)[0], None)
    inst = "F" if has_boundary_pair(case) and not all_dyadic(case) else "Z"
    mout = core.run_cases("C13r", HEADER, [term_F(case) if inst == "F" else term_Z(case)])[0]
    mcanon, mmulti = canon_model(mout)
    iout = canon_impl(case, obs)
    same = iout == mcanon and (multi is None or isinstance(obs, str) or multi == mmulti)
    return same, f"impl={iout} (multi {multi}) model[{inst}]={mcanon} (multi {mmulti})"


def replay(ctx, data):
    case = data.get("case")
    if not case:
        # proof / correspondence break: replay the first disagreeing case against the model
        bc = [b for b in data.get("broken", []) if isinstance(b.get("case"), dict) and "units" in b["case"]]
        if not bc:
            print("replay: no concrete case in this file (proof break without input):", data.get("no_longer_checks"))
            return 1
        same, txt = model_vs_impl(ctx, bc[0]["case"])
        ctx.cleanup()
        print("replay: correspondence", "holds now" if same else "STILL BROKEN", "|", txt)
        return 0 if same else 1
    if "real" in case:
        before = len(ctx.failures)
        real_structure_check(ctx, case["real"])
        bad = ctx.failures[before:]
        print("replay:", "FAILS: " + bad[0]["what"] if bad else "passes")
        ctx.cleanup()
        return 1 if bad else 0
    if case.get("rebuilt"):
        bad, summary = rebuilt_sulfur_run(ctx, case)
        ctx.cleanup()
        print("replay:", summary, "|", "FAILS: " + "; ".join(m for _s, m in bad[:3]) if bad else "passes")
        return 1 if bad else 0
    pairs = [case["a"], case["b"]] if case.get("metamorphic") else [case]
    views = []
    fails = []
    for c in pairs:
        obs = run_direct(c)[0] if c["mode"] == "direct" else run_driver(ctx, c)[0]
        print("replay: observed", canon_impl(c, obs))
        fails += [m for _s, m in oracle(c, obs, check_charge=(c["mode"] == "driver" and c.get("extra", [""])[0] == "--ff=AMBER"))]
        if not isinstance(obs, str):
            views.append(hypothesis_view(c, obs))
    if case.get("metamorphic") and len(views) == 2 and views[0] != views[1]:
        fails.append(f"layouts disagree: {views[0]} vs {views[1]}")
    ctx.cleanup()
    print("replay:", "FAILS: " + "; ".join(fails[:4]) if fails else "passes")
    return 1 if fails else 0
