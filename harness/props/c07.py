"""C07 - every coordinate record of the first model of a PDB input is ingested."""

import io as _io
import json
import logging
import math
import os
import re

from harness import core

META = {
    "id": "C07",
    "level": "proof",
    "technique": (
        "Coq proof (induction over all line lists) about a hand-written string-level model of "
        "pdb.read_pdb + ATOM/HETATM parsers + Biomolecule.__init__ + drop_water, tied to the code by "
        "differential execution on generated PDB texts; independent fixed-column oracle and metamorphic "
        "pairs on the real code"
    ),
    "level_text": (
        "Proved for ALL line lists (induction, no size bound), about the code with the C07-F1..F8 repairs. "
        "(1) C07_loud_or_complete / C07_atom_fields_all_lines: for every list of readline() chunks, under the two "
        "DESIGN guards only (G2 blank-chain lettering inert, G5 no two alias names of one atom in a residue), the read "
        "either fails with ValueError - exactly when some coordinate line raises in its parser - or the atoms of the "
        "Biomolecule are exactly cols_read2: coordinate lines (record name of the STRIPPED line: leading blanks/tabs do "
        "not matter, lower-case or fused names are unknown records) in front of the second MODEL line, first listed per "
        "chain/resSeq/iCode/name, each read by fixed columns from the line itself or, when it has <= 26 (ATOM) / <= 16 "
        "(HETATM) characters, from the line pdb.read_atom rebuilds (one definition shared by model and specification; "
        "the harness's slicer implements it independently). Nothing is dropped silently (C07_coordinate_line_cases, "
        "C07_read_total). C07_later_models_ignored_all_lines (G2) and C07_drop_water_iff_all_lines (no guard) hold for "
        "all line lists that do not fail loudly. "
        "(1b) --drop-water is part of the ingest model as a filter by RESIDUE NAME only (HOH/WAT; TIP, SOL, DOD are "
        "not waters): C07_drop_water_complete - for ALL line lists, with the flag the read is loud or the atoms are "
        "exactly the non-water coordinate lines of the first model, whatever the serial numbers (shared, constant, "
        "wrapped, restarting), chains or positions; C07_drop_water_by_residue_name at record level. Tied through the "
        "model correspondence, an independent slicer with the flag (atoms told apart by serial AND coordinates), "
        "main.drop_water on the parsed list (object identity) and main.main_driver runs on built peptides with solvent. "
        "(2) C07_other_records_exact / C07_other_records_irrelevant: with the behaviour of the ~50 other record parsers "
        "explicit as an arbitrary oracle (raise -> name on errlist -> later records OF THAT NAME suppressed), for EVERY "
        "oracle the result equals that of the model that ignores them, and inserting any line that is neither a "
        "coordinate record nor TER/END/MODEL - parsable or not, known name or not - changes nothing: errlist "
        "suppression is an exact name match and never holds ATOM/HETATM/TER/END/MODEL. "
        "(3) Cut positions of a coordinate line, all lines: k >= 54 unchanged; 46..54 only z changes, silently "
        "(C07_cut_inside_z) or ValueError; 27..46 always ValueError; HETATM 17..26 ValueError; shorter: fallback or "
        "ValueError. (4) Kept: C07_ingest_complete/atom_fields/later_models_ignored/drop_water_iff under the old "
        "column guard G1, the four unconditional invariance theorems, regressions of F3..F8. "
        "(5) File layer: chunks_of_bytes = Python's universal-newline splitting of the decoded file; "
        "C07_line_endings_irrelevant: for ANY line bodies and ANY two assignments of LF / CRLF / lone CR to the lines "
        "(and an unterminated last line) ingest is the same - a CR-only file reads like the LF file. Tied by writing "
        "generated texts to real files in binary mode in every terminator style and reading them through "
        "io.get_molecule. C07_bom_irrelevant: a leading UTF-8 byte order mark is not text (d3864ae, was C07-F9). The "
        "side condition of the terminator theorem (no lone CR directly before an LF) holds for every file without "
        "EMPTY lines (C07_line_endings_side_condition); the empty-line corner is not folded into the theorem. "
        "NOT proved: G2 stays a guard (raw-column identity cannot express TER-segment chains; covered by the "
        "segment-aware oracle); that the real other-record parsers raise only KeyError/ValueError/IndexError is checked "
        "each run, not proved; text of exceptions; non-ASCII input."
    ),
    "level_note": (
        "Trusted: Coq kernel+vm_compute; the hand model (tied by exact comparison of exception class or "
        "per-residue atom identity lists on generated files, incl. a malformed stream); float() as an oracle "
        "(recogniser compared with float() each run); definition table (kind, altnames) regenerated from /repo; "
        "other record parsers assumed to raise only ValueError/IndexError (checked each run)."
    ),
    "design_ref": "DESIGN.md 4 C07",
}

THEOREMS = [
    "C07_ingest_complete",
    "C07_atom_fields",
    "C07_blank_lines_irrelevant",
    "C07_unknown_lines_irrelevant",
    "C07_crlf_and_trailing",
    "C07_trailing_columns",
    "C07_later_models_ignored",
    "C07_drop_water_iff",
    "C07_regressions",
    "C07_blank_chain_segments_refuted",
    "C07_alias_names_refuted",
    "C07_nonvacuous",
    "C07_loud_or_complete",
    "C07_atom_fields_all_lines",
    "C07_coordinate_line_cases",
    "C07_read_total",
    "C07_later_models_ignored_all_lines",
    "C07_drop_water_iff_all_lines",
    "C07_other_records_exact",
    "C07_other_records_irrelevant",
    "C07_all_lines_regressions",
    "C07_cut_before_z",
    "C07_cut_inside_z",
    "C07_cut_hetatm_short",
    "C07_nonvacuous_all_lines",
    "C07_line_endings_irrelevant",
    "C07_line_endings_nonvacuous",
    "C07_line_endings_side_condition",
    "C07_bom_irrelevant",
    "C07_bom_regression",
    "C07_drop_water_complete",
    "C07_drop_water_by_residue_name",
    "C07_drop_water_shared_serials",
]
ALLOWED_AXIOMS = []

SEP_CHARS = ",/:;|"

_STATE = {}


# --------------------------------------------------------------------------
# the repo side


def _quiet():
    logging.disable(logging.CRITICAL)


def repo():
    if "mods" not in _STATE:
        _quiet()
        from pdb2pqr import aa, biomolecule, na, pdb
        from pdb2pqr import io as pio
        from pdb2pqr import main as pmain

        _STATE["mods"] = (pdb, pio, pmain, biomolecule, aa, na)
        _STATE["definition"] = pio.get_definitions()
    return _STATE["mods"]


def definition():
    repo()
    return _STATE["definition"]


def deftab():
    """(name -> (kind, altnames)) for every name create_residue can look up
    (res_name is line[17:20].strip(): at most 3 characters). Fail closed."""
    pdb, pio, pmain, biomolecule, aa, na = repo()
    d = definition()
    tab = {}
    for k, ref in d.map.items():
        if len(k) > 3:
            continue
        cname = ref.name if ref.name != k else k
        cls = getattr(aa, cname, None) or getattr(na, cname, None)
        if cls is None:
            raise RuntimeError(f"definition name {k}: no class {cname} in aa/na (create_residue would raise AttributeError)")
        if issubclass(cls, aa.Amino):
            kind = "KAmino"
        elif issubclass(cls, na.Nucleic):
            kind = "KNucleic"
        elif cls is aa.WAT:
            kind = "KWater"
        else:
            raise RuntimeError(f"definition name {k}: class {cls.__name__} not modelled")
        tab[k] = (kind, dict(ref.altnames))
    return tab


def coq_deftab(tab):
    rows = []
    for k in sorted(tab):
        kind, alts = tab[k]
        al = core.coq_list([f"({core.coq_string(a)}, {core.coq_string(b)})" for a, b in alts.items()])
        rows.append(f"({core.coq_string(k)}, ({kind}, {al}))")
    return "Definition TAB : deftab := " + core.coq_list(rows) + ".\n"


HEADER0 = (
    "From Coq Require Import String List ZArith NArith.\n"
    "From PV Require Import Lib.Strings Lib.Decimal Model.PdbRead Model.Group.\n"
    "Import ListNotations.\nOpen Scope string_scope.\n"
)


def fnum(x):
    if isinstance(x, float) and math.isnan(x):
        return "nan"
    return repr(float(x))


def impl_ingest(text, dropw=False, via_file=None, file_bytes=None):
    """Real code: read_pdb ; [drop_water] ; Biomolecule.  Returns
    ('EXC', class name) or ('OK', [residue tuples])."""
    pdb, pio, pmain, biomolecule, aa, na = repo()
    try:
        if via_file is not None:
            if file_bytes is not None:
                with open(via_file, "wb") as fh:
                    fh.write(file_bytes)
            else:
                with open(via_file, "w", newline="") as fh:
                    fh.write(text)
            pdblist, _is_cif = pio.get_molecule(str(via_file))
        else:
            pdblist, _errlist = pdb.read_pdb(_io.StringIO(text))
        if dropw:
            pdblist = pmain.drop_water(pdblist)
        bm = biomolecule.Biomolecule(pdblist, definition())
    except Exception as e:  # noqa: BLE001
        return ("EXC", type(e).__name__, str(e)[:120])
    res = []
    for r in bm.residues:
        atoms = [
            (a.type, a.serial, a.name, a.alt_loc, a.res_name, a.chain_id, a.res_seq, a.ins_code, fnum(a.x), fnum(a.y), fnum(a.z))
            for a in r.atoms
        ]
        res.append(((r.name, r.chain_id, r.res_seq, r.ins_code), atoms))
    natoms = len(bm.atoms)
    if natoms != sum(len(a) for _, a in res):
        return ("EXC", "HarnessAtomsMismatch", "len(biomolecule.atoms) != sum over residues")
    return ("OK", res)


def impl_read(text):
    pdb, *_ = repo()
    try:
        pdblist, errlist = pdb.read_pdb(_io.StringIO(text))
    except Exception as e:  # noqa: BLE001
        return ("EXC", type(e).__name__)
    recs = []
    for o in pdblist:
        if isinstance(o, (pdb.ATOM, pdb.HETATM)):
            recs.append(
                ("HETATM" if isinstance(o, pdb.HETATM) else "ATOM", o.serial, o.name, o.alt_loc, o.res_name, o.chain_id, o.res_seq, o.ins_code, fnum(o.x), fnum(o.y), fnum(o.z))
            )
        elif isinstance(o, pdb.TER):
            recs.append("TER")
        elif isinstance(o, pdb.END):
            recs.append("END")
        elif isinstance(o, pdb.MODEL):
            recs.append("MODEL")
    return ("OK", recs, list(errlist))


# --------------------------------------------------------------------------
# the model side: parse show_result / show_read


def _atom_fields(s):
    f = s.split(",")
    if len(f) != 11:
        raise ValueError(f"model atom with {len(f)} fields: {s!r}")
    return (f[0], int(f[1]), f[2], f[3], f[4], f[5], int(f[6]), f[7], fnum(float(f[8])), fnum(float(f[9])), fnum(float(f[10])))


def parse_model_result(s):
    if s.startswith("EXC:"):
        return ("EXC", s[4:])
    assert s.startswith("OK:"), s[:50]
    body = s[3:]
    res = []
    if body:
        for r in body.split(";"):
            hd, _, at = r.partition(":")
            h = hd.split(",")
            res.append(((h[0], h[1], int(h[2]), h[3]), [_atom_fields(a) for a in at.split("/")]))
    return ("OK", res)


def parse_model_read(s):
    if s.startswith("EXC:"):
        return ("EXC", s[4:])
    body, _, errl = s[3:].rpartition("|")
    recs = []
    if body:
        for r in body.split(";"):
            recs.append(r if r in ("TER", "END", "MODEL") else _atom_fields(r))
    return ("OK", recs, errl.split(",") if errl else [])


def canon_impl(r):
    return r[:2] if r[0] == "EXC" else r


# --------------------------------------------------------------------------
# generation

KNOWN_RECORDS = None  # filled from the repo


def fmt_atom(rec, serial, name, alt, resn, ch, seq, ic, x, y, z, tail=True, el=None):
    nm = name if len(name) >= 4 else " " + name.ljust(3)
    s = f"{rec:<6}{serial:>5} {nm[:4]}{alt or ' '}{resn:>3} {ch or ' '}{seq:>4}{ic or ' '}   {x:>8}{y:>8}{z:>8}"
    if tail:
        s += f"{'1.00':>6}{'0.00':>6}          {(el or name.strip()[:1]):>2}"
    return s


RES_POOL = [
    ("ALA", ["N", "CA", "C", "O", "CB"], "ATOM"),
    ("GLY", ["N", "CA", "C", "O"], "ATOM"),
    ("SER", ["N", "CA", "C", "O", "CB", "OG"], "ATOM"),
    ("LYS", ["N", "CA", "C", "O", "CB", "CG", "CD", "CE", "NZ"], "ATOM"),
    ("HIS", ["N", "CA", "CB", "ND1", "HD1"], "ATOM"),
    ("HOH", ["O"], "HETATM"),
    ("HOH", ["O", "H1", "H2"], "HETATM"),
    ("WAT", ["O"], "HETATM"),
    ("WAT", ["OW", "HW"], "ATOM"),
    ("LIG", ["C1", "C2", "O1", "N1"], "HETATM"),
    ("ZN", ["ZN"], "HETATM"),
    ("NAP", ["PA", "O1A", "O2A"], "HETATM"),
    ("A", ["P", "OP1", "O5'", "C5'"], "ATOM"),
    ("DT", ["P", "O1P", "C5*", "C7"], "ATOM"),
    ("U", ["P", "OP1", "O2'"], "ATOM"),
    ("MSE", ["N", "CA", "SE"], "HETATM"),
    ("ALA", ["N", "H", "1HB", "2HB"], "ATOM"),
    # nucleotides with input hydrogens, both naming generations, terminal hydrogens
    ("DA", ["P", "O5'", "C5'", "H5'", "H5''", "H4'", "H2'", "H2''", "H8", "H61"], "ATOM"),
    ("DA", ["O5'", "H5T", "C5'", "O3'", "H3T"], "ATOM"),
    ("DT", ["O5'", "HO5'", "C5'", "H5'1", "H5'2", "O3'", "HO3'", "H71", "H3"], "ATOM"),
    ("A", ["P", "O5'", "HO5'", "O2'", "HO2'", "H2'", "H1'", "H8", "H2"], "ATOM"),
    ("U", ["O5'", "H5T", "O2'", "HO'2", "2HO'", "H5", "H6", "H3", "O3'", "H3T"], "ATOM"),
    ("G", ["P", "OP1", "O5'", "H1", "H21", "H22", "HO2'", "HO3'"], "ATOM"),
    ("DC", ["P", "O1P", "O5'", "H41", "H42", "H5", "H6", "H2'1", "H2'2"], "ATOM"),
    ("DG", ["O5'", "C5'", "1H5'", "2H5'", "H1", "H8", "HO3'"], "ATOM"),
    ("RC", ["P", "O5'", "H5T", "HO2'", "H41"], "ATOM"),
    # amino acids / waters with atoms the reference topology does not name
    ("ALA", ["N", "CA", "C", "O", "OXT", "HXT", "HB4", "H99"], "ATOM"),
    ("GLY", ["N", "H1", "H2", "H3", "CA", "HA2", "HA3", "XX1", "D1"], "ATOM"),
    ("HOH", ["O", "H1", "H2", "H3", "M", "EP1"], "HETATM"),
    ("WAT", ["OW", "HW", "H99", "LP1"], "ATOM"),
]
RES_POOL += [
    # solvent under other names: NOT waters for --drop-water
    ("TIP", ["OH2", "H1", "H2"], "HETATM"),
    ("SOL", ["OW", "HW1", "HW2"], "ATOM"),
    ("DOD", ["O", "D1", "D2"], "HETATM"),
    ("HOH", ["O"], "HETATM"),
    ("WAT", ["O", "H1", "H2"], "HETATM"),
]
# names no reference map contains: appended to residues of every kind at a modest rate
EXTRA_NAMES = ["H99", "HXT", "HO5'", "H5T", "HO3'", "H3T", "HO2'", "HZ9", "1HX", "HQ", "XX1", "D1", "Q", "M1", "OXX", "C99", "LP1"]


def coord(rng):
    return f"{rng.uniform(-99, 99):.3f}"


def real_fragments():
    """First residues of the repo's test PDB files (ATOM/HETATM lines)."""
    if "frags" in _STATE:
        return _STATE["frags"]
    frags = []
    d = core.REPO / "tests" / "data"
    for p in sorted(d.glob("*.pdb")):
        cur, key, got = [], None, 0
        try:
            lines = p.read_text(errors="replace").splitlines()
        except OSError:
            continue
        for l in lines:
            if l[:6].strip() in ("ATOM", "HETATM") and len(l) >= 54 and not any(c in l for c in SEP_CHARS):
                k = l[17:27]
                if k != key:
                    if cur:
                        frags.append(cur)
                        got += 1
                        if got >= 6:
                            cur = []
                            break
                    cur, key = [], k
                if len(cur) < 6:
                    cur.append(l.rstrip())
        if cur:
            frags.append(cur)
    _STATE["frags"] = frags
    return frags


OTHER_LINES = [
    "HEADER    OXIDOREDUCTASE                          08-MAR-97   1AFS",
    "REMARK   2 RESOLUTION. 2.60 ANGSTROMS.",
    "REMARK",
    "REMARK 2",
    "CRYST1   55.600   77.300   80.800  90.00  90.00  90.00 P 21 21 21    8",
    "CRYST1",
    "CONECT 5165 5166 5167",
    "CONECT",
    "ANISOU    1  N   MET A   1     4836   4722   4703    -23    -40     13       N",
    "ANISOU    1",
    "MASTER      344    0    3   30   18    0   13    6 5356    2  110   50",
    "SSBOND   1 CYS A    3    CYS A   40",
    "SSBOND",
    "LINK         ZN    ZN A 301                 NE2 HIS A  94",
    "SITE     1 AC1  3 HIS A  94  HIS A  96  HIS A 119",
    "SITE",
    "TURN",
    "HELIX    1   1 ALA A    2  GLY A    9  1",
    "SEQRES   1 A    2  ALA GLY",
    "NUMMDL    2",
    "HET    NAP  A 324      48",
    "SIGATM    1  N   HOH A   1       0.001   0.001   0.001  0.00  0.00           N",
    "SEQADV 1ABC HOH A    1  UNP  P00000              EXPRESSION TAG",
    "TITLE     A TITLE",
    "JRNL        AUTH   A.B.C",
]
# lines of OTHER record classes whose parsers raise ValueError (the record name goes
# on read_pdb's errlist) or IndexError; names that are prefixes of ATOM / HETATM included
BAD_OTHER_LINES = [
    "HET    SO4  A 101           SULFATE",
    "HET    NAP  A 324           NADP",
    "HET    SO4",
    "SSBOND   x CYS A    3    CYS A   40",
    "CONECT  abc  def",
    "CRYST1   55.600   xx.300   80.800  90.00  90.00  90.00 P 21 21 21    8",
    "SEQRES   x A    2  ALA GLY",
    "HELIX    x   1 ALA A    2  GLY A    9  1",
    "SHEET    x   A 2 ALA A   2  GLY A   9  0",
    "ANISOU    x  N   MET A   1     4836   4722   4703    -23    -40     13       N",
    "MASTER      xxx    0    3   30   18    0   13    6 5356    2  110   50",
    "LINK         ZN    ZN A 301                 NE2 HIS A  9x",
    "SITE     x AC1  3 HIS A  94",
    "SCALE1      0.017986  x.000000  0.000000        0.00000",
    "MODRES 1ABC MSE A   xx  MET  SELENOMETHIONINE",
    "FORMUL   x  SO4    O4 S 2-",
    "SIGATM    x  N   HOH A   1       0.001   0.001   0.001  0.00  0.00           N",
    "DBREF  1ABC A    x   100  UNP    P00000   ABC_HUMAN        1    100",
    "HYDBND      N   ALA A   x",
    "A",
    "AT",
    "ATO",
    "H",
    "HET",
    "HETA  1",
    "HETAT",
    "T",
    "E",
    "EN",
    "M",
    "MODE",
]
UNKNOWN_LINES = ["FOO", "ATOMS  BAD", "HETATMX   1", "REMARKS", "END1", "MODELS", "TERx", "atom      1  N   ALA A   1", "X", "ENDMDLx", "#comment", "12345 6789"]


def gen_structured(rng, k):
    """A mostly-valid small PDB text plus a description of how it was built."""
    feats = set()
    nres = rng.choice([1, 2, 2, 3, 3, 4, 5])
    blank_chain_mode = rng.random() < 0.18
    chains = [" "] if blank_chain_mode and rng.random() < 0.6 else rng.choice([["A"], ["A"], ["A", "B"], ["B", "A"], ["A", " "], ["a", "1", "Z"], ["Z", " ", "a"], [" ", "A"], ["A", " ", "B"]])
    if " " in chains:
        feats.add("blank-chain")
    serial = rng.choice([1, 1, 1, 9995, 99990, 5])
    residues = []  # each: list of atom lines
    frs = real_fragments()
    seq0 = rng.choice([1, 1, 10, -3, 0, 998, 9996, -12])
    if seq0 < 0:
        feats.add("negative-resseq")
    # residue numbering: increasing; one number with insertion codes (12, 12A, 12B ...);
    # or restarting in every chain (neighbouring residues differ in the chain only)
    numbering = rng.choice(["inc", "inc", "inc", "icode-run", "restart-per-chain"])
    if numbering != "inc":
        feats.add("numbering:" + numbering)
    per_chain = {}
    for i in range(nres):
        ch = chains[min(len(chains) - 1, i * len(chains) // nres)]
        seq_i, ic_forced = seq0 + i, None
        if numbering == "icode-run":
            seq_i, ic_forced = seq0, ["", "A", "B", "C", "D"][i]
        elif numbering == "restart-per-chain":
            seq_i = seq0 + per_chain.get(ch, 0)
            per_chain[ch] = per_chain.get(ch, 0) + 1
        if rng.random() < 0.25 and frs:
            fr = rng.choice(frs)[: rng.choice([1, 2, 3, 4])]
            lines = []
            for l in fr:
                lines.append(l[:6] + f"{serial:>5}" + l[11:21] + ch + f"{seq_i:>4}" + (l[26:] if ic_forced is None else (ic_forced or " ") + l[27:]))
                serial += 1
            feats.add("real-fragment")
            residues.append(lines)
            continue
        resn, names, rec = rng.choice(RES_POOL)
        if resn in ("HOH", "WAT"):
            feats.add("water")
        names = names[: rng.choice([1, 2, 3, len(names), len(names)])]
        if rng.random() < 0.25:
            # atoms the residue's reference topology does not name (hydrogen-like and heavy-like)
            extra = [n for n in rng.sample(EXTRA_NAMES, rng.choice([1, 1, 2])) if n not in names]
            pos = rng.randrange(len(names) + 1)
            names = names[:pos] + extra + names[pos:]
            feats.add("unmapped-atom-names")
        if resn in ("A", "C", "G", "U", "DA", "DC", "DG", "DT", "RA", "RC", "RG", "RU"):
            feats.add("nucleotide")
        ic = rng.choice(["", "", "", "A", "B"])
        if ic_forced is not None:
            ic = ic_forced
        if ic:
            feats.add("icode")
        lines = []
        altmode = rng.random()
        for n in names:
            alts = [""]
            if altmode < 0.25:
                alts = rng.choice([["A", "B"], ["A", "B", "C"], ["", "B"], ["A"], ["B", "A"]])
                feats.add("altloc")
            for al in alts:
                lines.append(fmt_atom(rec, serial, n, al, resn, ch.strip(), seq_i, ic, coord(rng), coord(rng), coord(rng), tail=rng.random() < 0.8))
                serial += 1
        if altmode > 0.9 and len(lines) > 1:
            # alt-loc block listed after the residue (conformer B after all of A)
            lines += [l[:6] + f"{serial + j:>5}" + l[11:16] + "B" + l[17:] for j, l in enumerate(lines[:2])]
            serial += 2
            feats.add("altloc-block")
        if serial >= 10000:
            feats.add("serial>=10000")
        residues.append(lines)
    # residue order mutations
    r = rng.random()
    if r < 0.06 and len(residues) > 2:
        # non-contiguous: split one residue around another
        i = rng.randrange(len(residues))
        if len(residues[i]) > 1:
            tailpart = residues[i][1:]
            residues[i] = residues[i][:1]
            residues.append(tailpart)
            feats.add("split-residue")
    elif r < 0.10 and len(residues) > 1:
        # duplicate a residue elsewhere (same identities listed twice, not adjacent)
        i = rng.randrange(len(residues) - 1)
        residues.append([l[:6] + f"{serial + j:>5}" + l[11:] for j, l in enumerate(residues[i])])
        serial += len(residues[i])
        feats.add("repeated-residue")
    body = []
    nter = 0
    for i, rl_ in enumerate(residues):
        body += rl_
        if i + 1 < len(residues) and rl_[0][21] != residues[i + 1][0][21] and rng.random() < 0.8 or rng.random() < 0.08:
            body.append(rng.choice(["TER", f"TER   {serial:>5}      {rl_[-1][17:27]}", "TER   "]))
            serial += 1
            nter += 1
    if nter:
        feats.add("TER")
    # models
    mm = rng.random()
    lines = []
    if mm < 0.55:
        lines = body
    else:
        nmod = rng.choice([1, 2, 2, 3])
        feats.add(f"models={nmod}")
        style = rng.choice(["std", "std", "std", "end-between", "no-endmdl", "atoms-before", "endmdl-only", "empty-first"])
        if style != "std":
            feats.add("model-style:" + style)
        for m in range(nmod):
            mb = body if m == 0 else [l[:30] + f"{coord(rng):>8}" + l[38:] if l[:6].strip() in ("ATOM", "HETATM") else l for l in body[: rng.choice([len(body), max(1, len(body) // 2)])]]
            if m > 0:
                # later models carry their own serial numbers (the oracle tells atoms apart by serial)
                mb = [l[:6] + f"{(int(l[6:11]) + 20000 * m) % 100000:>5}" + l[11:] if l[:6].strip() in ("ATOM", "HETATM") and l[6:11].strip().isdigit() else l for l in mb]
                if rng.random() < 0.5:
                    # ... and sometimes other residue numbers, so that a leaked later model shows
                    mb = [l[:22] + f"{int(l[22:26]) + 50:>4}" + l[26:] if l[:6].strip() in ("ATOM", "HETATM") and l[22:26].strip().lstrip("-").isdigit() and int(l[22:26]) < 9900 else l for l in mb]
                    feats.add("later-model-renumbered")
            if style == "atoms-before" and m == 0:
                lines += mb[:1]
                mb = mb[1:]
            if style != "endmdl-only":
                lines.append(f"MODEL     {m + 1:>4}")
            if not (style == "empty-first" and m == 0):
                lines += mb
            if style != "no-endmdl":
                lines.append("ENDMDL")
            if style == "end-between":
                lines.append("END")
    # bookkeeping END variants
    e = rng.random()
    if e < 0.45:
        lines.append("END")
    elif e < 0.55:
        lines += ["END", "END"]
        feats.add("END-repeated")
    elif e < 0.62:
        lines.insert(0, "END")
        feats.add("END-first")
    elif e < 0.70 and len(lines) > 2:
        lines.insert(rng.randrange(1, len(lines)), "END")
        feats.add("END-middle")
    # header / other / unknown lines
    for _ in range(rng.choice([0, 0, 1, 2, 3])):
        lines.insert(rng.randrange(len(lines) + 1), rng.choice(OTHER_LINES))
        feats.add("other-records")
    for _ in range(rng.choice([0, 0, 0, 1, 2])):
        lines.insert(rng.randrange(len(lines) + 1), rng.choice(UNKNOWN_LINES))
        feats.add("unknown-records")
    for _ in range(rng.choice([0, 0, 1, 1, 2])):
        # a record of another class that its parser rejects, in front of / among the coordinate records
        lines.insert(rng.choice([0, 0, rng.randrange(len(lines) + 1)]), rng.choice(BAD_OTHER_LINES))
        feats.add("failing-other-records")
    for _ in range(rng.choice([0, 0, 1, 1, 3])):
        lines.insert(rng.randrange(len(lines) + 1), rng.choice(["", "", "   ", "\t", " " * 80]))
        feats.add("blank-lines")
    # per-line column mutations
    out = []
    for l in lines:
        if l[:6].strip() in ("ATOM", "HETATM"):
            t = rng.random()
            if t < 0.10:
                l = l[:54]
                feats.add("short-54")
            elif t < 0.14:
                l = l[: rng.choice([55, 58, 60, 61, 66, 70])]
                feats.add("short-mid")
            elif t < 0.18:
                l = l + " " * rng.choice([1, 5, 30])
                feats.add("trailing-blanks")
        out.append(l)
    lines = out[:40]
    dropw = rng.random() < 0.3
    scheme = rng.choice([None, None, None, "restart-at-solvent", "constant", "wrap", "solvent-reuses"])
    if scheme:
        # serial numbers are not a key: solvent numbered from 1 again, constant serials,
        # serials wrapped past 99999, solvent reusing serials of other records
        feats.add("serial-scheme:" + scheme)
        dropw = rng.random() < 0.7
        idx = [i for i, l in enumerate(lines) if l[:6].strip() in ("ATOM", "HETATM") and len(l) >= 27 and l[6:11].strip().isdigit()]
        solv = {i for i in idx if lines[i][17:20].strip() in ("HOH", "WAT", "TIP", "SOL", "DOD")}
        others = [int(lines[i][6:11]) for i in idx if i not in solv]
        n1 = n2 = 0
        const = rng.choice([0, 1, 99999])
        w0 = rng.choice([99997, 99998, 99999])
        for k, i in enumerate(idx):
            l = lines[i]
            if scheme == "constant":
                new = const
            elif scheme == "wrap":
                new = (w0 + k) % 100000
            elif scheme == "restart-at-solvent":
                if i in solv:
                    n2 += 1
                    new = n2
                else:
                    n1 += 1
                    new = n1
            else:
                new = rng.choice(others) if (i in solv and others) else int(l[6:11])
            lines[i] = l[:6] + f"{new:>5}" + l[11:]
    if rng.random() < 0.2:
        # ANISOU / SIGATM records after waters and non-waters (same serial and residue fields)
        feats.add("ANISOU/SIGATM")
        out2 = []
        for l in lines:
            out2.append(l)
            if l[:6].strip() in ("ATOM", "HETATM") and len(l) >= 27 and rng.random() < 0.4:
                if rng.random() < 0.6:
                    out2.append("ANISOU" + l[6:27] + "    4836   4722   4703    -23    -40     13")
                else:
                    out2.append("SIGATM" + l[6:27] + "      0.001   0.001   0.001  0.00  0.00")
        lines = out2[:48]
    eol = "\n"
    if rng.random() < 0.25:
        eol = "\r\n"
        feats.add("CRLF")
    text = "".join(l + (eol if rng.random() < 0.97 else "\n") for l in lines)
    if rng.random() < 0.1 and text.endswith("\n"):
        text = text[: -len(eol)] if text.endswith(eol) else text[:-1]
        feats.add("no-final-eol")
    return {"text": text, "feats": sorted(feats), "stream": "structured", "dropw": dropw}


MAL_TOKENS = ["", "x", "1e3", "nan", "inf", "-inf", "1_0.0", ".5", "5.", "+1.5", "1.5e", "1__0", "_1", "1_", "--1", "0x10", "1,5".replace(",", "."), "1.2.3", "+", "-", ".", "e5", "1e+5", "1E-2", "Infinity", "NaN", "1 2"]
MAL_INTS = ["", "x", "+5", "-5", "1_0", "1__0", "_1", "1_", "007", "-0", "+-1", "1.0", "1e2", " 1 2", "0x1", "5-", "- 5", "٣"[:0]]


def put(l, a, b, val, right=True):
    w = b - a
    l = l.ljust(b)
    v = val.rjust(w) if right else val.ljust(w)
    return l[:a] + v[:w] + l[b:]


def gen_malformed(rng, k):
    base = gen_structured(rng, k)
    lines = base["text"].replace("\r\n", "\n").split("\n")
    if lines and lines[-1] == "":
        lines.pop()
    idx = [i for i, l in enumerate(lines) if l[:6].strip() in ("ATOM", "HETATM")]
    feats = set(base["feats"])
    kind = rng.choice(["int-serial", "int-resseq", "float", "short", "ws-format", "leading-blank", "model-serial", "long-resname", "tab", "bare", "recname", "many-ter", "fused", "cut-any", "cut-any", "lead-all", "fallback", "lowercase", "other-bad", "other-bad"])
    feats.add("malformed:" + kind)
    if not idx and kind not in ("model-serial", "many-ter", "lead-all", "fallback", "other-bad"):
        kind = "bare"
    i = rng.choice(idx) if idx else 0
    if kind == "int-serial":
        lines[i] = put(lines[i], 6, 11, rng.choice(MAL_INTS))
    elif kind == "int-resseq":
        lines[i] = put(lines[i], 22, 26, rng.choice(MAL_INTS), right=rng.random() < 0.7)
    elif kind == "float":
        a = rng.choice([30, 38, 46, 54, 60])
        lines[i] = put(lines[i], a, a + (8 if a < 54 else 6), rng.choice(MAL_TOKENS), right=rng.random() < 0.7)
    elif kind == "short":
        lines[i] = lines[i][: rng.choice([4, 6, 10, 11, 12, 16, 17, 20, 21, 22, 25, 26, 27, 30, 37, 38, 45, 46, 50, 53])]
    elif kind == "ws-format":
        l = lines[i]
        toks = [l[:6].strip(), l[6:11].strip()] + rng.choice([[l[12:16].strip()], [l[12:16].strip(), l[17:20].strip()], []]) + [l[22:26].strip()]
        nfl = rng.choice([5, 5, 5, 4, 6, 3])
        fl = [rng.choice(["1", "2", "3.5", "-4", "0"]) for _ in range(nfl)]
        style = rng.random()
        if style < 0.5:
            lines[i] = " ".join(toks + fl + rng.choice([[], ["N"], ["x"]]))
        else:
            lines[i] = l[:22].rstrip() + " " + " ".join([l[22:26].strip()] + fl)
        lines[i] = lines[i][: rng.choice([22, 24, 26, 26, 26, 30, 80])]
    elif kind == "leading-blank":
        lines[i] = rng.choice([" ", "  ", "\t", "      "]) + lines[i]
    elif kind == "model-serial":
        ms = [j for j, l in enumerate(lines) if l[:6].strip() == "MODEL"]
        new = rng.choice(["MODEL 1", "MODEL", "MODEL        x", "MODEL     +1", "MODEL     1_0", "MODEL        1  extra"])
        if ms:
            lines[rng.choice(ms)] = new
        else:
            lines.insert(rng.randrange(len(lines) + 1), new)
    elif kind == "long-resname":
        lines[i] = lines[i][:17] + "ABCD" + lines[i][21:]
    elif kind == "tab":
        j = rng.choice([11, 16, 20, 27, 29])
        lines[i] = lines[i][:j] + "\t" + lines[i][j + 1 :]
    elif kind == "bare":
        lines.insert(rng.randrange(len(lines) + 1), rng.choice(["ATOM", "HETATM", "ATOM  ", "HETATM    1", "ATOM      1  N", "HETATM    1  N   ALA A", "ATOM      1  N   ALA A   1", "ATOM 1 N A 1 1 2 3 4 5", "ATOM      1 N 1 1 2 3 4 5", "HETATM    1 N 1 1 2 3 4 5", "ATOM      2 CA 7 1.5 2.5 3 4 5"]))
    elif kind == "recname":
        lines[i] = rng.choice(["ATOM12", "ATOMX ", "HETATX", "hetatm", "Atom  "]) + lines[i][6:]
    elif kind == "many-ter":
        n = rng.choice([60, 61, 62, 63])
        lines = lines[:8]
        at = fmt_atom("ATOM", 1, "N", "", "ALA", "", 1, "", "1.000", "2.000", "3.000")
        lines = lines + ["TER"] * n + [at]
    elif kind == "cut-any":
        # every cut position of a coordinate line (0..80), sometimes padded with blanks again
        k = rng.randrange(0, 81)
        lines[i] = lines[i][:k] + rng.choice(["", "", " ", "    "])
        feats.add("cut@" + ("<=16" if k <= 16 else "17-26" if k <= 26 else "27-46" if k <= 46 else "47-53" if k <= 53 else ">=54"))
    elif kind == "lead-all":
        # leading blanks / tabs in front of every line (bookkeeping records included)
        lead = rng.choice([" ", "  ", "\t", "      ", " \t "])
        lines = [(lead if rng.random() < 0.8 else "") + l for l in lines]
    elif kind == "fallback":
        # lines short enough for pdb.read_atom's whitespace fallback (<= 26 / <= 16 columns)
        ser = rng.choice([7, 12, 300])
        cand = [
            f"ATOM  {ser:>5} 1 2 3 4 5",
            f"ATOM  {ser:>5} 1 2 3 4 5 6",
            f"ATOM  {ser:>5} 1 2 3 4 5   6",
            f"ATOM  {ser:>5} 9 1 2 3 4 x",
            f"ATOM  {ser:>5} N 1 2 3 4 5",
            f"ATOM  {ser:>5}  N   ALA A   1",
            f"ATOM  {ser:>5}  N   ALA A",
            f"ATOM  {ser:>5}",
            f"HETATM{ser:>5} 1 2 3",
            f"HETATM{ser:>5}",
            f"HETATM{ser:>5}  ZN   ZN A  55",
            f"ATOM  {ser:>5} 1 2 3 4 nan",
            f"ATOM  {ser:>5} 1e1 2 3 4 5",
        ]
        lines.insert(rng.randrange(len(lines) + 1), rng.choice(cand))
    elif kind == "lowercase":
        lines[i] = rng.choice([lines[i][:6].lower() + lines[i][6:], lines[i][:6].capitalize() + lines[i][6:]])
        j = rng.randrange(len(lines))
        if lines[j][:6].strip() in ("TER", "END", "MODEL", "ENDMDL"):
            lines[j] = lines[j].lower()
    elif kind == "other-bad":
        for _ in range(rng.choice([1, 2, 3])):
            lines.insert(rng.choice([0, rng.randrange(len(lines) + 1)]), rng.choice(BAD_OTHER_LINES))
    elif kind == "fused":
        lines[i] = lines[i][:6] + rng.choice(["12345", "99999", "1234A"]) + lines[i][11:]
    text = "".join(l + "\n" for l in lines)
    return {"text": text, "feats": sorted(feats), "stream": "malformed", "dropw": base["dropw"]}


def clean_text(text):
    """Keep the generated text inside what the Coq literal encoder and the
    result format can carry: 7-bit, no separator characters."""
    out = []
    for ch in text:
        o = ord(ch)
        if ch in SEP_CHARS or o > 126 or (o < 32 and ch not in "\n\r\t"):
            out.append("?")
        else:
            out.append(ch)
    return "".join(out)


# --------------------------------------------------------------------------
# correspondence


def model_terms(case):
    t = core.coq_string_bytes(case["text"])
    return [
        f"run_ingest TAB {'true' if case['dropw'] else 'false'} {t}",
        f"run_read {t}",
    ]


def compare_case(case, m_ing, m_read):
    """Returns None or a description of the disagreement."""
    text = case["text"]
    i_ing = impl_ingest(text, case["dropw"])
    i_read = impl_read(text)
    try:
        pm = parse_model_result(m_ing)
        pr = parse_model_read(m_read)
    except Exception as e:  # noqa: BLE001
        return f"unparseable model output ({e}): {m_ing[:200]!r}"
    if i_read[0] != pr[0] or i_read[1] != pr[1]:
        return f"read_pdb: impl={str(i_read)[:400]} model={str(pr)[:400]}"
    if i_read[0] == "OK":
        other = set(KNOWN_RECORDS) - {"ATOM", "HETATM", "TER", "END", "MODEL", "ENDMDL"}
        ie = [e for e in i_read[2] if e not in other]
        if ie != pr[2]:
            return f"read_pdb errlist: impl={ie} model={pr[2]}"
    if canon_impl(i_ing) != pm:
        return f"ingest: impl={str(i_ing)[:500]} model={str(pm)[:500]}"
    return None


# --------------------------------------------------------------------------
# independent oracle on the real code: fixed-column slicer


def raw_lines(text):
    return [l.rstrip("\r") for l in text.split("\n")]


LETTERS = "ABCDEFGHIJKLMNOPQRSTUVWXYZabcdefghijklmnopqrstuvwxyz0123456789"


def _isnum(w):
    try:
        float(w)
        return True
    except ValueError:
        return False


def rebuilt_line(s):
    """The fixed-column line pdb.read_atom documents, written independently of the
    model: among the words after the first, take the rightmost run of at least
    five consecutive numbers; its last five words are x y z occupancy tempfactor,
    the word in front of them is the residue number; columns 1-22 are kept.
    None when there is no such run."""
    words = s.split()
    j = len(words) - 1
    while j >= 1:
        if not _isnum(words[j]):
            j -= 1
            continue
        i = j
        while i - 1 >= 1 and _isnum(words[i - 1]):
            i -= 1
        if j - i + 1 >= 5:
            w = words[j - 5 : j + 1]
            return s[0:22] + w[0].rjust(4) + "   " + w[1].rjust(8) + w[2].rjust(8) + w[3].rjust(8) + w[4].rjust(6) + w[5].rjust(6)
        j = i - 1
    return None


def classify_line(l):
    """G1' semantics of ONE line, independent of the model.  Returns (rec, cls, d):
    rec = record name of columns 1-6 of the stripped line; for ATOM/HETATM cls is
    'ok' (d = fields read by fixed columns from the line itself, or from the
    rebuilt line when the line is too short for the column reader) or 'raise' (the
    reader fails with ValueError; also: too short and no five numbers)."""
    s = l.strip()
    rec = s[0:6].strip()
    if rec not in ("ATOM", "HETATM"):
        return rec, None, None
    het = rec == "HETATM"
    t = s
    if len(s) <= (16 if het else 26):
        # the column reader runs out of columns; before that it has converted the
        # serial, and (ATOM, >= 22 columns) the residue number
        try:
            int(s[6:11])
            if not het and len(s) >= 22:
                int(s[22:26])
        except ValueError:
            return rec, "raise", None
        t = rebuilt_line(s)
        if t is None:
            return rec, "raise", None  # no coordinates at all: the read fails (bd8c339)
    try:
        d = {
            "rec": rec,
            "serial": int(t[6:11]),
            "name": t[12:16].strip(),
            "alt": t[16:17].strip(),
            "resn": t[17:20].strip(),
            "chain": t[21:22].strip(),
            "seq": int(t[22:26]),
            "ic": t[26:27].strip(),
            "x": float(t[30:38]),
            "y": float(t[38:46]),
            "z": float(t[46:54]),
            "tok0": rec,
            "fallback": t is not s,
        }
    except ValueError:
        return rec, "raise", None
    return rec, "ok", d


WATER_NAMES = ("HOH", "WAT")  # what --drop-water removes; TIP, SOL, DOD ... are not waters


def slicer(text, dropw=False):
    """The independent read with G1' semantics (dropw: the coordinate records whose
    residue name is HOH or WAT are not there - by residue name only).  First model = lines in front of
    the second MODEL line (record names are those of the STRIPPED lines);
    ATOM/HETATM read by fixed columns (classify_line), one per (chain, resSeq,
    iCode, name), first listed.  A blank chain identifier of a non-water record in
    a file with TER records denotes the chain of its TER-delimited segment.
    Returns a dict: kept, first, later (lists of field dicts), raises (line numbers
    of coordinate lines on which the reader raises ValueError), drops (line numbers
    of first-model coordinate lines without coordinates), bad_models (MODEL lines
    whose columns 11-14 hold no integer)."""
    kept, seen, first, later, raises, drops, drops_later, bad_models = [], {}, [], [], [], [], [], []
    nmodel = 0
    lines = raw_lines(text)
    cls = [classify_line(l) for l in lines]
    nter = sum(1 for rec, _, _ in cls if rec == "TER")
    seg = 0
    for n, (l, (rec, c, d)) in enumerate(zip(lines, cls)):
        if rec == "TER":
            seg += 1
            continue
        if rec == "MODEL":
            nmodel += 1  # every MODEL line separates models, whatever follows the name (04a78e7)
            continue
        if c is None:
            continue
        if c == "raise":
            raises.append(n)
            continue
        if c == "drop":
            (drops if nmodel < 2 else drops_later).append(n)
            continue
        d["line"] = n
        # atoms are told apart by serial AND coordinates: serial numbers need not be unique
        d["uid"] = (d["serial"], fnum(d["x"]), fnum(d["y"]), fnum(d["z"]))
        if dropw and d["resn"] in WATER_NAMES:
            continue
        lettered = nter > 0 and d["chain"] == "" and d["resn"] not in ("HOH", "WAT")
        d["segchain"] = ("", seg) if lettered else d["chain"]
        d["codechain"] = (LETTERS[seg] if seg < len(LETTERS) else None) if lettered else d["chain"]
        if nmodel >= 2:
            later.append(d)
            continue
        first.append(d)
        key = (d["segchain"], d["seq"], d["ic"], d["name"])
        d["key"] = key
        if key in seen:
            continue
        seen[key] = d
        kept.append(d)
    return {"kept": kept, "first": first, "later": later, "raises": raises, "drops": drops, "drops_later": drops_later, "bad_models": bad_models}


def structure_events(text):
    """Sequence of relevant record kinds with line numbers (for diagnosis)."""
    ev = []
    for n, l in enumerate(raw_lines(text)):
        rec = l.strip()[0:6].strip()
        if rec in ("ATOM", "HETATM", "TER", "END", "MODEL", "ENDMDL"):
            ev.append((rec, n, l.strip()))
    return ev


def second_model_pending_empty(ev):
    """Is the pending residue of Biomolecule.__init__ empty when the second
    MODEL record arrives?  (pending: set by a coordinate record, emptied by END)"""
    nm, pending = 0, False
    for rec, _n, _l in ev:
        if rec in ("ATOM", "HETATM"):
            pending = True
        elif rec == "END":
            pending = False
        elif rec == "MODEL":
            nm += 1
            if nm >= 2:
                return not pending
    return False


# the mechanisms of the repaired findings C07-F3, F5, F6 (named so that a regression is reported under its own name)
KNOWN_CONDITIONS = ("MODEL-with-empty-pending-residue", "same-identity-in-separate-residue-runs", "blank-chain-lettering-collision")


def diagnose(text, kept, first, later, got_serials, bad_models=()):
    """Deterministic classification of a mismatch between the slicer and the
    real Biomolecule into a signature.  Every discrepant record is classified on
    its own; a discrepancy that none of the known mechanisms explains decides the
    signature (so a new defect is never reported under a known one)."""
    exp = {d["uid"] for d in kept}
    extra = got_serials - exp
    missing = exp - got_serials
    ev = structure_events(text)
    end_lines = [n for rec, n, _ in ev if rec == "END"]
    later_serials = {d["uid"] for d in later}
    byser = {d["uid"]: d for d in first}
    keptby = {d["key"]: d for d in kept}
    conds = []
    for s in sorted(extra):
        if s in later_serials:
            if bad_models:
                conds.append("MODEL-record-dropped-unparsable-serial")
            else:
                conds.append("MODEL-with-empty-pending-residue" if second_model_pending_empty(ev) else "later-model-ingested")
        elif s in byser:
            d = byser[s]
            k = keptby[d["key"]]
            rk = (d["segchain"], d["seq"], d["ic"])
            interrupted = any(k["line"] < e["line"] < d["line"] and (e["segchain"], e["seq"], e["ic"]) != rk for e in first) or any(
                k["line"] < n < d["line"] for n in end_lines
            )
            conds.append("same-identity-in-separate-residue-runs" if interrupted else "duplicate-identity-kept-within-one-run")
        else:
            conds.append("atom-from-nowhere")
    for s in sorted(missing):
        d = byser[s]
        ck = (d["codechain"], d["seq"], d["ic"], d["name"])
        collide = any(e["line"] < d["line"] and e["key"] != d["key"] and (e["codechain"], e["seq"], e["ic"], e["name"]) == ck for e in first)
        conds.append("blank-chain-lettering-collision" if collide else "record-lost")
    if not conds:
        return {"site": "Biomolecule.__init__", "condition": "field-mismatch"}
    unknown = [c for c in conds if c not in KNOWN_CONDITIONS]
    cond = unknown[0] if unknown else conds[0]
    site = "pdb.read_pdb/Biomolecule.__init__" if cond == "record-lost" else "Biomolecule.__init__"
    if cond == "MODEL-record-dropped-unparsable-serial":
        site = "pdb.MODEL/read_pdb"
    return {"site": site, "condition": cond}


def alias_ok(resn_tab, resn, raw, got):
    if raw == got:
        return True
    ent = resn_tab.get(resn) or resn_tab.get({"A": "RA", "C": "RC", "G": "RG", "U": "RU"}.get(resn, resn))
    return bool(ent) and ent[1].get(raw) == got


def oracle_case(ctx, case, tab, result=None, extra=None, dropw=False):
    """Independent check of one text on the real code. Returns True when the
    case was inside the oracle's domain."""
    text = case["text"]
    sl = slicer(text, dropw)
    kept, first, later = sl["kept"], sl["first"], sl["later"]
    uids = [d["uid"] for d in first + later]
    if len(set(uids)) != len(uids):
        ctx.count("oracle:outside-domain(two records with the same serial and coordinates)")
        return False
    if len({d["serial"] for d in first + later}) != len(uids):
        ctx.count("oracle:in-domain-with-shared-serials")
    ev = structure_events(text)
    # alias collisions (two names of one residue that are aliases of one atom) are outside
    byres = {}
    for d in first:
        ent = tab.get(d["resn"]) or tab.get({"A": "RA", "C": "RC", "G": "RG", "U": "RU"}.get(d["resn"], d["resn"]))
        cn = ent[1].get(d["name"], d["name"]) if ent else d["name"]
        byres.setdefault((d["chain"], d["seq"], d["ic"]), {}).setdefault(cn, set()).add(d["name"])
    if any(len(v) > 1 for m in byres.values() for v in m.values()):
        ctx.count("oracle:outside-domain(alias names of one atom listed together)")
        return False
    nter = sum(1 for rec, _, _ in ev if rec == "TER")
    if nter + len({d["chain"] for d in first + later if d["chain"]}) >= 62 and any(d["chain"] == "" for d in first + later):
        ctx.count("oracle:outside-domain(>61 TER with blank chains)")
        return False
    res = result if result is not None else impl_ingest(text, dropw)
    extra = dict(extra or {})
    if dropw:
        extra["dropw"] = True
    if res[0] == "EXC" and res[1] == "RuntimeError" and "Unable to find file" in res[2] and not kept and not sl["raises"]:
        ctx.count("oracle:file-without-records-RuntimeError")
        return True
    nontrivial = len(kept) >= 2 and len(case["feats"]) >= 1
    ctx.evaluated(("oracle", dropw, tuple(case["feats"]), len(kept), len(later) > 0, bool(sl["raises"]), bool(sl["drops"])), nontrivial or bool(sl["raises"]))
    if any(d.get("fallback") for d in first):
        ctx.count("oracle:record-read-through-whitespace-fallback")
    if sl["raises"]:
        # loud: the run must fail with ValueError
        ctx.count("oracle:expected-ValueError")
        if res[0] == "EXC" and res[1] == "ValueError":
            return True
        ctx.fail(
            {"site": "pdb.read_pdb", "condition": "unreadable-coordinate-line-accepted", "got": res[0] if res[0] == "OK" else res[1]},
            f"coordinate line {sl['raises'][0]} cannot be read (ValueError expected) but the run gave {str(res)[:200]}",
            {"text": text, "mode": "oracle", **extra},
        )
        return True
    if res[0] == "EXC" and res[1] == "ValueError" and (sl["drops"] or sl["drops_later"]):
        # a coordinate line without coordinates fails the run: loud, which the property accepts
        ctx.count("oracle:line-without-coordinates-fails-loudly")
        return True
    if res[0] == "EXC":
        sig = {"site": "read_pdb/Biomolecule.__init__", "condition": "exception-on-readable-file", "exception": res[1]}
        if res[1] in ("IndexError", "AttributeError") and any(rec == "END" for rec, _, _ in ev):
            sig = {"site": "Biomolecule.__init__", "condition": "END-with-empty-residue"}
        ctx.fail(sig, f"readable file raises {res[1]}: {res[2]}", {"text": text, "mode": "oracle", **extra})
        return True
    got = [a for _, atoms in res[1] for a in atoms]
    got_serials = [(a[1], a[8], a[9], a[10]) for a in got]
    exp = {d["uid"]: d for d in kept}
    ok = sorted(got_serials) == sorted(exp)
    fields_ok = True
    if ok:
        for a in got:
            d = exp[(a[1], a[8], a[9], a[10])]
            if (a[6], a[7], a[8], a[9], a[10]) != (d["seq"], d["ic"], fnum(d["x"]), fnum(d["y"]), fnum(d["z"])):
                fields_ok = False
            if not alias_ok(tab, a[4], d["name"], a[2]):
                fields_ok = False
            if d["segchain"] != d["chain"]:
                # a lettered blank chain: which letter is not the property's business
                if not (len(a[5]) == 1 and a[5].isalnum()):
                    fields_ok = False
            elif a[5] != d["chain"]:
                fields_ok = False
    if ok and fields_ok:
        if sl["drops"]:
            # every readable record is there, but a coordinate line without coordinates
            # was passed over without failing the run (C07-F7)
            ctx.fail(
                {"site": "pdb.read_pdb", "condition": "coordinate-line-without-coordinates-skipped"},
                f"ATOM/HETATM line {sl['drops'][0]} ({raw_lines(text)[sl['drops'][0]].strip()[:40]!r}) has no coordinates: it is skipped and the run succeeds",
                {"text": text, "mode": "oracle", **extra},
            )
        return True
    sig = diagnose(text, kept, first, later, set(got_serials), sl["bad_models"]) if not ok else {"site": "Biomolecule.__init__", "condition": "field-mismatch"}
    if dropw and not ok:
        # does the same text agree without the flag?  then the flag's filter is at fault
        plain = slicer(text, False)
        r0 = impl_ingest(text, False)
        if r0[0] == "OK" and sorted((a[1], a[8], a[9], a[10]) for _, at in r0[1] for a in at) == sorted(d["uid"] for d in plain["kept"]):
            lost = [u for u in exp if u not in set(got_serials)]
            sig = {"site": "main.drop_water", "condition": "non-water-record-dropped" if lost else "water-or-other-record-kept"}
    ctx.fail(
        sig,
        f"atoms of Biomolecule{' (--drop-water)' if dropw else ''} != independent column read: expected serials {[u[0] for u in sorted(exp)][:30]}, got {[u[0] for u in sorted(got_serials)][:30]}",
        {"text": text, "mode": "oracle", **extra},
    )
    return True


def same_atoms(r1, r2):
    """Compare two impl results as exception class or flat atom lists."""
    if r1[0] != r2[0]:
        return False
    if r1[0] == "EXC":
        return r1[1] == r2[1]
    return r1[1] == r2[1]


def strip_serial(res):
    return res


def metamorphic(ctx, case, rng):
    """Pairs on the real code only."""
    text = case["text"]
    base = impl_ingest(text, False)
    lines = text.split("\n")
    trail = lines[-1]
    lines = lines[:-1]
    if trail.strip():
        # no final newline: the last line is a line like the others (the variants
        # end it with a newline, which C07_crlf_and_trailing shows immaterial)
        lines.append(trail)
        trail = ""
    if not lines:
        return
    ev = structure_events(text)

    def fail(kind, sig, other_text, other):
        ctx.fail(sig, f"metamorphic pair '{kind}' differs: base={str(base)[:300]} variant={str(other)[:300]}", {"text": text, "variant": other_text, "mode": "meta:" + kind})

    # (a) blank lines inserted
    k = rng.randrange(len(lines) + 1)
    blank = rng.choice(["", "   ", "\t"])
    v = "\n".join(lines[:k] + [blank] + lines[k:] + [trail])
    o = impl_ingest(v, False)
    ctx.evaluated(("meta-blank", tuple(case["feats"]), k), base[0] == "OK" and len(base[1]) > 0)
    if not same_atoms(base, o):
        sig = {"site": "pdb.read_pdb", "condition": "blank-line-sensitive"}
        if base[0] == "OK" and o[0] == "OK":
            fb = [a for _, at in base[1] for a in at]
            fo = [a for _, at in o[1] for a in at]
            if len(fo) < len(fb):
                sig = {"site": "pdb.read_pdb", "condition": "blank-line-truncates"}
        fail("blank-line", sig, v, o)
    # (b) CRLF
    v = "\r\n".join(l.rstrip("\r") for l in lines) + "\r\n" + trail
    o = impl_ingest(v, False)
    ctx.evaluated(("meta-crlf", tuple(case["feats"])), base[0] == "OK" and len(base[1]) > 0)
    if not same_atoms(base, o):
        fail("CRLF", {"site": "pdb.read_pdb", "condition": "line-ending-sensitive"}, v, o)
    # (c) unknown record inserted
    k = rng.randrange(len(lines) + 1)
    v = "\n".join(lines[:k] + [rng.choice(["FOO  bar", "XYZ", "ATOMS"])] + lines[k:] + [trail])
    o = impl_ingest(v, False)
    ctx.evaluated(("meta-unknown", tuple(case["feats"]), k), base[0] == "OK" and len(base[1]) > 0)
    if not same_atoms(base, o):
        fail("unknown-record", {"site": "pdb.read_pdb", "condition": "unknown-record-sensitive"}, v, o)
    # (d) trailing columns cut after the coordinates / padded
    cut = []
    for l in lines:
        ls = l.lstrip()
        lead = len(l) - len(ls)  # read_pdb strips the line: columns count from the first non-blank
        if ls[:6].strip() in ("ATOM", "HETATM") and len(ls.rstrip()) >= 54 and not ls[53:54].isspace():
            cut.append(l.rstrip("\r")[: lead + rng.choice([54, 54, 60, 66])] + rng.choice(["", "  "]))
        else:
            cut.append(l)
    v = "\n".join(cut + [trail])
    o = impl_ingest(v, False)
    ctx.evaluated(("meta-trailing", tuple(case["feats"])), base[0] == "OK" and len(base[1]) > 0)
    if not same_atoms(base, o):
        fail("trailing-columns", {"site": "pdb.ATOM/HETATM", "condition": "trailing-column-sensitive"}, v, o)
    # (e) extra END at the end / TER re-statement (full vs bare form)
    v = text + ("" if text.endswith("\n") or not text else "\n") + "END\nEND\n"
    o = impl_ingest(v, False)
    ctx.evaluated(("meta-end", tuple(case["feats"])), base[0] == "OK" and len(base[1]) > 0)
    if not same_atoms(base, o):
        sig = {"site": "Biomolecule.__init__", "condition": "trailing-END-sensitive"}
        if o[0] == "EXC" and o[1] in ("IndexError", "AttributeError"):
            sig = {"site": "Biomolecule.__init__", "condition": "END-with-empty-residue"}
        elif base[0] == "OK" and o[0] == "OK" and second_model_pending_empty(ev):
            # a later model is being ingested (regression of C07-F3); its last residue is flushed only by END
            sig = {"site": "Biomolecule.__init__", "condition": "MODEL-with-empty-pending-residue"}
        fail("END-END", sig, v, o)
    v = "\n".join(("TER" if l.strip()[:6].strip() == "TER" else l) for l in lines) + "\n" + trail
    o = impl_ingest(v, False)
    if not same_atoms(base, o):
        fail("TER-form", {"site": "Biomolecule.__init__", "condition": "TER-form-sensitive"}, v, o)
    # (f) --drop-water  ==  water lines deleted beforehand ; and waters kept without the flag
    wl = []
    for l in lines:
        _rec, c, d = classify_line(l.rstrip("\r"))
        if c == "ok" and d["resn"] in ("HOH", "WAT"):
            wl.append(l)
    if wl:
        v = "\n".join([l for l in lines if l not in wl] + [trail])
        o1 = impl_ingest(text, True)
        o2 = impl_ingest(v, False)
        ctx.evaluated(("meta-dropwater", tuple(case["feats"]), len(wl)), True)
        if not same_atoms(o1, o2):
            sig = {"site": "main.drop_water", "condition": "other"}
            if o1[0] == "OK":
                left = [a for _, at in o1[1] for a in at if a[4] in ("HOH", "WAT")]
                fused = [l for l in wl if l.split()[0] not in ("ATOM", "HETATM")]
                o3 = impl_ingest("\n".join([l for l in lines if l not in wl or l in fused] + [trail]), False)
                if fused and same_atoms(o1, o3):
                    # exactly the waters whose record name is fused to the serial survive (regression of C07-F4)
                    sig = {"site": "main.drop_water", "condition": "record_type-fused-with-serial"}
                elif left:
                    sig = {"site": "main.drop_water", "condition": "water-survives"}
                else:
                    sig = {"site": "main.drop_water", "condition": "non-water-removed-or-regrouped"}
            fail("drop-water", sig, v, o1)


# --------------------------------------------------------------------------
# ties that need no model


def tie_tables(ctx):
    """Regenerated facts the model hard-codes."""
    pdb, pio, pmain, biomolecule, aa, na = repo()
    ok = True
    global KNOWN_RECORDS
    KNOWN_RECORDS = sorted(pdb.LINE_PARSERS)
    src = (core.COQ / "Model" / "PdbRead.v").read_text()
    m = re.search(r"Definition known_records : list string :=\s*\[(.*?)\]\.", src, re.S)
    model_known = sorted(re.findall(r'"([A-Z0-9a-z]+)"', m.group(1))) if m else []
    if model_known != KNOWN_RECORDS:
        ctx.broke("correspondence-broken", "Model.PdbRead.known_records vs pdb.LINE_PARSERS", f"model={model_known} repo={KNOWN_RECORDS}")
        ok = False
    if list(aa.WAT.water_residue_names) != ["HOH", "WAT"]:
        ctx.broke("correspondence-broken", "Model.Group.water_names vs aa.WAT.water_residue_names", str(aa.WAT.water_residue_names))
        ok = False
    from pdb2pqr.config import RNA_MAPPING

    if dict(RNA_MAPPING) != {"A": "RA", "C": "RC", "G": "RG", "U": "RU"}:
        ctx.broke("correspondence-broken", "Model.Group.rna_map vs config.RNA_MAPPING", str(RNA_MAPPING))
        ok = False
    # other record parsers: only ValueError / IndexError may leave them
    bad = []
    for name, klass in pdb.LINE_PARSERS.items():
        if name in ("ATOM", "HETATM"):
            continue
        samples = [l for l in OTHER_LINES if l[:6].strip() == name] + [name, name.ljust(6) + "x" * 74, name.ljust(6) + " 1 2 3 4 5 6 7 8 9 10 11 12 13 14 15 16 17 18 19 20 21 22 23 24 25 26 27"]
        for b in samples:
            for n in range(len(name), len(b) + 1):
                v = b[:n].strip()
                if v[:6].strip() != name:
                    continue
                try:
                    klass(v)
                except (ValueError, IndexError):
                    pass
                except Exception as e:  # noqa: BLE001
                    bad.append((name, v, type(e).__name__))
    ctx.count("tie:other-record-parser-lines", 1)
    if bad:
        ctx.broke("correspondence-broken", "other record parsers raise only ValueError/IndexError", str(bad[:5]))
        ok = False
    return ok


def tie_numbers(ctx):
    """py_int / py_float_ok vs int() / float()."""
    toks = sorted(set(MAL_TOKENS + MAL_INTS + ["1", "-1.5", " 2 ", "12345", "-999", "1e-3", "1.", "+.5e+3", "INF", "iNfInItY", "nane", "in", "1e", "1e+", "e", "1_000.5_5e1_0", "1._5", "1_.5", "._5", "5_", "00", "-0.0", "+", "1 ", "\t3", "1+", "1-2", "..", "1.e3", "1.e", ".e3", "infinit", "-nan", "+inf", "9" * 30]))
    toks = [t for t in toks if all(ord(c) < 127 for c in t)]
    exp_f, exp_i = "", []
    for t in toks:
        try:
            float(t)
            exp_f += "1"
        except ValueError:
            exp_f += "0"
        try:
            exp_i.append(str(int(t)))
        except ValueError:
            exp_i.append("E")
    lst = core.coq_list([core.coq_string_bytes(t) for t in toks])
    try:
        r = core.run_cases("C07num", HEADER0, [f"show_float_ok {lst}", f"show_int {lst}"])
    except core.CoqEvalError as e:
        ctx.broke("correspondence-broken", "model evaluation failed (py_int/py_float_ok)", str(e))
        return False
    ok = True
    ctx.cov["correspondence_cases"] += 2 * len(toks)
    if r[0] != exp_f:
        bad = [t for t, a, b in zip(toks, r[0], exp_f) if a != b]
        ctx.broke("correspondence-broken", "Model.PdbRead.py_float_ok vs float()", f"differs on {bad[:10]}")
        ctx.cov["correspondence_disagreements"] += len(bad)
        ok = False
    if r[1].split(",") != exp_i:
        bad = [t for t, a, b in zip(toks, r[1].split(","), exp_i) if a != b]
        ctx.broke("correspondence-broken", "Model.PdbRead.py_int vs int()", f"differs on {bad[:10]}")
        ctx.cov["correspondence_disagreements"] += len(bad)
        ok = False
    return ok


# --------------------------------------------------------------------------


def drop_water_level(ctx, case):
    """main.drop_water on the parsed record list: the coordinate records it keeps must
    be exactly - the same objects, in order - those whose residue name is not HOH/WAT."""
    pdb, pio, pmain, biomolecule, aa, na = repo()
    try:
        pdblist, _ = pdb.read_pdb(_io.StringIO(case["text"]))
    except Exception:  # noqa: BLE001 - a loud read is the oracle's business
        return
    coord = [o for o in pdblist if isinstance(o, (pdb.ATOM, pdb.HETATM))]
    if not coord:
        return
    try:
        new = pmain.drop_water(list(pdblist))
    except Exception as e:  # noqa: BLE001
        ctx.fail({"site": "main.drop_water", "condition": "raises", "exception": type(e).__name__}, f"drop_water raises {type(e).__name__}: {e}", {"text": case["text"], "dropw": True, "mode": "oracle"})
        return
    want = [o for o in coord if o.res_name not in WATER_NAMES]
    have = [o for o in new if isinstance(o, (pdb.ATOM, pdb.HETATM))]
    ctx.evaluated(("drop_water-level", tuple(case["feats"]), len(coord) - len(want)), len(want) < len(coord))
    if len(want) != len(have) or any(a is not b for a, b in zip(want, have)):
        lost = [o.serial for o in want if all(o is not h for h in have)]
        ctx.fail(
            {"site": "main.drop_water", "condition": "non-water-record-dropped" if lost else "water-or-other-record-kept"},
            f"drop_water keeps {len(have)} coordinate records, the non-water ones are {len(want)}; lost serials {lost[:10]}",
            {"text": case["text"], "dropw": True, "mode": "oracle"},
        )


def main_driver_runs(ctx, rng):
    """The real entry (main.main_driver) on built peptides with solvent whose serial
    numbers collide with the peptide's, with and without --drop-water."""
    try:
        from harness import builder
        import numpy as np
    except Exception as e:  # noqa: BLE001
        ctx.count("main_driver:builder-unavailable:" + type(e).__name__)
        return
    d = ctx.scratch_dir()
    nrng = np.random.default_rng(rng.randrange(1 << 30))
    for j, (seq, scheme) in enumerate([(["ALA", "GLY", "SER"], "restart"), (["GLY", "ALA"], "constant"), (["SER", "ALA", "GLY"], "unique")]):
        pep = builder.build_peptide(seq, chain="A", start=1)
        wat = builder.waters(4, around=pep, chain="A", start=101, rng=nrng, resname=rng.choice(["HOH", "WAT"]))
        text = builder.to_pdb(list(pep) + list(wat), hetatm_for=("HOH", "WAT"))
        lines = text.split("\n")
        n1 = n2 = 0
        for i, l in enumerate(lines):
            if l[:6].strip() in ("ATOM", "HETATM"):
                w = l[17:20].strip() in WATER_NAMES
                if scheme == "restart":
                    n1, n2 = (n1, n2 + 1) if w else (n1 + 1, n2)
                    lines[i] = l[:6] + f"{(n2 if w else n1):>5}" + l[11:]
                elif scheme == "constant":
                    lines[i] = l[:6] + f"{1:>5}" + l[11:]
        text = "\n".join(lines)
        heavy = sorted((l[17:20].strip(), int(l[22:26]), l[12:16].strip()) for l in lines if l[:6].strip() == "ATOM" and not l[12:16].strip().startswith("H"))
        for flag in (True, False):
            r = builder.run_pdb2pqr(text, ["--ff=AMBER"] + (["--drop-water"] if flag else []), workdir=d / f"md{j}{int(flag)}")
            ctx.evaluated(("main_driver", scheme, flag), True)
            ctx.count("main_driver:" + scheme + (":drop-water" if flag else ""))
            case = {"text": text, "dropw": flag, "mode": "main_driver", "args": ["--ff=AMBER"] + (["--drop-water"] if flag else [])}
            if r["exc"] is not None or not r["pqr_text"]:
                ctx.fail({"site": "main.main_driver", "condition": "run-fails", "drop_water": flag, "exception": type(r["exc"]).__name__}, f"main_driver fails on a built peptide with solvent ({scheme} serials): {r['exc']}", case)
                continue
            out = builder.parse_pqr(r["pqr_text"])
            names = {(a["resname"][-3:], int(re.sub(r"[^0-9-]", "", str(a["resseq"])) or 0), a["name"]) for a in out} if out and "resname" in out[0] else None
            if names is None:
                keys = list(out[0].keys()) if out else []
                ctx.count("main_driver:unexpected-parse_pqr-keys:" + ",".join(keys)[:60])
                continue
            bm = r["result"][2] if r["result"] else None
            lost = [h for h in heavy if (h[0], h[1], h[2]) not in names and not any(n[1] == h[1] and n[2] == h[2] for n in names)]
            waters_out = [n for n in names if n[0] in ("HOH", "WAT")]
            if lost:
                ctx.fail({"site": "main.main_driver", "condition": "input-heavy-atom-missing-from-output", "drop_water": flag}, f"heavy atoms of the input peptide missing from the PQR ({scheme} serials): {lost[:6]}", case)
            elif flag and waters_out:
                ctx.fail({"site": "main.main_driver", "condition": "water-in-output-with-drop-water"}, f"waters in the PQR although --drop-water: {waters_out[:4]}", case)
            elif not flag and not waters_out:
                ctx.fail({"site": "main.main_driver", "condition": "water-missing-without-drop-water"}, "no water in the PQR without --drop-water", case)
            elif bm is not None and flag:
                # rebuilt atoms hide a dropped record in the PQR: the input coordinates must survive too
                have = {(a.res_seq, a.name): (round(a.x, 3), round(a.y, 3), round(a.z, 3)) for a in bm.atoms}
                moved = [l[12:16].strip() + str(int(l[22:26])) for l in lines if l[:6].strip() == "ATOM" and not l[12:16].strip().startswith("H") and l[12:16].strip() not in ("OXT",) and have.get((int(l[22:26]), l[12:16].strip())) != (round(float(l[30:38]), 3), round(float(l[38:46]), 3), round(float(l[46:54]), 3))]
                if moved:
                    ctx.fail({"site": "main.main_driver", "condition": "input-heavy-atom-rebuilt-under-drop-water"}, f"heavy atoms of the input do not keep their coordinates under --drop-water ({scheme} serials): {moved[:6]}", case)


UNIV = re.compile(r"\r\n|\r|\n")
BOM = b"\xef\xbb\xbf"
FILE_STYLES = ["LF", "CRLF", "CR", "mixed", "CR-no-final-eol", "BOM"]


def universal_lines(text):
    """Python's universal-newline notion of a line: LF, CRLF and a lone CR all end one."""
    return UNIV.split(text)


def file_bytes_of(bodies, style, rng):
    eols = {"LF": "\n", "CRLF": "\r\n", "CR": "\r"}
    if style in eols:
        t = "".join(b + eols[style] for b in bodies)
    elif style == "mixed":
        t = "".join(b + rng.choice(["\n", "\r\n", "\r", "\r"]) for b in bodies)
    elif style == "CR-no-final-eol":
        t = "\r".join(bodies)
    else:  # BOM
        t = "".join(b + "\n" for b in bodies)
    data = t.encode("utf-8")
    return (BOM + data) if style == "BOM" else data


def file_layer(ctx, cases, tab, header, rng):
    """The real entry path: bytes on disk -> io.get_molecule(path) -> [drop_water] ->
    Biomolecule, for every line-terminator style; compared with (a) the run on the LF
    text, (b) the independent column read of the universal-newline lines of the same
    bytes, (c) the model on chunks_of_bytes."""
    d = ctx.scratch_dir()
    terms, expect = [], []
    for j, c in enumerate(cases):
        bodies = universal_lines(c["text"])
        if bodies and bodies[-1] == "":
            bodies.pop()
        if not bodies:
            continue
        lf_text = "".join(b + "\n" for b in bodies)
        base = impl_ingest(lf_text, c["dropw"])
        styles = ["CR", rng.choice(["mixed", "CR-no-final-eol"]), rng.choice(["LF", "CRLF", "BOM", "mixed"])]
        for style in styles:
            data = file_bytes_of(bodies, style, rng)
            p = d / f"file{j}_{style}.pdb"
            r = impl_ingest(None, c["dropw"], via_file=p, file_bytes=data)
            ctx.count("file:" + style)
            ctx.evaluated(("file", style, tuple(c["feats"])), base[0] == "OK" and len(base[1]) > 0)
            fcase = {"text": lf_text, "file_latin1": data.decode("latin1"), "dropw": c["dropw"], "style": style}
            empty_ok = r[0] == "EXC" and r[1] == "RuntimeError" and "Unable to find file" in r[2] and base[0] == "OK" and not base[1]
            if style == "BOM":
                r0 = impl_ingest(None, c["dropw"], via_file=p, file_bytes=data[len(BOM):])
                if not same_atoms(r, r0):
                    ctx.fail(
                        {"site": "io.get_pdb_file", "condition": "utf8-bom-hides-first-record"},
                        f"a UTF-8 byte order mark changes what is read: with BOM {str(r)[:160]} without {str(r0)[:160]}",
                        {**fcase, "mode": "file-bom"},
                    )
            elif not same_atoms(base, r) and not empty_ok:
                ctx.fail(
                    {"site": "io.get_pdb_file/get_molecule", "condition": "line-terminator-sensitive", "style": style},
                    f"file with {style} line terminators != the same lines with LF: LF {str(base)[:160]} file {str(r)[:200]}",
                    {**fcase, "mode": "file-meta"},
                )
            if style != "BOM" and not c["dropw"]:
                oracle_case(ctx, {"text": lf_text, "feats": list(c["feats"]) + ["file:" + style]}, tab, result=r, extra={"file_latin1": fcase["file_latin1"], "mode": "file-oracle"})
            if len(terms) < 90:
                terms.append(f"run_ingest_file TAB {'true' if c['dropw'] else 'false'} {core.coq_string_bytes(data.decode('latin1'))}")
                expect.append((r, fcase))
    if not terms:
        return True
    try:
        res = core.run_cases("C07file", header, terms, chunk=45)
    except core.CoqEvalError as e:
        ctx.broke("correspondence-broken", "model evaluation failed (file layer)", str(e))
        return False
    ok = True
    for m, (r, fcase) in zip(res, expect):
        ctx.cov["correspondence_cases"] += 1
        pm = parse_model_result(m)
        if r[0] == "EXC" and r[1] == "RuntimeError" and "Unable to find file" in r[2] and pm == ("OK", []):
            continue  # get_molecule refuses a file without any record; the model has no records either
        if canon_impl(r) != pm:
            ctx.cov["correspondence_disagreements"] += 1
            ok = False
            if len([b for b in ctx.broken if b["kind"] == "correspondence-broken"]) < 4:
                ctx.broke(
                    "correspondence-broken",
                    "Model.Group.ingest on chunks_of_bytes vs io.get_molecule(file) + Biomolecule.__init__",
                    f"style {fcase['style']}: impl={str(r)[:300]} model={str(pm)[:300]}",
                    {**fcase, "mode": "file-correspondence"},
                )
    return ok


def load_corpus():
    d = core.CORPUS / "C07"
    out = []
    if d.exists():
        for p in sorted(d.glob("*.json")):
            c = json.loads(p.read_text())
            c.setdefault("feats", ["corpus:" + p.stem])
            c.setdefault("stream", "corpus")
            c.setdefault("dropw", False)
            out.append(c)
    return out


def run(ctx):
    _quiet()
    ctx.cov["rule"] = (
        "PDB texts <= 40 lines built from residues of tests/data/*.pdb and synthetic residues (amino, nucleic, water, "
        "ligand, alias names), then mutated: chains (blank/repeated/interleaved), negative and 4-digit resSeq, iCodes, "
        "altlocs (inline and as trailing block), split/repeated residues, TER forms, END (none/1/2/first/middle), "
        "1-3 models in 8 layouts, other/unknown records, blank lines, CRLF, short and padded coordinate lines; a "
        "malformed stream (18 kinds: bad int/float text, every cut position 0..80 of a coordinate line, whitespace "
        "format and lines that reach pdb.read_atom's fallback, leading blanks/tabs on one or on all lines, lower-case "
        "record names, fused fields, MODEL serial forms, tabs, >61 TER ...). Oracle: ALL texts with unique serials - an "
        "independent slicer with G1' semantics (stripped lines, column read or rebuilt line, raise/drop classes) gives "
        "either 'ValueError expected' or the expected atoms; non-trivial = "
        ">= 2 expected atoms and >= 1 feature; distinct by (feature set, #expected atoms, later model present) and by "
        "metamorphic kind x feature set."
    )
    ok = core.proof_stage(ctx, "C07", THEOREMS, ALLOWED_AXIOMS)
    try:
        tab = deftab()
    except Exception as e:  # noqa: BLE001
        ctx.broke("generator-broken", "definition table (kind, altnames) from /repo", str(e))
        tab = {}
        ok = False
    ok = tie_tables(ctx) and ok
    ok = tie_numbers(ctx) and ok
    header = HEADER0 + coq_deftab(tab)

    n_struct = 3000 if ctx.thorough else 300
    n_mal = 1500 if ctx.thorough else 150
    cases = load_corpus()
    ncorpus = len(cases)
    cases += [gen_structured(ctx.rng, k) for k in range(n_struct)]
    cases += [gen_malformed(ctx.rng, k) for k in range(n_mal)]
    for c in cases:
        c["text"] = clean_text(c["text"])
        for f in c["feats"]:
            ctx.count(f)
        ctx.count("stream:" + c["stream"])

    corr_broken = False
    # the Coq witnesses / regression examples (Proofs/C07Witness.v) replayed on the real code:
    # the serial lists the theorems state must be what /repo produces on the same text
    for c in cases[:ncorpus]:
        if "expect_serials" in c:
            r = impl_ingest(c["text"], c["dropw"])
            got = [a[1] for _, at in r[1] for a in at] if r[0] == "OK" else [r[1]]
            ctx.cov["correspondence_cases"] += 1
            if got != c["expect_serials"]:
                ctx.cov["correspondence_disagreements"] += 1
                corr_broken = True
                ctx.broke(
                    "correspondence-broken",
                    "Coq witness/regression example (Proofs/C07Witness.v) vs pdb.read_pdb + Biomolecule.__init__: " + c["feats"][0],
                    f"theorem states serials {c['expect_serials']}, /repo gives {got}",
                    {"text": c["text"], "dropw": c["dropw"], "feats": c["feats"], "mode": "correspondence"},
                )
    terms = []
    for c in cases:
        terms += model_terms(c)
    try:
        res = core.run_cases("C07", header, terms, chunk=80)
    except core.CoqEvalError as e:
        res = None
        corr_broken = True
        ctx.broke("correspondence-broken", "model evaluation failed", str(e))
    bad_cases = []
    if res is not None:
        for i, c in enumerate(cases):
            ctx.cov["correspondence_cases"] += 1
            why = compare_case(c, res[2 * i], res[2 * i + 1])
            if why:
                ctx.cov["correspondence_disagreements"] += 1
                corr_broken = True
                bad_cases.append(c)
                if len([b for b in ctx.broken if b["kind"] == "correspondence-broken"]) < 4:
                    ctx.broke(
                        "correspondence-broken",
                        "Model.Group.ingest (PdbRead.read_pdb + Group.group/drop_water) vs pdb.read_pdb + main.drop_water + Biomolecule.__init__",
                        why,
                        {"text": c["text"], "dropw": c["dropw"], "feats": c["feats"], "mode": "correspondence"},
                    )

    # ---- search with the independent oracle --------------------------------
    search = list(cases)
    if not ok or corr_broken:
        extra = [gen_structured(ctx.rng, k) for k in range(6000)]
        for c in extra:
            c["text"] = clean_text(c["text"])
        search = bad_cases + search + extra
    indom = 0
    for c in search:
        if oracle_case(ctx, c, tab):
            indom += 1
        if c["dropw"] or "serial-scheme" in " ".join(c["feats"]):
            oracle_case(ctx, c, tab, dropw=True)
            drop_water_level(ctx, c)
        if c["stream"] != "malformed":
            metamorphic(ctx, c, ctx.rng)
    ctx.count("oracle:in-domain", indom)
    main_driver_runs(ctx, ctx.rng)
    # the file layer: bytes on disk, every terminator style, through io.get_molecule
    fl_cases = cases[:ncorpus] + [c for c in cases if c["stream"] == "structured"][: (200 if ctx.thorough else 40)] + [c for c in cases if c["stream"] == "malformed"][: (60 if ctx.thorough else 12)]
    if not file_layer(ctx, fl_cases, tab, header, ctx.rng):
        corr_broken = True
    if cases:
        c0 = cases[min(len(cases) - 1, ncorpus + 3)]
        ctx.sample({"text": c0["text"][:1500], "feats": c0["feats"], "impl": str(impl_ingest(c0["text"], c0["dropw"]))[:600]})
        cm = [c for c in cases if c["stream"] == "malformed"]
        if cm:
            ctx.sample({"text": cm[0]["text"][:800], "feats": cm[0]["feats"], "impl": str(impl_ingest(cm[0]["text"], cm[0]["dropw"]))[:300]})
    ctx.sample({"obligation": "C07_ingest_complete (guard = G1 + design guards G2, G5): guard lines = true -> exists rs, ingest fok tab false lines = Done rs /\\ Permutation (map a_src (all_atoms rs)) (map strip (cols_read lines))"})
    ctx.trusted += [
        "oracle: float() success as a predicate (Section variable fok in the theorems; the executable instance py_float_ok is compared with float() on every run)",
        "generated from /repo on every run: definition table (residue name -> class kind, altnames), LINE_PARSERS keys, water names, RNA_MAPPING",
        "modelled, not verified: pdb.read_pdb, pdb.ATOM/HETATM/MODEL/TER/END, pdb.read_atom, Biomolecule.__init__, create_residue, Residue/Amino/Nucleic/WAT.__init__ de-duplication, main.drop_water (hand models Model/PdbRead.v, Model/Group.v, tied by exact comparison on generated files)",
        "not modelled: parsers of the other record classes (checked to raise only ValueError/IndexError), io.get_molecule's open()/emptiness check (exercised on files by the harness), the optional trailing fields of ATOM/HETATM",
    ]
    ctx.assumptions += [
        "PDB text is 7-bit ASCII; str.strip/split whitespace = ASCII whitespace",
        "lines are the readline() chunks of the text (split after each \\n)",
    ]


def replay(ctx, data):
    _quiet()
    case = data.get("case") or (data.get("broken") or [{}])[0].get("case")
    if not case:
        print("replay: no case in file")
        return 1
    tab = deftab()
    global KNOWN_RECORDS
    KNOWN_RECORDS = sorted(repo()[0].LINE_PARSERS)
    mode = case.get("mode", "oracle")
    c = {"text": case["text"], "feats": case.get("feats", ["replay"]), "stream": "replay", "dropw": case.get("dropw", False)}
    if mode == "correspondence":
        header = HEADER0 + coq_deftab(tab)
        r = core.run_cases("C07replay", header, model_terms(c), chunk=10)
        why = compare_case(c, r[0], r[1])
        print("replay:", "FAILS: " + why if why else "passes")
        return 1 if why else 0
    before = len(ctx.failures) + sum(ctx.known_hits.values())
    if mode.startswith("file-") and "file_latin1" in case:
        import random

        c["dropw"] = case.get("dropw", False)
        data = case["file_latin1"].encode("latin1")
        p = ctx.scratch_dir() / "replay.pdb"
        r = impl_ingest(None, c["dropw"], via_file=p, file_bytes=data)
        base = impl_ingest(case["text"], c["dropw"])
        if mode == "file-correspondence":
            header = HEADER0 + coq_deftab(tab)
            m = core.run_cases("C07replay", header, [f"run_ingest_file TAB {'true' if c['dropw'] else 'false'} {core.coq_string_bytes(case['file_latin1'])}"], chunk=10)
            bad = canon_impl(r) != parse_model_result(m[0])
            print("replay:", "FAILS" if bad else "passes")
            return 1 if bad else 0
        if mode == "file-bom":
            r0 = impl_ingest(None, c["dropw"], via_file=p, file_bytes=data[len(BOM):])
            bad = not same_atoms(r, r0)
        else:
            bad = not same_atoms(base, r)
            if not bad and not c["dropw"]:
                oracle_case(ctx, c, tab, result=r)
                bad = len(ctx.failures) + sum(ctx.known_hits.values()) > before
        print("replay:", "FAILS" if bad else "passes", "|", f"file: {str(r)[:200]}")
        return 1 if bad else 0
    if mode.startswith("meta") or mode == "file":
        import random

        for s in range(8):
            metamorphic(ctx, c, random.Random(s))
    else:
        oracle_case(ctx, c, tab, dropw=bool(case.get("dropw", False)))
    after = len(ctx.failures) + sum(ctx.known_hits.values())
    print("replay:", "FAILS" if after > before else "passes", "|", (ctx.failures[-1]["what"][:300] if ctx.failures else ""))
    return 1 if after > before else 0
